"""A small recursive-descent parser for TLA+ values as printed by TLC
(PrintT output, state dumps, -simulate trace files, error traces).

Supported: integers, strings, TRUE/FALSE, sequences/tuples <<..>>, sets {..},
records [a |-> v, ...], functions (k :> v @@ k :> v), model values (bare identifiers).
Sets are returned as Python lists (order as printed), records as dicts,
functions as dicts keyed by the (hashable-converted) key.
"""
from __future__ import annotations


class TlaParseError(Exception):
    pass


def _hashable(v):
    if isinstance(v, list):
        return tuple(_hashable(x) for x in v)
    if isinstance(v, dict):
        return tuple(sorted((k, _hashable(x)) for k, x in v.items()))
    return v


class _P:
    def __init__(self, s: str):
        self.s = s
        self.i = 0
        self.n = len(s)

    def ws(self):
        s, n = self.s, self.n
        while self.i < n and s[self.i] in " \t\r\n":
            self.i += 1

    def peek(self, k=1):
        return self.s[self.i : self.i + k]

    def expect(self, tok):
        self.ws()
        if not self.s.startswith(tok, self.i):
            raise TlaParseError(f"expected {tok!r} at {self.i}: {self.s[self.i:self.i+40]!r}")
        self.i += len(tok)

    def value(self):
        self.ws()
        s = self.s
        if self.i >= self.n:
            raise TlaParseError("unexpected end")
        c = s[self.i]
        if s.startswith("<<", self.i):
            self.i += 2
            return self.seq(">>")
        if c == "{":
            self.i += 1
            return self.seq("}")
        if c == "[":
            self.i += 1
            return self.record()
        if c == "(":
            self.i += 1
            return self.func()
        if c == '"':
            return self.string()
        if c == "-" or c.isdigit():
            j = self.i + 1
            while j < self.n and s[j].isdigit():
                j += 1
            v = int(s[self.i : j])
            self.i = j
            return v
        if c.isalpha() or c == "_":
            j = self.i
            while j < self.n and (s[j].isalnum() or s[j] == "_"):
                j += 1
            w = s[self.i : j]
            self.i = j
            if w == "TRUE":
                return True
            if w == "FALSE":
                return False
            return w
        raise TlaParseError(f"unexpected {c!r} at {self.i}: {s[self.i:self.i+40]!r}")

    def string(self):
        s = self.s
        assert s[self.i] == '"'
        j = self.i + 1
        out = []
        while j < self.n:
            c = s[j]
            if c == "\\":
                nx = s[j + 1]
                out.append({"n": "\n", "t": "\t", '"': '"', "\\": "\\"}.get(nx, nx))
                j += 2
                continue
            if c == '"':
                self.i = j + 1
                return "".join(out)
            out.append(c)
            j += 1
        raise TlaParseError("unterminated string")

    def seq(self, close):
        out = []
        self.ws()
        if self.s.startswith(close, self.i):
            self.i += len(close)
            return out
        while True:
            out.append(self.value())
            self.ws()
            if self.s.startswith(close, self.i):
                self.i += len(close)
                return out
            self.expect(",")

    def record(self):
        out = {}
        self.ws()
        if self.peek() == "]":
            self.i += 1
            return out
        while True:
            self.ws()
            j = self.i
            while j < self.n and (self.s[j].isalnum() or self.s[j] == "_"):
                j += 1
            k = self.s[self.i : j]
            self.i = j
            self.expect("|->")
            out[k] = self.value()
            self.ws()
            if self.peek() == "]":
                self.i += 1
                return out
            self.expect(",")

    def func(self):
        out = {}
        while True:
            k = self.value()
            self.expect(":>")
            v = self.value()
            out[_hashable(k)] = v
            self.ws()
            if self.peek() == ")":
                self.i += 1
                return out
            self.expect("@@")


def parse(s: str):
    p = _P(s)
    v = p.value()
    p.ws()
    if p.i != p.n:
        raise TlaParseError(f"trailing text at {p.i}: {s[p.i:p.i+40]!r}")
    return v


def parse_prefix(s: str, start: int = 0):
    """Parse one value starting at `start`; returns (value, end index)."""
    p = _P(s)
    p.i = start
    v = p.value()
    return v, p.i


def to_tla(v) -> str:
    """Python value -> TLA+ expression text (ints, bools, str, list -> sequence, dict -> record)."""
    if isinstance(v, bool):
        return "TRUE" if v else "FALSE"
    if isinstance(v, int):
        return str(v)
    if isinstance(v, str):
        return '"' + v.replace("\\", "\\\\").replace('"', '\\"') + '"'
    if isinstance(v, (list, tuple)):
        return "<<" + ", ".join(to_tla(x) for x in v) + ">>"
    if isinstance(v, (set, frozenset)):
        return "{" + ", ".join(to_tla(x) for x in sorted(v, key=repr)) + "}"
    if isinstance(v, dict):
        return "[" + ", ".join(f"{k} |-> {to_tla(x)}" for k, x in v.items()) + "]"
    raise TypeError(f"cannot convert {type(v)} to TLA+")
