"""C18 - cluster-coordinated use on a REAL dask.distributed cluster (in-process: Client(processes=False), inproc comms, no network):
real distributed.Variable and distributed.Lock instead of the stand-ins the interleaving replays use.  Scheduling is whatever the real
scheduler does; each round is one object written by n tasks that each hold their own (pickled) copy of the writer, then finalised by the
submitter.  Prints one JSON event per round in the shape spec/s3/S3Trace.tla validates (calls of the storage client, outcome per task).

usage: python -m vh.realcluster <rounds> <seed>"""
import json
import sys
import threading
import time

RECORD = {}
LOCK = threading.Lock()


class StubS3:
    """storage-client stand-in shared by all tasks of the process; one record per object key"""

    def create_multipart_upload(self, **kw):
        with LOCK:
            r = RECORD[kw["Key"]]
            r["n"] += 1
            r["calls"].append(["crt", 0, r["n"] - r["base"]])
            return {"UploadId": f"id{r['n']}"}

    def upload_part(self, **kw):
        with LOCK:
            RECORD[kw["Key"]]["calls"].append(["up", int(kw["PartNumber"]), _rel(kw["Key"], kw["UploadId"])])
        return {"ETag": f"e{kw['PartNumber']}"}

    def complete_multipart_upload(self, **kw):
        with LOCK:
            RECORD[kw["Key"]]["calls"].append(["complete", 0, _rel(kw["Key"], kw["UploadId"])])
        return {"ETag": "final"}


def _rel(key, uid):
    """upload ids are never reused by the store; the event numbers the ids issued DURING the round 1, 2, ...; an id from an earlier
    upload of the same object (or anything else) is 99 - no upload of this round"""
    r = RECORD[key]
    k = int(uid[2:]) if uid.startswith("id") and uid[2:].isdigit() else 0
    return k - r["base"] if k > r["base"] else 99


from odc.geo.cog._s3 import MultiPartUpload  # noqa: E402


class ClusterMPU(MultiPartUpload):
    def s3_client(self):
        return StubS3()


def write_task(writer, part, delay):
    time.sleep(delay)
    return writer(part, b"x" * 8)


def main(rounds, seed):
    import random

    from distributed import Client

    rng = random.Random(seed)
    MPU = ClusterMPU
    events = []
    client = Client(processes=False, n_workers=2, threads_per_worker=3, dashboard_address=None)
    try:
        for k in range(rounds):
            n = rng.choice([2, 3, 4, 6])
            # the same object is written again now and then (a re-run / overwrite on a long-lived cluster): each upload is coordinated on its own
            key = f"obj{rng.randrange(k)}" if k and rng.random() < 0.4 else f"obj{k}"
            issued = RECORD[key]["n"] if key in RECORD else 0
            RECORD[key] = {"n": issued, "base": issued, "calls": []}
            mpu = MPU("bkt", key)
            outcomes = []
            try:
                w = mpu.writer({}, client=client)            # prep_client on the submitting side
                futs = [client.submit(write_task, w, p, rng.choice([0, 0, 0.002, 0.01]), pure=False) for p in range(1, n + 1)]
                parts = []
                for p, f in enumerate(futs, 1):
                    try:
                        parts.append(f.result(timeout=60))
                        outcomes.append([p, "ok"])
                    except Exception as ex:  # noqa: BLE001
                        outcomes.append([p, type(ex).__name__])
                if all(o[1] == "ok" for o in outcomes):
                    try:
                        fin = client.submit(_finalise, w, parts, pure=False)
                        fin.result(timeout=60)
                        outcomes.append([0, "ok"])
                    except Exception as ex:  # noqa: BLE001
                        outcomes.append([0, type(ex).__name__])
                    try:
                        w.cleanup_client(client)
                    except Exception as ex:  # noqa: BLE001
                        outcomes.append([0, "cleanup_" + type(ex).__name__])
            except Exception as ex:  # noqa: BLE001
                outcomes.append([0, "submit_" + type(ex).__name__])
            calls = RECORD[key]["calls"]
            cnt = lambda kind: sum(1 for c in calls if c[0] == kind)  # noqa: E731
            events.append({"mode": "cluster", "n": n, "cells": "real", "first": False, "sched": [], "steps": [], "calls": calls, "outcomes": outcomes,
                           "deadlock": False, "final": {"ncreated": cnt("crt"), "nparts": cnt("up"), "ncompleted": cnt("complete"), "nfailed": 0}})
    finally:
        client.close()
    print("EVENTS " + json.dumps(events))


def _finalise(writer, parts):
    return writer.finalise(parts)


if __name__ == "__main__":
    from vh import realcluster      # run the importable module (classes and records pickled by reference), not __main__

    realcluster.main(int(sys.argv[1]), int(sys.argv[2]))
