"""Deterministic replay of thread interleavings: threads only run between *seams* (yield points);
a controller decides which thread performs its pending operation next."""
from __future__ import annotations

import threading


class Abort(BaseException):
    """Raised inside a controlled thread to unwind it when the controller gives up on it."""


class Baton:
    def __init__(self):
        self.tl = threading.local()
        self.cv = threading.Condition()
        self.pending = {}     # tid -> (label, enabled)
        self.running = None   # tid currently allowed to run
        self.state = {}       # tid -> "new" | "waiting" | "done"
        self.results = {}
        self.steps = []       # (tid, label) performed
        self.abort = False
        self.threads = {}

    # ---- called from controlled threads
    def in_thread(self):
        return getattr(self.tl, "tid", None) is not None

    def yield_point(self, label, enabled=None):
        tid = getattr(self.tl, "tid", None)
        if tid is None:
            return  # not a controlled thread (object construction etc.)
        with self.cv:
            self.pending[tid] = (label, enabled)
            self.state[tid] = "waiting"
            self.running = None
            self.cv.notify_all()
            while self.running != tid:
                self.cv.wait()
                if self.abort:
                    raise Abort()
            self.steps.append((tid, label))

    # ---- controller side
    def spawn(self, tid, fn):
        def body():
            self.tl.tid = tid
            try:
                self.results[tid] = ("ok", fn())
            except Abort:
                self.results[tid] = ("aborted", None)
            except BaseException as ex:  # noqa: BLE001
                self.results[tid] = (type(ex).__name__, str(ex)[:200])
            with self.cv:
                self.state[tid] = "done"
                self.pending.pop(tid, None)
                self.running = None
                self.cv.notify_all()

        self.state[tid] = "new"
        t = threading.Thread(target=body, daemon=True)
        self.threads[tid] = t
        with self.cv:
            self.running = tid
            t.start()
            self._wait_idle()

    def _wait_idle(self):
        # wait until the running thread reaches its next seam or finishes
        while self.running is not None:
            if not self.cv.wait(timeout=10):
                raise RuntimeError("controlled thread did not reach a seam within 10 s")

    def enabled(self, tid):
        if self.state.get(tid) != "waiting":
            return False
        _, en = self.pending[tid]
        return True if en is None else bool(en())

    def step(self, tid):
        """Let `tid` perform its pending operation; False if it is done or blocked."""
        with self.cv:
            if not self.enabled(tid):
                return False
            self.running = tid
            self.cv.notify_all()
            self._wait_idle()
            return True

    def finish(self):
        """Abort whatever is still waiting (blocked forever)."""
        with self.cv:
            self.abort = True
            self.cv.notify_all()
        for t in self.threads.values():
            t.join(timeout=5)
