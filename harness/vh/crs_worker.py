"""Fresh-interpreter worker for C19 history replay: reads {"hists": [...]} from argv[1],
writes {"events": [...]} to argv[2].  One event per history step."""
import gc
import json
import pickle
import sys
import warnings

warnings.filterwarnings("ignore")

class _Epsg(dict):
    def __missing__(self, cls):
        # "cNNNN" = EPSG:NNNN; "eNNNN" = ESRI:NNNN (an authority other than EPSG)
        return int(cls[1:]) if cls[0] == "c" else f"ESRI:{cls[1:]}"


EPSG = _Epsg()
_PROBE = {"c4326": (10.0, 20.0), "c3857": (1113194.9, 2273030.9), "c3577": (1000000.0, -3000000.0), "e54009": (1000000.0, 2000000.0), "e54030": (1500000.0, -1000000.0)}


class _Probe(dict):
    def __missing__(self, cls):
        if cls in _PROBE:
            self[cls] = _PROBE[cls]
        else:
            import pyproj
            code = int(cls[1:])
            zone = code % 100
            t = pyproj.Transformer.from_crs(4326, code, always_xy=True)
            self[cls] = tuple(float(v) for v in t.transform(-183.0 + 6 * zone, 10.0))
        return self[cls]


PROBE = _Probe()


def main():
    import pyproj
    from dask.base import tokenize

    from odc.geo import crs as C
    from odc.geo.crs import CRS

    def clear():
        C._crs_cache.clear()
        C._make_crs_transform.cache.clear()
        gc.collect()

    def build(cls, route, variant=0):
        code = EPSG[cls]
        if route == "int":
            return code
        if route == "epsgstr":
            return ["epsg:%d", "EPSG:%d", "Epsg:%d"][variant % 3] % code
        if route == "authstr":
            # authority:code string of another authority, in three letter cases (the code keeps the spelling it was given)
            return [str(code), str(code).lower(), str(code).title()][variant % 3]
        base = pyproj.CRS.from_user_input(code)
        if route == "wkt":
            return base.to_wkt()
        if route == "dict":
            return base.to_json_dict()
        if route == "projdict":
            if 32600 < code < 32800:
                return dict({"proj": "utm", "zone": code % 100, "datum": "WGS84", "units": "m", "no_defs": True}, **({"south": True} if code > 32700 else {}))
            return base.to_dict()
        if route == "jsonstr":
            return pyproj.CRS.from_dict(base.to_json_dict()).srs
        if route == "obj_epsg":
            return base
        if route == "obj_wkt":
            return pyproj.CRS.from_wkt(base.to_wkt())
        if route == "obj_dict":
            return pyproj.CRS.from_dict(base.to_json_dict())
        raise KeyError(route)

    def form(s):
        u = s.upper()
        return "EPSG" if u.startswith("EPSG:") else ("JSON" if s.lstrip().startswith("{") else "WKT")

    # what a program that constructs ONLY this spec observes
    class _Fresh(dict):
        def __missing__(self, key):
            raise KeyError(key)

    fresh = {}
    doc = json.load(open(sys.argv[1]))
    need = {(st["cls"], st["route"]) for h in doc["hists"] for st in h["hist"] if st["op"] == "make"}
    for cls, route in sorted(need):
        clear()
        c = CRS(build(cls, route))
        fresh[(cls, route)] = (str(c), hash(c), tokenize(c))
        if route == "authstr":
            for v in range(3):
                clear()
                c = CRS(build(cls, route, v))
                fresh[(cls, route, v)] = (str(c), hash(c), tokenize(c))
    fresh_tr = {}

    def expected_tr(c1, c2):
        if (c1, c2) not in fresh_tr:
            t = pyproj.Transformer.from_crs(pyproj.CRS.from_user_input(EPSG[c1]), pyproj.CRS.from_user_input(EPSG[c2]), always_xy=True)
            fresh_tr[(c1, c2)] = t.transform(*PROBE[c1])
        return fresh_tr[(c1, c2)]

    events = []
    for tid, h in enumerate(doc["hists"]):
        clear()
        refs, cls_of = {}, {}
        for k, st in enumerate(h["hist"]):
            op = st["op"]
            if op == "evict":
                continue  # what-if histories: the real cache never evicts
            ob = {"form": "", "stable": True, "eq_ok": True, "same": [], "tr_ok": True, "outcome": "ok"}
            try:
                if op in ("make", "copy", "pickle"):
                    r = st["r"]
                    if op == "make":
                        o = CRS(build(st["cls"], st["route"], tid + k))
                        f = fresh[(st["cls"], st["route"], (tid + k) % 3)] if st["route"] == "authstr" else fresh[(st["cls"], st["route"])]
                        ob["stable"] = bool(str(o).upper() == f[0].upper() if st["route"] == "epsgstr" else str(o) == f[0]) \
                            and hash(o) == f[1] and tokenize(o) == f[2]
                    elif op == "copy":
                        src = refs[st["src"]]
                        o = CRS(src)
                        ob["stable"] = str(o) == str(src) and hash(o) == hash(src) and tokenize(o) == tokenize(src)
                    else:
                        src = refs[st["src"]]
                        o = pickle.loads(pickle.dumps(src))
                        ob["stable"] = str(o) == str(src) and hash(o) == hash(src) and tokenize(o) == tokenize(src)
                        # what travelled in the pickle is the source's string form: an authority code, or WKT / PROJJSON text
                        import re
                        ob["payload"] = "code" if re.match(r"^[A-Za-z_0-9]+:[0-9]+$", str(src)) else "text"
                    ob["form"] = form(str(o))
                    refs[r], cls_of[r] = o, st["cls"]
                    ob["eq_ok"] = all(((o == refs[x]) is (cls_of[x] == st["cls"])) and ((refs[x] == o) is (cls_of[x] == st["cls"]))
                                      and ((o != refs[x]) is (cls_of[x] != st["cls"])) for x in refs)
                    ob["same"] = sorted(x for x in refs if x != r and refs[x]._crs is o._crs)
                elif op == "drop":
                    del refs[st["r"]]
                    del cls_of[st["r"]]
                elif op == "gc":
                    gc.collect()
                elif op == "transform":
                    a, b = refs[st["r"]], refs[st["src"]]
                    got = a.transformer_to_crs(b)(*PROBE[cls_of[st["r"]]])
                    exp = expected_tr(cls_of[st["r"]], cls_of[st["src"]])
                    st = dict(st, route=cls_of[st["src"]])
                    ob["tr_ok"] = all(abs(g - e) <= 1e-6 * max(1.0, abs(e)) for g, e in zip(got, exp))
            except Exception as ex:  # noqa: BLE001
                ob["outcome"] = type(ex).__name__
            events.append({"tid": tid, "k": k + 1, "st": st, "ob": ob, "whatif": bool(h.get("whatif", False))})
    json.dump({"events": events}, open(sys.argv[2], "w"))


if __name__ == "__main__":
    main()
