"""Check context: runs M (model checking), G (case emission), V (trace validation) through TLC,
collects verdicts, applies the findings protocol and writes the evidence file.

Verdict strings (printed by the TLA+ trace specs, one per event):
  "ok"                 property predicates hold on the observed values, model agrees
  "skip"               event is outside what the property constrains (counted, not trivial/nontrivial)
  "reject:<clause>"    a PROPERTY-LEVEL predicate failed on values observed from the real code
  "drift:<clause>"     the real code disagrees with the implementation-shaped model only
"""
from __future__ import annotations

import hashlib
import json
import multiprocessing as mp
import os
import random
import shutil
import sys
import tempfile
import time
import traceback
from pathlib import Path

from . import tlc as T
from .tlc import MachineryError

VERIF = Path(__file__).resolve().parents[2]
KNOWN = VERIF / "known_findings.json"
# VH_OUT: where evidence/ and replays/ are written (default /verif).  Runs against a scratch worktree holding a deliberately broken
# copy of the repository (tools/mutcheck.sh, tools/mutscore.py) set it so that they never overwrite the committed evidence.
OUT = Path(os.environ.get("VH_OUT") or VERIF)


def stable_hash(obj) -> str:
    return hashlib.sha1(json.dumps(obj, sort_keys=True, default=str).encode()).hexdigest()[:16]


class _Guarded:
    """picklable wrapper: fn(x) under a SIGALRM watchdog (main thread of the calling process only; elsewhere plain call)"""

    def __init__(self, fn, limit):
        self.fn, self.limit = fn, limit

    def __call__(self, x):
        import signal
        import threading

        if self.limit <= 0 or threading.current_thread() is not threading.main_thread():
            return self.fn(x)

        def on_alarm(signum, frame):
            raise TimeoutError(f"case did not finish within {self.limit:.0f} s")

        old = signal.signal(signal.SIGALRM, on_alarm)
        signal.setitimer(signal.ITIMER_REAL, self.limit)
        try:
            return self.fn(x)
        finally:
            signal.setitimer(signal.ITIMER_REAL, 0)
            signal.signal(signal.SIGALRM, old)


class Ctx:
    def __init__(self, pid: str, tier: str, seed: int):
        self.pid = pid
        self.tier = tier
        self.seed = seed
        self.rng = random.Random(seed)
        self.t0 = time.time()
        self.scratch = tempfile.mkdtemp(prefix=f"vh_{pid}_")
        self.m_runs = []
        self.states = 0
        self.transitions = 0
        self.evaluations = 0
        self.skipped = 0
        self.nontrivial = set()
        self.samples = []
        self.sample_ops = {}
        self.traces_validated = 0
        self.conf = {"checked": 0, "agreed": 0, "drift": 0}
        self.violations = []
        self.known_hits = {}
        self.drift_lines = []
        self.by_op = {}
        self.clauses = {}
        self.assumptions = []
        self.oracle_clauses = []
        self.rule = ""
        self.extra = {}
        self.exhaustive = None
        self.findings = [f for f in json.load(open(KNOWN)) if f["property"] == pid] if KNOWN.exists() else []
        self.level = "model_checking"

    # ------------------------------------------------------------------ TLC
    def quick(self) -> bool:
        return self.tier == "quick"

    def model_check(self, module, cfg, *, expect_violation=None, timeout=900, workers="auto",
                    env=None, coverage=False, label=None, emit=False, **kw):
        """M: TLC explores the design model; every invariant in the cfg must hold
        (or, for a finding config, exactly `expect_violation` must be reported)."""
        if emit:
            env = dict(env or {})
            env["VH_EMIT"] = "1"
        res = T.run_tlc(module, cfg, timeout=timeout, workers=workers, env=env, coverage=coverage,
                        scratch=self.scratch, **kw)
        name = label or f"{Path(str(module)).stem}/{Path(str(cfg)).stem}"
        if res.timed_out:
            raise MachineryError(f"M {name}: TLC timed out after {timeout}s")
        if expect_violation is None:
            if res.rc != 0 or not res.no_error:
                # A design-model failure is never reported as a code violation: it means the model
                # (or its bounds) is wrong, or the design has a defect that must be replayed on the
                # real code before anything is claimed.
                tail = "\n".join(res.stdout.splitlines()[-60:])
                raise MachineryError(f"M {name}: model check failed rc={res.rc} violated={res.violated}\n{tail}")
        else:
            if expect_violation not in res.violated:
                tail = "\n".join(res.stdout.splitlines()[-30:])
                raise MachineryError(f"M {name}: expected counterexample for {expect_violation} not produced "
                                     f"(rc={res.rc}, violated={res.violated})\n{tail}")
        self.states += res.distinct
        self.transitions += res.generated
        run = {"model": name, "distinct_states": res.distinct, "states_generated": res.generated,
               "depth": res.depth, "wall_s": round(res.wall, 2),
               "result": "no error" if expect_violation is None else f"counterexample:{expect_violation} (expected, known finding)"}
        if coverage and res.coverage:
            run["coverage_by_action"] = res.coverage
            zero = [a for a, c in res.coverage.items() if c[1] == 0]
            if zero:
                run["actions_never_taken"] = zero
        self.m_runs.append(run)
        if emit:
            cases = T.emitted_cases(res.stdout)
            run["cases_emitted"] = len(cases)
            self.extra["cases_emitted_by_tlc"] = self.extra.get("cases_emitted_by_tlc", 0) + len(cases)
            return res, cases
        return res

    def apalache(self, module, *, init, inv, length, label, timeout=600, expect_error=False):
        """Symbolic check with Apalache (bounded in the length of the computation, not in the values): used for inductive invariants -
        `init` = the invariant itself (with Gen(n) for the set-valued variables), length 1 = one arbitrary step."""
        import subprocess

        mod = T.SPEC / module
        out = os.path.join(self.scratch, "apalache_" + label.replace(" ", "_").replace("/", "_"))
        t0 = time.time()
        try:
            r = subprocess.run(["apalache-mc", "check", f"--init={init}", f"--inv={inv}", f"--length={length}", f"--out-dir={out}", mod.name],
                               cwd=str(mod.parent), capture_output=True, text=True, timeout=timeout)
        except (subprocess.TimeoutExpired, FileNotFoundError) as ex:
            raise MachineryError(f"Apalache {label}: {type(ex).__name__}") from None
        ok = "The outcome is: NoError" in r.stdout
        refuted = "The outcome is: Error" in r.stdout and "violation" in r.stdout
        self.m_runs.append({"model": f"Apalache {label}", "init": init, "inv": inv, "length": length, "wall_s": round(time.time() - t0, 2),
                            "result": ("no error" if ok else "error") + (" (a counterexample was expected: the statement is not vacuous)" if expect_error else "")})
        shutil.rmtree(out, ignore_errors=True)
        if expect_error:
            if ok or not refuted:
                raise MachineryError(f"Apalache {label}: expected a counterexample, got: {r.stdout[-400:]}")
            return
        if not ok:
            raise MachineryError(f"Apalache {label}: {r.stdout[-800:]}")

    def validate(self, module, events, cfg=None, *, meta=None, batch=4000, timeout=900, env=None,
                 procs=8, tag="V"):
        """V: TLC reads the recorded events and prints one verdict per event.
        Returns the list of verdict strings aligned with `events`."""
        if not events:
            return []
        chunks = [events[i:i + batch] for i in range(0, len(events), batch)]
        jobs = []
        for ci, ch in enumerate(chunks):
            path = os.path.join(self.scratch, f"trace_{tag}_{ci}_{time.time_ns()}.json")
            doc = {"meta": meta or {}, "events": ch}
            T.write_json(path, doc)
            jobs.append((str(module), str(cfg) if cfg else None, path, dict(env or {}), timeout, self.scratch, len(ch)))
        if len(jobs) == 1 or procs <= 1:
            outs = [_validate_job(j) for j in jobs]
        else:
            with mp.get_context("fork").Pool(min(procs, len(jobs))) as pool:
                outs = pool.map(_validate_job, jobs)
        verdicts = []
        for o in outs:
            if isinstance(o, str):
                raise MachineryError(o)
            verdicts.extend(o)
        return verdicts

    # ------------------------------------------------------------- parallel
    def pmap(self, fn, items, procs=16, chunksize=None):
        """Run fn over items (in worker processes when there are many).  Every call runs under a watchdog: code under test that does not
        return within VH_CASE_TIMEOUT seconds (default 300) gets a TimeoutError raised inside the call, which the drivers report as the
        case's outcome - a hang becomes a verdict instead of a stuck check."""
        items = list(items)
        fn = _Guarded(fn, float(os.environ.get("VH_CASE_TIMEOUT", "300")))
        if len(items) < 64 or procs <= 1:
            return [fn(x) for x in items]
        cs = chunksize or max(1, len(items) // (procs * 8))
        pool = mp.get_context("fork").Pool(procs)
        try:
            return pool.map(fn, items, chunksize=cs)
        finally:
            pool.close()      # let the workers exit normally (not terminate()): tools that flush at exit (coverage) keep their data
            pool.join()

    def subsample(self, cases, n):
        """Quick tier: deterministic sub-sample (VERIF_SEED) of a TLC-emitted case list."""
        if len(cases) <= n:
            return list(cases)
        idx = sorted(self.rng.sample(range(len(cases)), n))
        return [cases[i] for i in idx]

    def subsample_by(self, cases, key, cap):
        """Stratified quick-tier sample: at most `cap` cases of every stratum key(case), so that small families of the domain are taken whole
        instead of being thinned in proportion to the big ones."""
        groups = {}
        for c in cases:
            groups.setdefault(key(c), []).append(c)
        out = []
        for k in sorted(groups, key=str):
            out.extend(self.subsample(groups[k], cap))
        return out

    # ------------------------------------------------------------- verdicts
    def record(self, case, verdict, *, op="", tags=(), nontrivial=True, sample=None, conformance=None):
        """Register the verdict TLC printed for one executed case."""
        self.evaluations += 1
        self.by_op[op] = self.by_op.get(op, 0) + 1
        key = stable_hash(case)
        if conformance is not None:
            self.conf["checked"] += 1
        if verdict == "skip":
            self.skipped += 1
            return
        if verdict == "ok":
            if nontrivial:
                self.nontrivial.add(key)
            if conformance is not None:
                self.conf["agreed"] += 1
            if self.sample_ops.get(op, 0) < 2 and len(self.samples) < 40:
                self.sample_ops[op] = self.sample_ops.get(op, 0) + 1
                self.samples.append({"op": op, "case": sample if sample is not None else case, "verdict": verdict})
            return
        if verdict.startswith("drift:"):
            self.conf["drift"] += 1
            if nontrivial:
                self.nontrivial.add(key)
            if len(self.drift_lines) < 5:
                self.drift_lines.append(f"MODEL-DRIFT property={self.pid} op={op} clause={verdict[6:]} case={json.dumps(case, default=str)[:300]}")
            return
        if verdict.startswith("reject:"):
            clause = verdict[7:]
            self.clauses[clause] = self.clauses.get(clause, 0) + 1
            if nontrivial:
                self.nontrivial.add(key)
            tagset = set(tags)
            for f in self.findings:
                if f.get("status") != "finding":
                    continue
                if f.get("op", op) != op:
                    continue
                fc = f.get("clause")
                if fc is not None and fc != clause and not (fc.endswith("*") and clause.startswith(fc[:-1])):
                    continue
                if not set(f.get("tags", [])) <= tagset:
                    continue
                hit = self.known_hits.setdefault(f["id"], {"count": 0, "what": f["what"], "example": case})
                hit["count"] += 1
                return
            self.violations.append({"op": op, "clause": clause, "case": case, "tags": sorted(tagset),
                                    "sample": sample})
            return
        raise MachineryError(f"unknown verdict string {verdict!r} for case {case}")

    def violation(self, op, clause, case, tags=()):
        """Direct registration of a property-level rejection (same findings protocol)."""
        self.record(case, f"reject:{clause}", op=op, tags=tags)

    # --------------------------------------------------------------- finish
    def finish(self, write_evidence=True) -> int:
        wall = time.time() - self.t0
        rc = 0
        lines = []
        for fid, hit in sorted(self.known_hits.items()):
            lines.append(f"KNOWN-FINDING: property={self.pid} {fid} {hit['what']} (matched {hit['count']} case(s))")
        lines.extend(self.drift_lines)
        seen = {}
        nfiles = 0
        for v in self.violations:
            rc = 1
            k = (v["op"], v["clause"])
            seen[k] = seen.get(k, 0) + 1
            if seen[k] > 3 or nfiles >= 60:
                continue
            rdir = OUT / "replays" / self.pid
            rdir.mkdir(parents=True, exist_ok=True)
            path = rdir / f"{stable_hash(v)}.json"
            with open(path, "w") as f:
                json.dump({"property": self.pid, "op": v["op"], "clause": v["clause"], "case": v["case"],
                           "tags": v["tags"], "tier": self.tier, "seed": self.seed,
                           "replay": f"./check {self.pid} --replay {path}"}, f, indent=1, default=str)
            nfiles += 1
            lines.append(f"VIOLATION property={self.pid} replay={path} op={v['op']} clause={v['clause']}")
        for k, n in seen.items():
            if n > 3:
                lines.append(f"  ... {n} rejected cases in total for op={k[0]} clause={k[1]}")
        cov = {
            "states": self.states,
            "transitions": self.transitions,
            "traces_validated_against_impl": self.traces_validated,
            "evaluations": self.evaluations,
            "distinct_nontrivial": len(self.nontrivial),
            "rule": self.rule,
            "samples": self.samples[:40] or [{"note": "no accepted case"}],
            "model_runs": self.m_runs,
            "conformance": self.conf,
            "skipped_events": self.skipped,
            "events_by_op": self.by_op,
            "rejected_by_clause": self.clauses,
            "known_findings_hit": {k: v["count"] for k, v in self.known_hits.items()},
            "oracle_clauses": self.oracle_clauses,
        }
        if self.exhaustive is not None:
            cov["exhaustive"] = self.exhaustive
        cov.update(self.extra)
        ev = {
            "property_id": self.pid,
            "tier": self.tier,
            "seed": self.seed,
            "level": self.level,
            "coverage": cov,
            "assumptions": self.assumptions,
            "wall_s": round(wall, 2),
            "violations": len(self.violations),
        }
        if write_evidence:
            (OUT / "evidence").mkdir(parents=True, exist_ok=True)
            with open(OUT / "evidence" / f"{self.pid}.json", "w") as f:
                json.dump(ev, f, indent=1, default=str)
        for ln in lines:
            print(ln)
        print(f"[{self.pid}] tier={self.tier} seed={self.seed} M: {self.states} distinct states / {self.transitions} generated in "
              f"{len(self.m_runs)} run(s); V: {self.evaluations} events validated ({len(self.nontrivial)} distinct non-trivial, "
              f"{self.skipped} skipped), drift={self.conf['drift']}, known-finding hits={sum(v['count'] for v in self.known_hits.values())}, "
              f"violations={len(self.violations)}; {wall:.1f}s")
        return rc

    def cleanup(self):
        shutil.rmtree(self.scratch, ignore_errors=True)


def _validate_job(job):
    module, cfg, path, env, timeout, scratch, n = job
    e = {"TRACE_FILE": path}
    e.update(env)
    try:
        res = T.run_tlc(module, cfg, env=e, workers=1, timeout=timeout, scratch=scratch)
    finally:
        try:
            os.unlink(path)
        except OSError:
            pass
    if res.timed_out:
        return f"V {module}: TLC timed out after {timeout}s"
    if res.rc != 0 or not res.no_error:
        tail = "\n".join(res.stdout.splitlines()[-40:])
        return f"V {module}: TLC failed rc={res.rc} errors={res.errors[:3]}\n{tail}"
    got = res.printed("V")
    byk = {}
    for v in got:
        if len(v) != 3 or not isinstance(v[1], int) or not isinstance(v[2], str):
            return f"V {module}: malformed verdict line {v!r}"
        byk[v[1]] = v[2]
    if sorted(byk) != list(range(1, n + 1)):
        return f"V {module}: verdicts are not total: got {len(byk)} for {n} events"
    return [byk[i] for i in range(1, n + 1)]


class NotAnIndex(TypeError):
    pass


def idx(v):
    """A value the code under test returns as an array index, slice bound, tile index or size must BE an integer (usable with
    numpy indexing): 3.0 is not 3.  The drivers encode such values with idx(), never with int(), so that a float, a numpy float or
    None where an integer is owed becomes the case's outcome (raised_NotAnIndex) instead of being rounded silently."""
    import operator

    if isinstance(v, bool):
        raise NotAnIndex(f"{v!r} (bool) where an integer index is owed")
    try:
        return operator.index(v)
    except TypeError:
        raise NotAnIndex(f"{v!r} ({type(v).__name__}) is not usable as an array index") from None


def outcome_of(fn, *a, **kw):
    """Run real code, returning ("ok", value) or (ExceptionClassName, message)."""
    try:
        return "ok", fn(*a, **kw)
    except Exception as ex:  # noqa: BLE001 - the outcome is data
        return type(ex).__name__, str(ex)[:200]


def main(argv=None):
    import argparse
    import importlib

    ap = argparse.ArgumentParser()
    ap.add_argument("pid")
    ap.add_argument("--tier", default=os.environ.get("VERIF_TIER", "quick"), choices=["quick", "thorough"])
    ap.add_argument("--replay", default=None)
    args = ap.parse_args(argv)
    try:
        seed = int(os.environ.get("VERIF_SEED", "0") or 0)
    except ValueError:
        seed = 0
    pid = args.pid.upper()
    ctx = Ctx(pid, args.tier, seed)
    try:
        drv = importlib.import_module(f"vh.drivers.{pid.lower()}")
        if args.replay:
            obj = json.load(open(args.replay))
            drv.replay(ctx, obj)
        else:
            drv.run(ctx)
        rc = ctx.finish(write_evidence=not args.replay)
    except MachineryError as ex:
        print(f"MACHINERY-FAILURE property={pid}: {ex}", file=sys.stderr)
        rc = 2
    except Exception:  # noqa: BLE001
        traceback.print_exc()
        print(f"MACHINERY-FAILURE property={pid}: harness exception", file=sys.stderr)
        rc = 2
    finally:
        ctx.cleanup()
    return rc
