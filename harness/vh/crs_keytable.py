"""Tabulate which CRS specifications share a cache key under pyproj's own hash/eq (environment of CrsCache.tla).
Independent transcription of the key rule; run in a fresh interpreter: prints JSON."""
import json
import warnings

warnings.filterwarnings("ignore")
import pyproj  # noqa: E402

EPSG = {"c4326": 4326, "c3857": 3857, "c3577": 3577}
EPSG.update({f"c{32600 + z}": 32600 + z for z in range(1, 11)})


def key(cls, route):
    code = EPSG[cls]
    base = pyproj.CRS.from_epsg(code)
    if route in ("int", "epsgstr"):
        return f"EPSG:{code}"
    if route == "wkt":
        return base.to_wkt()
    if route == "jsonstr":
        return pyproj.CRS.from_dict(base.to_json_dict()).srs
    if route == "obj_epsg":
        return base
    if route == "obj_wkt":
        return pyproj.CRS.from_wkt(base.to_wkt())
    if route in ("dict", "obj_dict"):
        return pyproj.CRS.from_dict(base.to_json_dict())
    raise KeyError(route)


tab = {}
for cls in EPSG:
    groups = []  # list of representative keys, python-dict semantics: same hash and ==
    tab[cls] = {}
    for route in ("int", "epsgstr", "wkt", "dict", "jsonstr", "obj_epsg", "obj_wkt", "obj_dict"):
        k = key(cls, route)
        for gi, rep in enumerate(groups):
            if hash(rep) == hash(k) and (rep == k or k == rep):
                tab[cls][route] = gi + 1
                break
        else:
            groups.append(k)
            tab[cls][route] = len(groups)
print(json.dumps(tab))
