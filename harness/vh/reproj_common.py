"""Shared by C03 / C10 / C12 / C13: build same-CRS GeoBox pairs from a rational destination-to-source pixel map."""
import math

from .core import idx

D = 960
CRS = "epsg:3857"


class OffLattice(Exception):
    pass


def lat(v, scale=1, tol=1e-6):
    x = float(v) * scale
    r = round(x)
    if not math.isfinite(x) or abs(x - r) > tol:
        raise OffLattice(v)
    return int(r)


def boxes(c):
    """src: pixel size D world units, origin 0 (y grows down the rows);  dst.affine = src.affine o A."""
    from affine import Affine

    from odc.geo.geobox import GeoBox

    den = c.get("den", D)
    src = GeoBox((c["hs"], c["ws"]), Affine(den, 0, 0, 0, den, 0), CRS)
    A = c["A"]
    dst = GeoBox((c["hd"], c["wd"]), Affine(*[float(v) for v in A]), CRS)   # D * (A / D)
    if c.get("xcrs"):
        # the same numbers under two different custom CRSs (spec/warp/ReprojGen.tla XCrsCases): fresh CRS objects each time
        from .drivers.c16 import CRS_A, CRS_B
        from odc.geo.crs import CRS as OCRS
        src = GeoBox(src.shape, src.affine, OCRS(CRS_A))
        dst = GeoBox(dst.shape, dst.affine, OCRS(CRS_B))
    return src, dst


def roi4(roi):
    return [idx(roi[0].start), idx(roi[0].stop), idx(roi[1].start), idx(roi[1].stop)]


def plan(c):
    from odc.geo.overlap import compute_reproject_roi

    src, dst = boxes(c)
    kw = {}
    if c["pad"]:
        kw["padding"] = c["pad"][0]
    if c["align"]:
        kw["align"] = c["align"][0]
    rr = compute_reproject_roi(src, dst, ttol=c["ttol"][0] / c["ttol"][1], stol=c["stol"][0] / c["stol"][1], **kw)
    return src, dst, rr
