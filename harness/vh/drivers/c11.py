"""C11 - the output grid computed for another CRS encloses the source.
M+G: spec/outgbx/OutGen.tla (decision model of the options; sources x targets x option sets);  real code: compute_output_geobox / GeoBox.to_crs / .odc.output_geobox;
V: spec/outgbx/OutTrace.tla relative to an environment table (projected positions of the source's boundary pixel corners and an interior sample, fresh pyproj)."""
import json
import math

import numpy as np

SRC = {
    "eu_3857_tile": ("epsg:3857", (1558472.0, 6446275.0), 10.0, (64, 80), 0),
    "eu_32633_tile": ("epsg:32633", (430000.0, 5540000.0), 30.0, (50, 40), 0),
    "eu_4326_tile": ("epsg:4326", (14.0, 50.0), 0.0005, (60, 70), 0),
    "eu_3857_rot": ("epsg:3857", (1558472.0, 6446275.0), 20.0, (40, 60), 30),
    "eu_4326_continental": ("epsg:4326", (-8.0, 38.0), 0.25, (80, 120), 0),
    "eu_3035_continental": ("epsg:3035", (2700000.0, 1600000.0), 25000.0, (100, 120), 0),
    "au_3577_tile": ("epsg:3577", (1200000.0, -3500000.0), 25.0, (50, 60), 0),
    "au_4326_tile": ("epsg:4326", (145.0, -25.0), 0.001, (40, 50), 0),
    "equator_4326": ("epsg:4326", (30.2, -0.3), 0.01, (60, 40), 0),
    "eu_32633_rot180": ("epsg:32633", (430000.0, 5540000.0), 30.0, (50, 40), 180),
    "eu_4326_rot180": ("epsg:4326", (14.0, 50.0), 0.0005, (60, 70), 180),
    "eu_3857_southup": ("epsg:3857", (1558472.0, 6446275.0), 10.0, (64, 80), "flipy"),
    "eu_3857_mirrored": ("epsg:3857", (1558472.0, 6446275.0), 10.0, (64, 80), "flipx"),
    "eu_32633_offlattice": ("epsg:32633", (430007.0, 5540011.0), 30.0, (50, 40), 0),
    "au_4326_nonsquare": ("epsg:4326", (145.0, -25.0), (0.002, 0.001), (40, 50), 0),
    "eu_32633_nonsquare": ("epsg:32633", (430000.0, 5540000.0), (30.0, 60.0), (50, 40), 0),
    "eu_32633_nearline": ("epsg:32633", (429950.0, 5539950.0), 10.0, (50, 40), 0),
    "eu_4326_nearline": ("epsg:4326", (13.9995, 49.9995), 0.0001, (60, 70), 0),
}
EXPLICIT = {"metre": 100.0, "degree": 0.001}
COARSE = {"metre": 10000.0, "degree": 0.1}


def _source(name):
    from affine import Affine

    from odc.geo.geobox import GeoBox

    if name.startswith("gcp_"):
        # a raster registered by ground control points (exactly affine ones), then rescaled: its pixel size is what pix2wld says, twice the original
        import numpy as np

        from odc.geo.gcp import GCPGeoBox, GCPMapping

        crs, (x0, y0), res, shape, _ = SRC[name[4:].replace("_zoomed", "_tile")]
        A0 = Affine(res, 0, x0, 0, -res, y0 + res * shape[0])
        pix = np.array([[0, 0], [shape[1], 0], [shape[1], shape[0]], [0, shape[0]], [7, 11], [23, 31], [30, 5]], dtype="float64")
        wld = np.array([A0 * tuple(p) for p in pix])
        return GCPGeoBox(shape, GCPMapping(pix, wld, crs)).zoom_out(2)
    crs, (x0, y0), res, shape, rot = SRC[name]
    rx, ry = res if isinstance(res, tuple) else (res, res)
    g = GeoBox(shape, Affine(rx, 0, x0, 0, -ry, y0 + ry * shape[0]), crs)
    if rot == "flipy":
        return g.flipy()
    if rot == "flipx":
        return g.flipx()
    return g.rotate(rot) if rot else g


def execute(c):
    import pyproj

    from odc.geo.crs import CRS
    from odc.geo.overlap import compute_output_geobox
    from odc.geo.types import xy_

    ev = {"c": dict(c, same_crs=False, same_units=False), "outcome": "ok", "pos": [],
          "o": {"h": 0, "w": 0, "axis_aligned": True, "crs_ok": True, "is_source": False, "edge": [0, 0], "res_ratio": [0, 0], "square": True, "explicit_res_ok": True, "tight_floats": True},
          "utm": {"is_utm": True, "overlaps": True, "north": True}}
    if c["source"] == "point":
        return execute_utm_point(c, ev)
    try:
        if len(json.dumps(c)) % 2:
            # history: a long-running process that has met many CRSs (all UTM zones) before this request
            for z in range(1, 61):
                CRS(f"epsg:{32600 + z}"), CRS(f"epsg:{32700 + z}")
        src = _source(c["source"])
        o = c["opts"]
        t = c["target"]
        crs_arg = t if t.startswith("utm") else f"epsg:{t}"
        kw = {"tight": o["tight"], "tol": o["tol"][0] / o["tol"][1]}
        if o["anchor"] != "default":
            kw["anchor"] = o["anchor"] if o["anchor"] in ("center", "edge") else xy_(0.25, 0.75)
        # resolved target CRS (independent of the code under test for fixed EPSG targets)
        how = (len(json.dumps(c)) + len(c["source"])) % 3 if not c["source"].startswith("gcp_") else 0
        if o["shape"] == "pair":
            kw["shape"] = tuple(c["shape"])
        elif o["shape"] == "int":
            kw["shape"] = c["shape"][0]
        if o["res"] in ("fit", "same", "auto"):
            kw["resolution"] = o["res"]
        # the fitted resolution may be post-processed by the caller (coarser, or rounded to whole metres): enclosure, squareness and alignment
        # are owed all the same
        hsh = len(json.dumps(c)) + len(c["source"]) + len(t)
        if o["res"] in ("fit", "auto") and o["shape"] == "none" and hsh % 3 == 0:
            kw["round_resolution"] = lambda r, units: r * 1.25
        elif o["res"] in ("fit", "auto") and o["shape"] == "none" and hsh % 3 == 1 and t in ("3857", "3035", "6933", "32633", "3577", "utm", "utm-n", "utm-s") \
                and not c["source"].startswith(("eu_4326_tile", "au_4326_tile", "equator", "au_4326_nonsquare", "eu_4326_rot180")):
            kw["round_resolution"] = True
        out_probe = None
        if o["res"] in ("explicit", "coarse"):
            # explicit resolution in the units of the target: decided from the resolved CRS
            out_probe = compute_output_geobox(src, crs_arg)
            kw["resolution"] = (EXPLICIT if o["res"] == "explicit" else COARSE)["degree" if out_probe.crs.geographic else "metre"]
        src_seen = src
        if how == 0:
            out = compute_output_geobox(src, crs_arg, **kw)
        elif how == 1:
            out = src.to_crs(crs_arg, **kw)
        else:
            from odc.geo.xr import xr_zeros
            xx = xr_zeros(src, dtype="uint8")
            out = xx.odc.output_geobox(crs_arg, **kw)
            src_seen = xx.odc.geobox      # the source as the accessor sees it (labels are floating point)
        if o["tight"] and "anchor" in kw:
            # tight mode pins the grid to the bounding box of the projected footprint: the grid floats, whichever anchor was named besides
            # (compared with another NAMED anchor: the default anchor may take the return-the-source shortcut, which looks at neither)
            ref = compute_output_geobox(src_seen, crs_arg, **dict(kw, anchor="edge" if o["anchor"] != "edge" else "center"))
            ev["o"]["tight_floats"] = bool(ref == (out if how != 2 else compute_output_geobox(src_seen, crs_arg, **kw)))
        dst_crs = out.crs
        same_crs = bool(dst_crs == src.crs)
        ev["c"]["same_crs"] = same_crs
        ev["c"]["same_units"] = bool(dst_crs.units == src.crs.units)
        A = out.affine
        oo = ev["o"]
        oo["h"], oo["w"] = int(out.shape[0]), int(out.shape[1])
        oo["axis_aligned"] = bool(abs(A.b) < 1e-12 and abs(A.d) < 1e-12) or (same_crs and out == src)
        if t.startswith("utm"):
            z = dst_crs.proj.utm_zone
            aou = dst_crs.proj.area_of_use
            ll = src.footprint("epsg:4326").boundingbox
            ev["utm"] = {"is_utm": z is not None,
                         # the zone (longitude band) must overlap the raster; the latitude band only when no hemisphere was forced
                         "overlaps": bool(aou is not None and aou.west < ll.right and ll.left < aou.east
                                          and (t != "utm" or (aou.south < ll.top and ll.bottom < aou.north))),
                         "north": bool(z is not None and z.endswith("N"))}
            oo["crs_ok"] = z is not None
        else:
            oo["crs_ok"] = bool(dst_crs == CRS(f"epsg:{t}"))
        oo["is_source"] = bool(out is src_seen or out == src_seen)
        if abs(A.b) < 1e-12 and abs(A.d) < 1e-12 and A.a != 0 and A.e != 0:
            oo["edge"] = [int(round(((A.c / abs(A.a)) % 1.0) * 1024)) % 1024, int(round(((A.f / abs(A.e)) % 1.0) * 1024)) % 1024]
            sr = src.resolution
            if c["source"].startswith("gcp_"):
                # measured through the pixel-to-world mapping, not read from the object
                from odc.geo.types import resxy_
                p00, p10, p01 = src.pix2wld(0.0, 0.0), src.pix2wld(1.0, 0.0), src.pix2wld(0.0, 1.0)
                sr = resxy_(math.hypot(p10[0] - p00[0], p10[1] - p00[1]), -math.hypot(p01[0] - p00[0], p01[1] - p00[1]))
            oo["res_ratio"] = [int(round(abs(A.a) / abs(sr.x) * 1e6)) if abs(A.a) / abs(sr.x) < 2000 else -1, int(round(abs(A.e) / abs(sr.y) * 1e6)) if abs(A.e) / abs(sr.y) < 2000 else -1]
            oo["square"] = bool(abs(abs(A.a) - abs(A.e)) <= 1e-9 * abs(A.a))
            if o["res"] in ("explicit", "coarse") and o["shape"] == "none":
                oo["explicit_res_ok"] = bool(abs(abs(A.a) - kw["resolution"]) <= 1e-12 and abs(abs(A.e) - kw["resolution"]) <= 1e-12)
            # environment table: source boundary pixel corners + interior sample -> output pixel coordinates (fresh pyproj)
            h, w = src.shape
            pts = [(x, y) for x in range(w + 1) for y in (0, h)] + [(x, y) for y in range(h + 1) for x in (0, w)] + \
                  [(w * i / 4, h * j / 4) for i in range(1, 4) for j in range(1, 4)]
            px = np.array([p[0] for p in pts], dtype="float64")
            py = np.array([p[1] for p in pts], dtype="float64")
            if c["source"].startswith("gcp_"):
                wx, wy = (np.asarray(v, dtype="float64") for v in src.pix2wld(px, py))
            else:
                SA = src.affine
                wx, wy = SA.a * px + SA.b * py + SA.c, SA.d * px + SA.e * py + SA.f
            if not same_crs:
                tr = pyproj.Transformer.from_crs(src.crs.proj, dst_crs.proj, always_xy=True)
                wx, wy = tr.transform(wx, wy)
            ox, oy = (wx - A.c) / A.a, (wy - A.f) / A.e
            ev["pos"] = [[int(math.floor(a * 1024)), int(math.floor(b * 1024))] for a, b in zip(ox, oy) if math.isfinite(a) and math.isfinite(b) and abs(a) < 1e6 and abs(b) < 1e6]
    except Exception as ex:  # noqa: BLE001
        ev["outcome"] = type(ex).__name__
    return ev


def execute_utm_point(c, ev):
    """CRS.utm(...) for a place given in several forms: a UTM CRS whose area of use contains the place (environment: pyproj's area of use)"""
    from odc.geo import geom as G
    from odc.geo.crs import CRS
    from odc.geo.types import xy_

    lon, lat = c["lon10"] / 10, c["lat10"] / 10
    try:
        f = c["form"]
        if f == "floats":
            crs = CRS.utm(lon, lat)
        elif f == "xy":
            crs = CRS.utm(xy_(lon, lat))
        elif f == "bbox":
            crs = CRS.utm(G.BoundingBox(lon - 0.05, lat - 0.05, lon + 0.05, lat + 0.05, "epsg:4326"))
        elif f == "geom":
            crs = CRS.utm(G.point(lon, lat, "epsg:4326").buffer(0.05))
        elif f == "geom_no_crs":
            crs = CRS.utm(G.point(lon, lat, None).buffer(0.05))
        else:
            crs = CRS.utm(G.point(lon, lat, "epsg:4326").to_crs("epsg:3857").buffer(5000))
        z = crs.proj.utm_zone
        aou = crs.proj.area_of_use
        ev["utm"] = {"is_utm": z is not None, "overlaps": bool(aou is not None and aou.west <= lon <= aou.east and aou.south <= lat <= aou.north),
                     "north": bool(z is not None and z.endswith("N"))}
        ev["c"] = dict(c, same_crs=False, same_units=False)
    except Exception as ex:  # noqa: BLE001
        ev["outcome"] = type(ex).__name__
    return ev


def _validate(ctx, events):
    return ctx.validate("outgbx/OutTrace.tla", events, "OutTrace.cfg", batch=500)


def run(ctx):
    res, cases = ctx.model_check("outgbx/OutGen.tla", "OutGen.cfg", emit=True, timeout=1200)
    cases.sort(key=lambda c: json.dumps(c, sort_keys=True))
    total = len(cases)
    pts = [c for c in cases if c["source"] == "point"]
    rest = [c for c in cases if c["source"] != "point"]
    cases = (ctx.subsample_by(rest, lambda c: (c["source"], c["opts"]["res"], c["opts"]["shape"]), 22) if ctx.quick() else rest) + pts
    events = ctx.pmap(execute, cases)
    verdicts = _validate(ctx, events)
    for ev, v in zip(events, verdicts):
        c = ev["c"]
        case = {k: c[k] for k in ("source", "target", "opts", "shape", "lon10", "lat10", "form") if k in c}
        ctx.record(case, v, op=f"{c['source']}>{c['target']}", nontrivial=True,
                   sample={"case": case, "out": ev["o"], "utm": ev["utm"], "npos": len(ev["pos"])})
    ctx.traces_validated = len(events)
    ctx.exhaustive = len(cases) == total
    ctx.extra["domain_cases_total"] = total
    ctx.rule = ("cases = 9 sources (metre- and degree-based tiles, a rotated tile, continental extents in 4326 and 3035, southern-hemisphere and equator-straddling tiles) x targets "
                "{4326, 3857, 3035, 6933, 32633, 3577, utm, utm-n, utm-s} inside valid areas x resolution mode {auto, fit, same, explicit} x anchor {default, centre, custom} x tight x tol "
                "{1/100, 1/10} x shape {none, pair, single number}, through compute_output_geobox / GeoBox.to_crs / .odc.output_geobox; skipped = the source's own CRS with non-default options "
                "(not constrained by the statement); all others non-trivial; distinct by input")
    ctx.assumptions = ["projected positions of source pixel corners come from a fresh pyproj transformer (environment table, 1/1024 output pixel); TLC decides enclosure / alignment / resolution / shape given the table",
                       "UTM area of use is taken from the pyproj database"]
    ctx.oracle_clauses = ["enclosure relative to pyproj-projected corner positions", "UTM zone area of use from pyproj"]


def replay(ctx, obj):
    ev = execute(obj["case"])
    v = _validate(ctx, [ev])[0]
    print(f"replay: {json.dumps({k: ev[k] for k in ev if k != 'pos'})[:1500]} npos={len(ev['pos'])} verdict={v}")
    ctx.record(obj["case"], v, op=obj.get("op", ""))
    ctx.traces_validated = 1
