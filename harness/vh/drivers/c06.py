"""C06 - multi-part assembly preserves the byte stream under any schedule.
M+G: spec/mpu/MC_MPU.tla (all interleavings of append / adjacent merge / finalise for a bounded
configuration space; one complete behaviour emitted per distinct terminal state);
real code: odc.geo.cog._mpu (the module's own dask ops replayed along TLC behaviours, and
mpu_write(...).compute() on hand-built bags under TLC-chosen task orders);
V: spec/mpu/MPUTrace.tla (property MPUProp -> reject, model MPUOps -> drift)."""
import json

from ..core import MachineryError


class RecWriter:
    """PartsWriter that records every call (payload byte i of the stream has value i)."""

    def __init__(self, cfg):
        self.cfg = cfg
        self.writes = []
        self.fin = []
        self.tok = 0

    def __call__(self, part, data):
        self.tok += 1
        self.writes.append({"id": int(part), "data": [int(b) for b in bytes(data)], "tok": self.tok})
        return {"PartNumber": part, "Tok": self.tok}

    def finalise(self, parts):
        self.fin = [[[int(p["PartNumber"]), int(p["Tok"])] for p in parts]]
        return "done"

    min_write_sz = property(lambda self: self.cfg["m"])
    max_write_sz = property(lambda self: 1 << 30)
    min_part = property(lambda self: self.cfg["minPart"])
    max_part = property(lambda self: self.cfg["maxPart"])

    def __dask_tokenize__(self):
        return ("RecWriter", json.dumps(self.cfg, sort_keys=True))


def layout(cfg):
    """stream bytes, per-partition chunk lists [(bytes, chunk_id)], header bytes, footer bytes"""
    total = cfg["h"] + sum(cfg["sizes"]) + cfg["f"]
    if total > 255:
        raise MachineryError("stream longer than 255 bytes: positions no longer fit a byte")
    stream = bytes(range(total))
    pos = cfg["h"]
    parts, i = [], 0
    for n in cfg["shape"]:
        chunks = []
        for _ in range(n):
            sz = cfg["sizes"][i]
            i += 1
            chunks.append((stream[pos:pos + sz], i))
            pos += sz
        parts.append(chunks)
    return stream, parts, stream[:cfg["h"]], stream[pos:]


def _proj(ch):
    return [int(ch.nextPartId), int(ch.write_credits), len(ch.data), len(ch.left_data), len(ch.parts),
            len(ch.observed), bool(ch.is_final)]


def _callbacks(cfg, hdr, ftr, seen):
    def obs_list(observed):
        return [[[int(sz), int(cid) if cid is not None else 0] for sz, cid in observed]]

    def mk_header(observed, **kw):
        seen["hobs"] = obs_list(observed)
        return hdr

    def mk_footer(observed, **kw):
        seen["fobs"] = obs_list(observed)
        return ftr

    return (mk_header if cfg["h"] > 0 else None), (mk_footer if cfg["f"] > 0 else None)


def replay_behaviour(case):
    """Replay one TLC behaviour on real MPUChunk objects through the module's own dask ops."""
    from odc.geo.cog import _mpu as M

    cfg, hist = case["cfg"], case["hist"]
    _, parts, hdr, ftr = layout(cfg)
    w = RecWriter(cfg)
    seen = {"hobs": [], "fobs": []}
    mk_header, mk_footer = _callbacks(cfg, hdr, ftr, seen)
    steps, outcome = [], "ok"
    try:
        # as MPUChunk.from_dask_bag / mpu_write do for a single sub-stream
        mpus = list(M.MPUChunk.gen_bunch(w.min_part + 1, len(parts), writes_per_chunk=cfg["wpc"],
                                         mark_final=mk_footer is None, lhs_keep=w.min_write_sz))
        roots = []
        for act, arg in hist:
            if act == "A":
                (r,) = M._mpu_append_chunks_op([mpus[arg - 1]], parts[arg - 1], write=w, spill_sz=cfg["spill"])
                roots.append(r)
            elif act == "M":
                roots[arg - 1:arg + 1] = [M._merge_and_spill_op(roots[arg - 1], roots[arg], write=w, spill_sz=cfg["spill"])]
            elif act == "F":
                M._finalizer_dask_op(roots[0], write=w, mk_header=mk_header, mk_footer=mk_footer)
                break
            steps.append([_proj(r) for r in roots])
    except Exception as ex:  # noqa: BLE001
        outcome = type(ex).__name__
    return {"kind": "replay", "cfg": cfg, "hist": hist, "writes": w.writes, "fin": w.fin, "hobs": seen["hobs"],
            "fobs": seen["fobs"], "outcome": outcome, "steps": steps}


def build_dask(cfg, split):
    """mpu_write(...) on hand-built bags whose partitions are exactly cfg's partitions;
    split > 0 puts partitions[:split] and partitions[split:] into two sub-stream bags."""
    import dask.bag as db
    from dask.highlevelgraph import HighLevelGraph
    from odc.geo.cog import _mpu as M

    _, parts, hdr, ftr = layout(cfg)
    groups = [parts] if split == 0 else [parts[:split], parts[split:]]
    bags = []
    for gi, grp in enumerate(groups):
        name = f"chunks{gi}"
        dsk = {(name, i): list(chunks) for i, chunks in enumerate(grp)}
        bags.append(db.Bag(HighLevelGraph.from_collections(name, dsk, dependencies=[]), name, len(grp)))
    w = RecWriter(cfg)
    seen = {"hobs": [], "fobs": []}
    mk_header, mk_footer = _callbacks(cfg, hdr, ftr, seen)
    d = M.mpu_write(bags if split else bags[0], w, mk_header=mk_header, mk_footer=mk_footer,
                    writes_per_chunk=cfg["wpc"], spill_sz=cfg["spill"])
    return d, w, seen


def run_dask(cfg, split, order):
    from ..sched import RealGraph, TaskFailed

    outcome = "ok"
    try:
        d, w, seen = build_dask(cfg, split)
    except MachineryError:
        raise
    except Exception as ex:  # noqa: BLE001 - mpu_write refused to build the graph: an outcome of the write, not of the harness
        return {"kind": "dask", "cfg": cfg, "split": split, "order": order or [], "writes": [], "fin": [], "hobs": [], "fobs": [],
                "outcome": "graph_construction_" + type(ex).__name__}
    g = RealGraph(d)
    try:
        if order is None:
            d.compute(scheduler="threads", num_workers=4)
        else:
            g.execute(order)
    except TaskFailed as ex:
        outcome = type(ex.orig).__name__
    except MachineryError:
        raise
    except Exception as ex:  # noqa: BLE001  (raised by dask's own scheduler on behalf of a task)
        if order is not None:
            raise
        outcome = type(ex).__name__
    if outcome == "ok" and order is None:
        # the same stream assembled WITHOUT a writer (nothing may be flushed): one in-memory chunk holding header + chunks + footer
        outcome = _no_writer(cfg, split)
    return {"kind": "dask", "cfg": cfg, "split": split, "order": order or [], "writes": w.writes, "fin": w.fin,
            "hobs": seen["hobs"], "fobs": seen["fobs"], "outcome": outcome}


def _no_writer(cfg, split):
    import dask.bag as db
    from dask.highlevelgraph import HighLevelGraph
    from odc.geo.cog import _mpu as M

    stream, parts, hdr, ftr = layout(cfg)
    groups = [parts] if split == 0 else [parts[:split], parts[split:]]
    bags = []
    for gi, grp in enumerate(groups):
        name = f"nw{gi}"
        dsk = {(name, i): list(chunks) for i, chunks in enumerate(grp)}
        bags.append(db.Bag(HighLevelGraph.from_collections(name, dsk, dependencies=[]), name, len(grp)))
    seen = {"hobs": [], "fobs": []}
    mk_header, mk_footer = _callbacks(cfg, hdr, ftr, seen)
    try:
        root = M.mpu_write(bags if split else bags[0], None, mk_header=mk_header, mk_footer=mk_footer, writes_per_chunk=cfg["wpc"], spill_sz=0).compute(scheduler="synchronous")
    except Exception as ex:  # noqa: BLE001
        return "without_a_writer_" + type(ex).__name__
    if bytes(root.left_data) + bytes(root.data) != bytes(stream) or root.parts or root.started_write:
        return "without_a_writer_the_assembled_bytes_are_not_the_stream"
    return "ok"


def dask_phase(ctx, cfgs, per_graph):
    """Real mpu_write graphs under TLC-chosen task orders (+ one thread-pool run each)."""
    from ..sched import RealGraph, tlc_orders

    jobs = [(cfg, split) for cfg in cfgs for split in range(len(cfg["shape"]))]
    shapes, by_shape = {}, []
    for shp in ctx.pmap(_graph_shape, jobs):
        by_shape.append(None if shp == (0, ()) else shapes.setdefault(shp, len(shapes)))
    graphs = [None] * len(shapes)
    for shp, i in shapes.items():
        graphs[i] = {"n": shp[0], "deps": [list(x) for x in shp[1]]}
    orders, st = tlc_orders(graphs, ctx.scratch, per_graph=per_graph, seed=ctx.seed, exhaustive_upto=7)
    ctx.states += st["distinct"]
    ctx.transitions += st["generated"]
    ctx.m_runs.append({"model": "TaskGraph (schedules of the real mpu_write graphs)", "graphs": len(graphs),
                       "distinct_states": st["distinct"], "states_generated": st["generated"],
                       "schedules": sum(len(v) for v in orders.values())})
    runs = []
    for (cfg, split), gi in zip(jobs, by_shape):
        os_ = orders[gi] if gi is not None else []
        if len(os_) > per_graph:
            os_ = [os_[i] for i in sorted(ctx.rng.sample(range(len(os_)), per_graph))]
        for o in os_:
            runs.append((cfg, split, o))
        runs.append((cfg, split, None))
    return ctx.pmap(_run_dask_job, runs)


def _graph_shape(job):
    from ..sched import RealGraph

    try:
        d, _, _ = build_dask(*job)
    except Exception:  # noqa: BLE001 - reported by run_dask as the outcome of this configuration
        return (0, ())
    return RealGraph(d).shape()


def _run_dask_job(job):
    return run_dask(*job)


def _validate(ctx, events):
    return ctx.validate("mpu/MPUTrace.tla", events, "MPUTrace.cfg", batch=2500)


def _tags(cfg):
    t = set()
    if cfg["spill"] and cfg["spill"] < cfg["m"]:
        t.add("spill_lt_min")
    if cfg["minPart"] != 1:
        t.add("min_part_ne_1")
    if cfg["shape"][-1] > 1 and cfg["f"] == 0:
        t.add("final_partition_multi_chunk")
    return t


def run(ctx):
    cfgs = ["MC_MPU_quick.cfg", "MC_MPU_three.cfg", "MC_MPU_tiny.cfg"] if ctx.quick() else ["MC_MPU_quick.cfg", "MC_MPU_three.cfg", "MC_MPU_tiny.cfg", "MC_MPU_medium.cfg", "MC_MPU_four.cfg", "MC_MPU_five.cfg"]
    cases = []
    for i, cfg in enumerate(cfgs):
        res, cs = ctx.model_check("mpu/MC_MPU.tla", cfg, emit=True, timeout=1800, coverage=(i == 0))
        cases.extend(cs)
    # 6 - 8 partitions: simulated behaviours (every invariant checked along the way), terminal histories emitted like the others
    res, cs = ctx.model_check("mpu/MC_MPU.tla", "MC_MPU_wide.cfg", emit=True, timeout=1800, simulate=f"num={400 if ctx.quick() else 6000}", depth=60, seed=ctx.seed,
                              workers=1, label="MC_MPU/wide simulation")
    wide = []
    seenw = set()
    for c in cs:
        k = json.dumps(c, sort_keys=True)
        if k not in seenw:
            seenw.add(k)
            wide.append(c)
    wide.sort(key=lambda c: json.dumps(c, sort_keys=True))
    ctx.extra["wide_behaviours"] = len(wide)
    for v, inv in (("final", "NoFail"), ("spill", "MinSize"), ("leftid", "IdsUnique"), ("empty", "NoFail")):
        ctx.model_check("mpu/MC_MPU.tla", f"MC_MPU_asfound_{v}.cfg", expect_violation=inv, timeout=600,
                        label=f"MC_MPU/asfound_{v}")
    cases.sort(key=lambda c: json.dumps(c, sort_keys=True))
    total = len(cases)
    cases = ctx.subsample(cases, 12000 if ctx.quick() else 150000) + ctx.subsample(wide, 1500 if ctx.quick() else 30000)
    events = ctx.pmap(replay_behaviour, cases)
    verdicts = _validate(ctx, events)
    for ev, v in zip(events, verdicts):
        case = {"cfg": ev["cfg"], "hist": ev["hist"]}
        ctx.record(case, v, op="replay", tags=_tags(ev["cfg"]), conformance=True,
                   nontrivial=len(ev["writes"]) > 1,
                   sample={"cfg": ev["cfg"], "hist": ev["hist"], "parts": [[w["id"], len(w["data"])] for w in ev["writes"]]})
    # end-to-end: the real mpu_write graph (part-id allocation per partition / sub-stream, fold, collate)
    seen, dcfgs = set(), []
    for c in cases:
        k = json.dumps(c["cfg"], sort_keys=True)
        if k not in seen:
            seen.add(k)
            dcfgs.append(c["cfg"])
    wcfgs = [c for c in dcfgs if len(c["shape"]) >= 6]
    dcfgs = ctx.subsample([c for c in dcfgs if len(c["shape"]) < 6], 3000 if ctx.quick() else 30000) + ctx.subsample(wcfgs, 200 if ctx.quick() else 3000)
    devents = dask_phase(ctx, dcfgs, 2 if ctx.quick() else 4)
    dverdicts = _validate(ctx, devents)
    for ev, v in zip(devents, dverdicts):
        case = {"cfg": ev["cfg"], "split": ev["split"], "order": ev["order"]}
        ctx.record(case, v, op="dask" if ev["order"] else "dask-threads", tags=_tags(ev["cfg"]),
                   nontrivial=len(ev["writes"]) > 1,
                   sample={"cfg": ev["cfg"], "split": ev["split"], "order": ev["order"], "parts": [[w["id"], len(w["data"])] for w in ev["writes"]]})
    ctx.traces_validated = len(events) + len(devents)
    ctx.extra["behaviours_total"] = total
    ctx.exhaustive = False
    ctx.rule = ("behaviours = one complete append/merge/finalise history per distinct terminal state of the bounded MPU model "
                "(TLC, VIEW hides the history), replayed on real MPUChunk objects; non-trivial = more than one part written; distinct by (cfg, history)")


def replay(ctx, obj):
    c = obj["case"]
    ev = replay_behaviour(c) if "hist" in c else run_dask(c["cfg"], c["split"], c["order"] or None)
    v = _validate(ctx, [ev])[0]
    print(f"replay: outcome={ev['outcome']} parts={[(w['id'], len(w['data'])) for w in ev['writes']]} fin={ev['fin']} verdict={v}")
    ctx.record(obj["case"], v, op="replay", tags=_tags(ev["cfg"]))
    ctx.traces_validated = 1
