"""C09 - xarray geo-registration round-trips and survives array operations.
M+G: spec/xr/MC_XrGeo.tla (all histories of positional slicing / arithmetic / astype / pickle to depth 2-3 from 4 shapes incl. single row / column, replayed for 7 base grids
incl. rotated, sheared and GCP-affine, DataArray / Dataset, numpy / dask, yx / tyx / yxb);  real code: wrap_xr / xr_coords / .odc accessor / xr_reproject;
V: spec/xr/XrTrace.tla."""
import json
import pickle

import numpy as np

CRS_A = "epsg:3857"


class OffLattice(Exception):
    pass


def _lat2(v, tol):
    x = float(v) * 2
    r = round(x)
    if not np.isfinite(x) or abs(x - r) > tol:
        raise OffLattice(v)
    return int(r)


SLICES = {"head": lambda n: slice(0, n - 1), "tail": lambda n: slice(1, None), "mid": lambda n: slice(1, -1), "stride2": lambda n: slice(None, None, 2),
          "rev": lambda n: slice(None, None, -1), "revstride": lambda n: slice(None, None, -2), "one": lambda n: slice(n // 2, n // 2 + 1),
          "last": lambda n: slice(-1, None), "neg3": lambda n: slice(-3, -1)}


def _wrap(c):
    import xarray as xr
    from affine import Affine

    from odc.geo.gcp import GCPGeoBox, GCPMapping
    from odc.geo.geobox import GeoBox
    from odc.geo.xr import wrap_xr

    h, w = c["shape"]
    A = Affine(*[float(v) for v in c["base"]["A"]])
    crs = "epsg:4326" if c["base"]["name"] == "nonsquare_geo" else CRS_A
    if c["base"]["carrier"] == "gcp":
        # control points live in a base pixel plane; the box is the view V of it (identity, cropped, zoomed): same registration A = base o V
        V = {"gcp_view_cropped": Affine.translation(3, 2), "gcp_view_zoomed": Affine.translation(1, 2) * Affine.scale(0.5, 2)}.get(c["base"]["name"], Affine.identity())
        base = A * ~V
        pix = np.array([[0, 0], [8, 0], [8, 6], [0, 6], [3, 2], [5, 5], [2, 4]], dtype="float64")
        if c["base"]["name"] == "gcp_subpixel":
            pix = pix + np.array([0.5, 0.25])
        wld = np.array([base * tuple(p) for p in pix])
        gbox = GCPGeoBox((h, w), GCPMapping(pix, wld, crs), V)
    else:
        gbox = GeoBox((h, w), A, crs)
    dims = c["cont"]["dims"]
    data = np.arange(h * w, dtype="int16").reshape(h, w)
    kw = {}
    if dims == "tyx":
        data = np.stack([data, data + 100])
        kw["time"] = ["2020-01-01", "2020-01-02"]
    elif dims == "t1yx":
        data = data[None]                                                  # a single time step: a non-spatial dimension of length 1
        kw["time"] = ["2020-01-01"]
    elif dims == "yxb":
        data = np.stack([data, data + 100], axis=-1)
    xx = wrap_xr(data, gbox, **kw)
    nm = c["base"]["name"]
    if nm.endswith("_cf"):
        sr = xx.coords["spatial_ref"]
        sr.attrs["crs_wkt"] = sr.attrs.pop("spatial_ref")                 # CF spelling of the same CRS coordinate
    elif nm.endswith("_attrs") and c["cont"]["container"] == "DataArray" and c["sx"]["n"] > 1 and c["sy"]["n"] > 1:
        # (a Dataset is not recovered from its variables' attributes, and a single row / column needs the CRS coordinate's GeoTransform)
        enc = dict(xx.encoding)
        xx = xx.drop_vars("spatial_ref")
        xx.encoding = {k: v for k, v in enc.items() if k != "grid_mapping"}
        xx.attrs["crs"] = crs                                             # no CRS coordinate: the CRS sits in the attributes
    elif nm.endswith("_two_crs_coords"):
        xx = xx.assign_coords(crs2=xx.coords["spatial_ref"].copy())
        xx.encoding.pop("grid_mapping", None)                             # both coordinates are candidates (same CRS)
    if c["cont"]["backend"] == "dask":
        xx = xx.chunk({d: 2 for d in xx.dims})
    if c["cont"]["container"] == "Dataset":
        xx = xr.Dataset({"a": xx, "b": xx + 1})
    return xx, gbox, crs


def run_hist(c):
    import xarray as xr

    if c["base"]["name"].endswith("_attrs"):
        # a CRS kept in the attributes only survives arithmetic when xarray is told to keep attributes
        with xr.set_options(keep_attrs=True):
            return _run_hist(c)
    return _run_hist(c)


def _run_hist(c):
    import xarray as xr

    ev = {"kind": "hist", "c": c, "outcome": "ok", "has_geobox": False, "crs_ok": True, "shape": [0, 0], "roundtrip_eq": True, "centres": [], "corners": [], "labels": []}
    try:
        xx, gbox, crs = _wrap(c)
        for op, arg in c["hist"]:
            sd = xx.odc.spatial_dims if isinstance(xx, xr.DataArray) else xx["a"].odc.spatial_dims
            ydim, xdim = sd
            if op == "isel_y":
                xx = xx.isel({ydim: SLICES[arg](xx.sizes[ydim])})
            elif op == "isel_x":
                xx = xx.isel({xdim: SLICES[arg](xx.sizes[xdim])})
            elif op == "arith":
                xx = xx * 2 + 1
            elif op == "astype":
                xx = xx.astype("float32")
            elif op == "pickle":
                xx = pickle.loads(pickle.dumps(xx))
            elif op == "wrap":
                pass
        got = xx.odc.geobox
        ev["has_geobox"] = got is not None
        if got is None:
            return ev
        target = xx if isinstance(xx, xr.DataArray) else xx["b"]
        if not isinstance(xx, xr.DataArray) and target.odc.geobox != got:
            ev["outcome"] = "dataset_and_variable_geobox_differ"
        ev["crs_ok"] = bool(got.crs == crs and xx.odc.crs == crs)
        ev["shape"] = [int(v) for v in got.shape]
        ev["roundtrip_eq"] = bool(got == gbox) if all(o not in ("isel_y", "isel_x") for o, _ in c["hist"]) else True
        ny, nx = got.shape
        tol = 2e-3 if c["base"]["carrier"] == "gcp" else 1e-5
        for kx, ky in {(0, 0), (nx - 1, 0), (0, ny - 1), (nx - 1, ny - 1)}:
            wx, wy = got.pix2wld(kx + 0.5, ky + 0.5)
            ev["centres"].append({"k": [kx, ky], "w": [_lat2(wx, tol), _lat2(wy, tol)]})
            pts = [got.pix2wld(float(kx + dx), float(ky + dy)) for dx, dy in ((0, 0), (1, 0), (1, 1), (0, 1))]
            ev["corners"].append({"k": [kx, ky], "pts": [[_lat2(a, tol), _lat2(b, tol)] for a, b in pts]})
        if c["base"]["carrier"] == "labels":
            sd = target.odc.spatial_dims
            yv, xv = target[sd[0]].values, target[sd[1]].values
            ev["labels"] = [_lat2(xv[0], tol), _lat2(xv[-1], tol), _lat2(yv[0], tol), _lat2(yv[-1], tol)]
    except OffLattice:
        ev["outcome"] = "recovered_location_off_the_half_pixel_lattice"
    except Exception as ex:  # noqa: BLE001
        ev["outcome"] = type(ex).__name__
    return ev


REPR_SRC = {"4326": ((14.0, 50.0, 14.8, 50.6), "epsg:4326"), "3857": ((1558472, 6446275, 1647527, 6550000), "epsg:3857"), "32633": ((430000, 5540000, 490000, 5600000), "epsg:32633")}


def _approx_eq(a, b):
    """GeoBox equality up to floating point: same shape and CRS, affine terms within 1e-9 of a pixel"""
    if a is None or b is None or a.shape != b.shape or a.crs != b.crs:
        return False
    px = max(abs(v) for v in b.affine[:6][:2] + b.affine[:6][3:5]) or 1.0
    return all(abs(x - y) <= 1e-9 * max(px, abs(y) * 1e-3) for x, y in zip(a.affine[:6], b.affine[:6]))


def run_repr(c):
    import xarray as xr

    from odc.geo.geobox import GeoBox
    from odc.geo.xr import xr_zeros

    ev = {"kind": "repr", "c": c, "outcome": "ok", "geobox_eq": True, "crs_eq": True, "no_stale": True, "vars_ok": True}
    try:
        bbox, scrs = REPR_SRC[c["src"]]
        src = GeoBox.from_bbox(bbox, scrs, shape=(12, 16))
        chunks = (5, 7) if c["backend"] == "dask" else None
        cname = c.get("coord", "spatial_ref")
        xx = xr_zeros(src, dtype="int16", chunks=chunks, crs_coord_name=cname) + 3
        xx.attrs["crs"] = scrs          # stale attributes that must not survive
        xx.attrs["grid_mapping"] = cname
        if c["rot"]:
            src = src.rotate(10)
            from odc.geo.xr import wrap_xr
            xx = wrap_xr(np.full(src.shape, 3, dtype="int16"), src, crs_coord_name=cname)
            if chunks:
                xx = xx.chunk({d: 5 for d in xx.dims})
            xx.attrs["crs"] = scrs
        obj = xx if c["container"] == "DataArray" else xr.Dataset({"a": xx, "b": xx * 2, "plain": xr.DataArray([1, 2, 3])})
        if not isinstance(obj, xr.DataArray):
            # the undecoded-CF / datacube layout: the Dataset itself names its CRS in its attributes
            obj.attrs.update({"crs": scrs, "grid_mapping": cname, "title": "t"})
        dcrs = f"epsg:{c['dst']}"
        if c["how"] == "geobox":
            dst = GeoBox.from_bbox(src.footprint(dcrs).boundingbox, dcrs, shape=(9, 11))
            out = obj.odc.reproject(dst)
        else:
            # a CRS, possibly with grid options: they must reach the output-grid computation (same answer as .odc.output_geobox with them)
            from odc.geo.crs import CRS as _C
            opts = {}
            if c["how"] == "crs+resolution":
                opts = {"resolution": 0.03 if _C(dcrs).geographic else 3000.0}      # a few dozen pixels across
            elif c["how"] == "crs+tight_anchor":
                opts = {"tight": True, "resolution": "fit"} if c["dst"] in ("4326", "3035") else {"anchor": "center", "tol": 0.1}
            out = obj.odc.reproject(dcrs, **opts)
            ref = obj["a"] if not isinstance(obj, xr.DataArray) else obj
            dst = ref.odc.output_geobox(dcrs, **opts)
        # what users do next: arithmetic / astype drop xarray's encoding, recovery then relies on the coordinates alone
        if c.get("post") == "arith":
            out = out * 1 + 0
        elif c.get("post") == "astype":
            out = out.astype("float32")
        got = out.odc.geobox
        ev["geobox_eq"] = _approx_eq(got, dst)
        ev["crs_eq"] = bool(out.odc.crs is not None and out.odc.crs == dcrs and (c["src"] == c["dst"] or out.odc.crs != scrs))
        das = [out] if isinstance(out, xr.DataArray) else [out["a"], out["b"]]
        stale = False
        for da in das:
            if "crs" in da.attrs or "grid_mapping" in da.attrs:
                stale = True
            # every CRS-carrying coordinate left on the result (whatever its name) must name the destination CRS
            from odc.geo.crs import CRS
            srs = [cc for cc in da.coords.values() if cc.ndim == 0 and ("spatial_ref" in cc.attrs or "crs_wkt" in cc.attrs)]
            if not srs:
                stale = True
            for sr in srs:
                wkt = sr.attrs.get("spatial_ref") or sr.attrs.get("crs_wkt")
                if wkt is None or CRS(wkt) != dcrs:
                    stale = True
            if not _approx_eq(da.odc.geobox, dst):
                ev["vars_ok"] = False
        if not isinstance(out, xr.DataArray):
            if "crs" in out.attrs or "grid_mapping" in out.attrs:
                stale = True
            if not bool((out["plain"] == obj["plain"]).all()):
                ev["vars_ok"] = False
        ev["no_stale"] = not stale
    except Exception as ex:  # noqa: BLE001
        ev["outcome"] = type(ex).__name__
    return ev


def _validate(ctx, events):
    return ctx.validate("xr/XrTrace.tla", events, "XrTrace.cfg", batch=2500)


def _tags(c):
    t = set()
    if c["base"]["carrier"] != "labels":
        t.add("pixel_space_labels")
    if c["sx"]["n"] == 1 or c["sy"]["n"] == 1:
        t.add("single_row_or_column")
    t.add("carrier:" + c["base"]["carrier"])
    if c["base"]["name"].startswith("gcp_view"):
        t.add("gcp_box_is_a_view_with_non_identity_pixel_affine")
    return t


def run(ctx):
    q = ctx.quick()
    res, cases = ctx.model_check("xr/MC_XrGeo.tla", "MC_XrGeo_quick.cfg" if q else "MC_XrGeo_thorough.cfg", emit=True, timeout=3000)
    cases.sort(key=lambda c: json.dumps(c, sort_keys=True))
    total = len(cases)
    cases = ctx.subsample(cases, 6000 if q else 150000)
    events = ctx.pmap(run_hist, cases)
    _, rcases = ctx.model_check("xr/ReprGen.tla", "ReprGen.cfg", emit=True, timeout=600)
    rcases.sort(key=lambda c: json.dumps(c, sort_keys=True))
    ctx.extra["reprojection_cases_total"] = len(rcases)
    rcases = ctx.subsample(rcases, 500 if q else 10 ** 6)
    revents = ctx.pmap(run_repr, rcases)
    verdicts = _validate(ctx, events + revents)
    for ev, v in zip(events + revents, verdicts):
        c = ev["c"]
        if ev["kind"] == "hist":
            ctx.record(c, v, op=f"hist:{c['base']['carrier']}:{c['cont']['container']}/{c['cont']['backend']}/{c['cont']['dims']}", tags=_tags(c),
                       nontrivial=True, sample={"hist": c["hist"], "base": c["base"]["name"], "cont": c["cont"], "sx": c["sx"], "sy": c["sy"], "centres": ev["centres"][:1]})
        else:
            ctx.record(c, v, op=f"reproject:{c['container']}/{c['backend']}", nontrivial=True, sample=ev)
    ctx.traces_validated = len(events) + len(revents)
    ctx.extra["histories_total"] = total
    ctx.rule = ("history cases = every history of TLC's bounded XrGeo model (positional slices head / tail / middle / strided / reversed / reversed-strided / to length 1 / negative "
                "offsets on either axis, arithmetic, astype, pickle; depth 2 quick, 3 thorough; shapes 1x4, 3x1, 4x5, 2x2) replayed for 7 base grids (axis labels, pixel labels + encoded "
                "transform, GCPs) in 5 container / backend / dimension-order variants; reprojection cases = 3 source CRSs x 4 target CRSs x DataArray / Dataset x numpy / dask x geobox / crs "
                "target x north-up / rotated source; all non-trivial; distinct by input")
    ctx.assumptions = ["recovered locations are accepted as lattice values within 1e-5 (GCP boxes: 2e-3, the fit error of exactly affine control points)",
                       "reprojection clauses are decided from the real objects by ==, CRS comparison and attribute inspection (booleans in the trace)"]


def replay(ctx, obj):
    c = obj["case"]
    ev = run_hist(c) if "hist" in c else run_repr(c)
    v = _validate(ctx, [ev])[0]
    print(f"replay: {json.dumps(ev)[:1500]} verdict={v}")
    ctx.record(c, v, op=obj.get("op", ""), tags=_tags(c) if "hist" in c else ())
    ctx.traces_validated = 1
