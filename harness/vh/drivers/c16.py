"""C16 - GeoBox and bounding-box set operations respect the common pixel grid.
M+G: spec/geobox/GridGen.tla (laws of the rectangle model over all pairs / triples of a window; cases);
real code: GeoBox | & overlap_roi enclosing snap_to, geobox_union/intersection_conservative, BoundingBox | &;
V: spec/geobox/GridTrace.tla."""
import json

from ..core import idx, outcome_of

BASES = {"northup": (8, 0, 96, 0, -8, 160), "mirrorx": (-8, 0, 96, 0, -8, 160), "flipy": (8, 0, 96, 0, 8, 160),
         "rot90": (0, 8, 96, 8, 0, 160), "pythag": (6, -8, 100, 8, 6, 200), "nonsquare": (8, 0, 96, 0, -16, 160)}
# exact CRS family: transverse Mercator CRSs that differ only in false easting / northing
CRS_A = "+proj=tmerc +lat_0=0 +lon_0=15 +k=1 +x_0=500000 +y_0=0 +ellps=WGS84 +units=m +no_defs"
CRS_B = "+proj=tmerc +lat_0=0 +lon_0=15 +k=1 +x_0=501024 +y_0=2048 +ellps=WGS84 +units=m +no_defs"


class OffLattice(Exception):
    pass


def _lat(v, scale=1):
    r = round(v * scale)
    if abs(v * scale - r) > 1e-6:
        raise OffLattice(v)
    return int(r)


def _gbox(base, r, crs=CRS_A, sub=(0, 0), scale=1, lin=(2, 0, 0, 2)):
    from affine import Affine

    from odc.geo.geobox import GeoBox

    A = Affine(*BASES[base])
    A = A * Affine.translation(r[0] + sub[0] / 16, r[1] + sub[1] / 16) * Affine.scale(scale)
    A = A * Affine(lin[0] / 2, lin[1] / 2, 0, lin[2] / 2, lin[3] / 2, 0)
    return GeoBox((r[3], r[2]), A, crs)


def _enc(g, s16=False):
    a = g.affine
    k = 16 if s16 else 1
    return [idx(g.shape[0]), idx(g.shape[1]), _lat(a.a), _lat(a.b), _lat(a.c, k), _lat(a.d), _lat(a.e), _lat(a.f, k)]


def _res(fn, enc):
    try:
        return {"oc": "ok", "v": enc(fn())}
    except OffLattice:
        return {"oc": "off_lattice_result", "v": []}
    except Exception as ex:  # noqa: BLE001
        return {"oc": type(ex).__name__, "v": []}


def _roi(roi):
    return [idx(roi[0].start), idx(roi[0].stop), idx(roi[1].start), idx(roi[1].stop)]


def execute(c):
    from odc.geo import geom as G
    from odc.geo.geobox import geobox_intersection_conservative as gi
    from odc.geo.geobox import geobox_union_conservative as gu

    op = c["op"]
    ev = {"c": c, "A": list(BASES[c["base"]]) if "base" in c else []}
    if op == "pair":
        a, b = _gbox(c["base"], c["a"]), _gbox(c["base"], c["b"])
        ev["o"] = {"a_or_b": _res(lambda: a | b, _enc), "b_or_a": _res(lambda: b | a, _enc), "union_ab": _res(lambda: gu([a, b]), _enc),
                   "a_and_b": _res(lambda: a & b, _enc), "b_and_a": _res(lambda: b & a, _enc),
                   "roi_ab": _res(lambda: a.overlap_roi(b), _roi), "roi_ba": _res(lambda: b.overlap_roi(a), _roi)}
    elif op == "triple":
        a, b, cc = (_gbox(c["base"], c[k]) for k in "abc")
        ev["o"] = {"u_left": _res(lambda: (a | b) | cc, _enc), "u_right": _res(lambda: a | (b | cc), _enc), "u_list": _res(lambda: gu([a, b, cc]), _enc),
                   "i_left": _res(lambda: (a & b) & cc, _enc), "i_right": _res(lambda: a & (b & cc), _enc), "i_list": _res(lambda: gi([a, b, cc]), _enc)}
    elif op == "reject":
        a = _gbox(c["base"], c["a"])
        why = c["why"]
        if why == "subpixel":
            b = _gbox(c["base"], c["b"], sub=c["sub"])
        elif why == "subpixel_far":
            b = _gbox(c["base"], c["b"], sub=(c["sub"][0] / 64, c["sub"][1] / 64))      # 1/1024 pixel units
        elif why == "pixelsize":
            b = _gbox(c["base"], c["b"], scale=2)
        elif why == "orientation":
            other = {"northup": "flipy", "flipy": "northup", "mirrorx": "northup", "rot90": "northup", "pythag": "northup", "nonsquare": "rot90"}[c["base"]]
            b = _gbox(other, c["b"])
        elif why == "linear":
            b = _gbox(c["base"], c["b"], sub=c["sub"], lin=c["m"])
        elif why == "crs":
            b = _gbox(c["base"], c["b"], crs=CRS_B)
        else:
            b = _gbox(c["base"], c["b"], crs=None)
        # ... also as a LATER member of a list whose first members are compatible with each other: disjoint ones (their running intersection is
        # already empty when the incompatible operand comes up), nested ones
        ra = c["a"]
        a_far = _gbox(c["base"], [ra[0] + 5 * ra[2] + 7, ra[1] - 3 * ra[3] - 4, ra[2], ra[3]])
        ev["o"] = {"a_or_b": _res(lambda: a | b, _enc), "b_and_a": _res(lambda: b & a, _enc), "roi": _res(lambda: a.overlap_roi(b), _roi),
                   "ulist": _res(lambda: gu([a, b]), _enc), "ilist": _res(lambda: gi([b, a]), _enc),
                   "ilist3_after_disjoint": _res(lambda: gi([a, a_far, b]), _enc), "ulist3_after_disjoint": _res(lambda: gu([a, a_far, b]), _enc),
                   "ilist3_after_same": _res(lambda: gi([a, a, b]), _enc)}
        # nothing to combine is an error, one operand combines to itself
        for fn in (gu, gi):
            try:
                fn([])
                ev["o"]["a_or_b"] = {"oc": "ok", "v": []}      # an empty list was accepted: shows up as "not rejected"
            except ValueError:
                pass
    elif op == "snap":
        a = _gbox(c["base"], c["a"])
        b = _gbox(c["base"], c["b"], sub=c["sub"])
        ev["o"] = {"res": _res(lambda: b.snap_to(a), lambda g: _enc(g, True))}
    elif op == "enclosing":
        from affine import Affine

        a = _gbox(c["base"], c["a"])
        A = Affine(*BASES[c["base"]])
        x0, y0, x1, y1 = (v / 4 for v in c["reg"])
        pts = [A * p for p in ((x0, y0), (x1, y0), (x1, y1), (x0, y1))]
        dx, dy = (1024, 2048) if c["crs"] == "other" else (0, 0)
        pts = [(x + dx, y + dy) for x, y in pts]
        crs = CRS_B if c["crs"] == "other" else CRS_A
        axis_aligned = c["base"] not in ("pythag",)
        if c["poly"] == "bbox" and axis_aligned:
            xs, ys = [p[0] for p in pts], [p[1] for p in pts]
            region = G.BoundingBox(min(xs), min(ys), max(xs), max(ys), crs)
        else:
            region = G.polygon(pts + [pts[0]], crs)
        ev["o"] = {"res": _res(lambda: a.enclosing(region), _enc)}
    elif op == "bbox":
        p, q, r = (G.BoundingBox(*c[k]) for k in "pqr")
        enc = lambda b: [_lat(v) for v in b.bbox]  # noqa: E731
        ev["o"] = {"p_or_q": _res(lambda: p | q, enc), "q_or_p": _res(lambda: q | p, enc), "p_and_q": _res(lambda: p & q, enc), "q_and_p": _res(lambda: q & p, enc),
                   "pq_r_or": _res(lambda: (p | q) | r, enc), "p_qr_or": _res(lambda: p | (q | r), enc),
                   "pq_r_and": _res(lambda: (p & q) & r, enc), "p_qr_and": _res(lambda: p & (q & r), enc),
                   "p_or_p": _res(lambda: p | p, enc), "p_and_p": _res(lambda: p & p, enc),
                   "absorb1": _res(lambda: p | (p & q), enc), "absorb2": _res(lambda: p & (p | q), enc)}
    return ev


def _validate(ctx, events):
    return ctx.validate("geobox/GridTrace.tla", events, "GridTrace.cfg", batch=2500)


def run(ctx):
    q = ctx.quick()
    res, cases = ctx.model_check("geobox/GridGen.tla", "MC_Grid_quick.cfg" if q else "MC_Grid_thorough.cfg", emit=True, timeout=2400)
    cases.sort(key=lambda c: json.dumps(c, sort_keys=True))
    total = len(cases)
    if q:
        by = {}
        for c in cases:
            by.setdefault(c["op"], []).append(c)
        caps = {"pair": 6000, "triple": 2500, "bbox": 1500, "enclosing": 2000, "snap": 840, "reject": 600, "reject-lin": 1200}
        # relative maps with a diagonal linear part (mirrors, 180 degrees, anisotropic scales) are all kept
        keep = [c for c in by.get("reject", []) if c["why"] == "linear" and c["m"][1] == 0 and c["m"][2] == 0]
        by["reject-lin"] = [c for c in by.get("reject", []) if c["why"] == "linear" and not (c["m"][1] == 0 and c["m"][2] == 0)]
        by["reject"] = [c for c in by.get("reject", []) if c["why"] != "linear"]
        cases = keep + [c for op, cs in sorted(by.items()) for c in ctx.subsample(cs, caps.get(op, 1000))]
    events = ctx.pmap(execute, cases)
    verdicts = _validate(ctx, events)
    for ev, v in zip(events, verdicts):
        c = ev["c"]
        ctx.record(c, v, op=f"{c['op']}:{c.get('base', '')}", conformance=c["op"] == "bbox",
                   nontrivial=True, sample={"case": c, "A": ev["A"], "observed": ev["o"]})
    ctx.traces_validated = len(events)
    ctx.exhaustive = len(cases) == total
    ctx.extra["domain_cases_total"] = total
    ctx.rule = ("cases = all pairs (and triples in a smaller window) of pixel rectangles on 6 base grids (north-up, mirrored, flipped, 90deg, Pythagorean-rotated, "
                "non-square), incompatible-grid variants (sub-pixel offsets k/16, pixel size, orientation, CRS, no CRS, every invertible relative linear map with entries in halves up to 2), snap perturbations on both sides of half a pixel, "
                "enclosing regions on the quarter-pixel lattice in the same and in an exact-translation CRS, bounding-box triples; every case is non-trivial; distinct by input")
    ctx.assumptions = ["the two +proj=tmerc CRSs differing only in false easting/northing transform by an exact translation (measured 6e-11 m)"]


def replay(ctx, obj):
    ev = execute(obj["case"])
    v = _validate(ctx, [ev])[0]
    print(f"replay: {json.dumps(ev)[:1500]} verdict={v}")
    ctx.record(obj["case"], v, op=obj.get("op", ""))
    ctx.traces_validated = 1
