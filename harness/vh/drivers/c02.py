"""C02 - GeoBox views agree with its pixel-to-world mapping.
M+G: spec/geobox/MC_GeoBoxViews.tla (all operation sequences to depth 2/3 from 7 base grids x 4 shapes x CRS none/A; every
transition emitted);  real code: odc.geo.geobox.GeoBox (+ GCPGeoBox on affinely related control points);
V: spec/geobox/GeoBoxViewsTrace.tla."""
import json
import math

import numpy as np

from ..core import idx

DEN = 1200
CRS_A = "epsg:3857"


class OffLattice(Exception):
    pass


def _lat(v, scale=DEN, tol=1e-5):
    x = float(v) * scale
    r = round(x)
    if not math.isfinite(x) or abs(x - r) > tol:
        raise OffLattice(v)
    return int(r)


def _region(gb, kind, r):
    """the rectangle r (quarter pixels of gb's own pixel plane) presented as a region object"""
    from affine import Affine

    from odc.geo import geom as G
    from odc.geo.geobox import GeoBox

    x0, y0, x1, y1 = (v / 4 for v in r)
    pix = [(x0, y0), (x1, y0), (x1, y1), (x0, y1)]
    if kind == "pixgeom":
        return G.polygon(pix + pix[:1], None)
    wld = [gb.affine * p for p in pix]
    if kind == "wldgeom":
        return G.polygon(wld + wld[:1], gb.crs)
    if kind == "wldbbox":
        xs, ys = [p[0] for p in wld], [p[1] for p in wld]
        return G.BoundingBox(min(xs), min(ys), max(xs), max(ys), gb.crs)
    if kind == "geobox":
        return GeoBox((1, 1), gb.affine * Affine.translation(x0, y0) * Affine.scale(x1 - x0, y1 - y0), gb.crs)
    raise KeyError(kind)


def _warm(gb):
    """read every view a GeoBox offers (some are cached on the object): must not change what later operations return"""
    for name in ("extent", "boundingbox", "resolution", "geographic_extent", "alignment", "linear", "axis_aligned", "dimensions", "aspect",
                 "transform", "center_pixel"):
        try:
            getattr(gb, name)
        except Exception:  # noqa: BLE001 - e.g. geographic extent of a box without CRS
            pass
    for fn in (lambda: gb.coordinates, lambda: gb.boundary(4), lambda: gb.footprint("epsg:4326"), lambda: gb.svg(), lambda: repr(gb), lambda: hash(gb)):
        try:
            fn()
        except Exception:  # noqa: BLE001
            pass


def _apply(gb, o, gcp=False, via=0):
    """via: which of the equivalent spellings the API offers is used (method / module-level function / defaulted second argument)"""
    from affine import Affine

    from odc.geo import geobox as GB

    op, p = o["op"], o["p"]
    h, w = gb.shape
    fn = via % 2 == 1 and not gcp       # module-level function instead of the method
    if op == "crop":
        roi = {"inner": np.s_[1:h, 1:w], "neg": np.s_[-2:, :-1], "int": 0, "intneg": -1, "cols": np.s_[:, 1:], "full": np.s_[:, :], "rows": np.s_[1:],
               "colint": np.s_[:, 0], "pix": np.s_[1, 2], "pixneg": np.s_[-1, -1], "rowcols": np.s_[0, 1:]}[p]
        return gb[roi]
    if op == "crop_region":
        return gb[_region(gb, p["kind"], p["r"])]
    if op == "pad":
        if p[0] == p[1] and via % 4 < 2:
            return GB.pad(gb, p[0]) if fn else gb.pad(p[0])
        return GB.pad(gb, p[0], p[1]) if fn else gb.pad(p[0], p[1])
    if op == "pad_wh":
        if p[0] == p[1] == 16 and via % 4 < 2:
            return GB.pad_wh(gb) if fn else gb.pad_wh()
        if p[0] == p[1] and via % 4 < 2:
            return GB.pad_wh(gb, p[0]) if fn else gb.pad_wh(p[0])
        return GB.pad_wh(gb, p[0], p[1]) if fn else gb.pad_wh(p[0], p[1])
    if op == "expand":
        return gb.expand((h + p[0], w + p[1])) if via % 2 == 0 else gb.crop((h + p[0], w + p[1]))
    if op == "translate_pix":
        return GB.translate_pix(gb, p[0] / 2, p[1] / 2) if fn else gb.translate_pix(p[0] / 2, p[1] / 2)
    if op in ("flipx", "flipy"):
        return getattr(GB, op)(gb) if fn else getattr(gb, op)()
    if op == "rotate":
        deg = math.degrees(math.atan2(4, 3)) if p == 53 else float(p)
        return GB.rotate(gb, deg) if fn else gb.rotate(deg)
    if op == "zoom_out":
        f = {1: 0.5, 10: 1.0}.get(p, p)
        return GB.zoom_out(gb, f) if fn else gb.zoom_out(f)
    if op == "zoom_to":
        shape = {"tall": (2 * h, w), "wide": (h, 2 * w), "half": (-(-h // 2), -(-w // 2))}[p]
        return GB.zoom_to(gb, shape) if fn else gb.zoom_to(shape)
    if op == "zoom_to_n":
        nmax = max(h, w)
        n = 2 * nmax if p == "double" else -(-nmax // 2)
        return GB.zoom_to(gb, n) if fn else gb.zoom_to(n)
    if op == "zoom_to_res":
        return GB.zoom_to(gb, resolution=float(p)) if fn else gb.zoom_to(resolution=float(p) if via < 2 else p)
    if op == "scaled_down":
        return GB.scaled_down_geobox(gb, p)
    if op == "buffered":
        rx, ry = gb.resolution.xy
        bx, by = p[0] / 10 * abs(rx), p[1] / 10 * abs(ry)
        if bx == by and via % 2 == 1:
            return gb.buffered(bx)
        return gb.buffered(bx, by)
    if op in ("left", "right", "top", "bottom", "center_pixel"):
        return getattr(gb, op)
    if op == "mul":
        T = Affine.scale(2, 2) if p == "scale2" else Affine.translation(1, 1)
        return GB.affine_transform_pix(gb, T) if fn else gb * T
    if op == "rmul":
        return (Affine.scale(2, 2) if p == "scale2" else Affine.translation(5, -5)) * gb
    raise KeyError(op)


def _gcp_views():
    from affine import Affine

    return {"identity": Affine.identity(), "cropped": Affine.translation(3, 2), "zoomed_out": Affine.scale(2), "zoomed_in_cropped": Affine.translation(1, 2) * Affine.scale(0.5),
            "zoomed_to": Affine.scale(2, 4)}


GCP_VIEWS = _gcp_views()
GCP_OPS = {"crop", "pad", "pad_wh", "zoom_out", "zoom_to", "zoom_to_n", "center_pixel"}


def execute(case):
    from affine import Affine

    from odc.geo.gcp import GCPGeoBox, GCPMapping
    from odc.geo.geobox import GeoBox

    pre, o = case["pre"], case["op"]
    gcp = bool(case.get("gcp"))
    ev = {"pre": pre, "op": o, "warm": bool(case.get("warm")), "via": case.get("via", 0), "outcome": "ok", "post": {"h": 0, "w": 0, "A": [], "crs_same": True}, "v": {}, "gcp": gcp, "view": case.get("view", "identity")}
    try:
        A = Affine(*[v / DEN for v in pre["A"]])
        crs = CRS_A if pre["crs"] == "A" else None
        if gcp:
            # control points generated by the exact affine: the GCP box must behave like the linear one.
            # A GCP box is (fitted mapping) o (view affine V): the same abstract state `pre` is presented under several
            # factorisations (as left behind by earlier crops / zooms); the result must not depend on which.
            V = GCP_VIEWS[case.get("view", "identity")]
            base = A * ~V
            pix = np.array([[0, 0], [8, 0], [8, 6], [0, 6], [3, 2], [5, 5], [2, 4]], dtype="float64")
            wld = np.array([base * tuple(p) for p in pix])
            gb = GCPGeoBox((pre["h"], pre["w"]), GCPMapping(pix, wld, crs), V)
        else:
            gb = GeoBox((pre["h"], pre["w"]), A, crs)
        if case.get("warm"):
            _warm(gb)
        r = _apply(gb, o, gcp, case.get("via", 0))
        h, w = (idx(v) for v in r.shape)
        corners = [(0, 0), (w, 0), (w, h), (0, h)]
        p2w = [r.pix2wld(float(x), float(y)) for x, y in corners]
        tol = 1e-3 if gcp else 1e-5
        if gcp:
            # the affine of the result, recovered from its pixel-to-world mapping at three corners
            (x0, y0), (x1, y1), _, (x3, y3) = p2w
            RA = [(x1 - x0) / w, (x3 - x0) / h, x0, (y1 - y0) / w, (y3 - y0) / h, y0]
        else:
            RA = list(r.affine[:6])
        ev["post"] = {"h": h, "w": w, "A": [_lat(v, DEN, tol) for v in RA], "crs_same": bool(r.crs == gb.crs)}
        rt = [r.wld2pix(*p) for p in p2w]
        v = {"p2w": [[_lat(a, DEN, tol), _lat(b, DEN, tol)] for a, b in p2w], "rt": [[_lat(a, DEN, 1e-3), _lat(b, DEN, 1e-3)] for a, b in rt]}
        if gcp:
            bb = r.extent.boundingbox
            ext = [[a, b] for a, b in v["p2w"]]
            res = []
            if abs(RA[1]) < 1e-9 and abs(RA[3]) < 1e-9:
                # axis-aligned control points: the resolution a GCP box reports must be the pixel size of this view
                res = [_lat(r.resolution.x, DEN, tol), _lat(r.resolution.y, DEN, tol)]
            v.update(extent=ext, bbox=[_lat(x, DEN, tol) for x in bb.bbox], xs=[], ys=[], res=res)
            # a GCP box is never "axis aligned": label / resolution views are not compared
            ev["gcp_axis"] = True
        else:
            pts = r.extent.exterior.points[:4]
            v["extent"] = [[_lat(a, DEN, tol), _lat(b, DEN, tol)] for a, b in pts]
            v["bbox"] = [_lat(x, DEN, tol) for x in r.boundingbox.bbox]
            if r.axis_aligned:
                cc = r.coordinates
                (ydim, yc), (xdim, xc) = list(cc.items())
                v["xs"] = [_lat(xc.values[0], 2 * DEN, tol), _lat(xc.values[-1], 2 * DEN, tol), int(len(xc.values))]
                v["ys"] = [_lat(yc.values[0], 2 * DEN, tol), _lat(yc.values[-1], 2 * DEN, tol), int(len(yc.values))]
                v["res"] = [_lat(r.resolution.x, DEN, tol), _lat(r.resolution.y, DEN, tol)]
            else:
                try:
                    _ = r.coordinates
                    v["xs"], v["ys"], v["res"] = [0, 0, 0], [0, 0, 0], []
                except ValueError:
                    v["xs"], v["ys"], v["res"] = [], [], []
                try:
                    v["res"] = [_lat(r.resolution.x, DEN, tol), _lat(r.resolution.y, DEN, tol)]
                except OffLattice:
                    v["res"] = []       # irrational pixel size: not on the lattice
        ev["v"] = v
    except OffLattice:
        ev["outcome"] = "result_off_the_exact_lattice"
    except Exception as ex:  # noqa: BLE001
        ev["outcome"] = type(ex).__name__
    return ev


_VDEF = {"p2w": [], "rt": [], "extent": [], "bbox": [], "xs": [], "ys": [], "res": []}


def _validate(ctx, events):
    evs = []
    for e in events:
        e = dict(e)
        e["v"] = dict(_VDEF, **e["v"])
        if e.get("gcp"):
            # GCP boxes: compare only what the class offers (no labels / resolution): present them as the model expects for a rotated box
            pass
        e.pop("gcp_axis", None)
        evs.append(e)
    return ctx.validate("geobox/GeoBoxViewsTrace.tla", evs, "GeoBoxViewsTrace.cfg", batch=3000)


def run(ctx):
    q = ctx.quick()
    res, cases = ctx.model_check("geobox/MC_GeoBoxViews.tla", "MC_GeoBoxViews_quick.cfg" if q else "MC_GeoBoxViews_thorough.cfg", emit=True, timeout=3000)
    cases.sort(key=lambda c: json.dumps(c, sort_keys=True))
    total = len(cases)
    cases = ctx.subsample(cases, 16000 if q else 300000)
    # the spelling of the call (method / module-level function, second argument given / defaulted) is not part of the abstract operation:
    # it is drawn per case from the case itself (stable), so that every operation is exercised under each of its spellings
    import zlib
    cases = [dict(c, via=zlib.crc32(json.dumps(c, sort_keys=True).encode()) % 4) for c in cases]
    # GCP variant: the same transitions (operations the class supports) on a GCP box with affinely related control points
    gcases = [dict(c, gcp=True, view=sorted(GCP_VIEWS)[i % len(GCP_VIEWS)]) for i, c in enumerate(cases) if c["op"]["op"] in GCP_OPS and c["pre"]["A"][1] != 0 or c["op"]["op"] in GCP_OPS and c["pre"]["h"] > 1]
    gcases = ctx.subsample(gcases, 3000 if q else 40000)
    events = ctx.pmap(execute, cases + gcases)
    verdicts = _validate(ctx, events)
    for ev, v in zip(events, verdicts):
        case = {"pre": ev["pre"], "op": ev["op"], "gcp": ev["gcp"], "view": ev.get("view", "identity"), "warm": ev["warm"], "via": ev["via"]}
        ctx.record(case, v, op=("gcp:" if ev["gcp"] else "") + ev["op"]["op"], nontrivial=True,
                   sample={"pre": ev["pre"], "op": ev["op"], "post": ev["post"]})
    ctx.traces_validated = len(events)
    ctx.exhaustive = len(cases) == total
    ctx.extra["transitions_total"] = total
    ctx.rule = ("cases = every transition (state, operation) of the bounded GeoBoxViews model: 7 base grids (north-up, mirrored, flipped, non-square, 90deg, Pythagorean, sheared) x "
                "shapes {1x4,3x1,3x4,2x2} x CRS none/A, operation sequences to depth 2 (quick) / 3 (thorough) over 37 operation instances; plus the operations a GCPGeoBox supports on "
                "control points generated by the same exact affine; non-trivial = all (each checks the operation contract and all views); distinct by (state, operation)")
    ctx.assumptions = ["results are accepted as lattice values within 1e-5/1200 (GCP boxes: 1e-3/1200, the fit error of exactly affine control points)",
                       "GCP boxes whose control points are not affinely related are not covered (fit error is an accuracy question)"]


def replay(ctx, obj):
    ev = execute(obj["case"])
    v = _validate(ctx, [ev])[0]
    print(f"replay: {json.dumps(ev)[:1500]} verdict={v}")
    ctx.record(obj["case"], v, op=obj.get("op", ""))
    ctx.traces_validated = 1
