"""C14 - a GridSpec tiles the plane without gaps or overlaps.
M+G: spec/gridspec/GridSpecGen.tla;  real code: odc.geo.gridspec.GridSpec;  V: spec/gridspec/GridSpecTrace.tla."""
import json
import math

from .c16 import CRS_A, CRS_B

S = 4  # world coordinates are logged in quarter units


class OffLattice(Exception):
    pass


def _lat(v, scale=S):
    r = round(v * scale)
    if abs(v * scale - r) > 1e-6:
        raise OffLattice(v)
    return int(r)


def _gs(g):
    from odc.geo.gridspec import GridSpec
    from odc.geo.types import resyx_, xy_

    kw = {"origin": xy_(g["ox"] / S, g["oy"] / S)}
    if g["ox"] == 0 and g["oy"] == 0 and (g["nx"] + g["ny"] + (1 if g["fx"] else 0)) % 2 == 0:
        kw = {}           # the default origin is (0, 0)
    return GridSpec(CRS_A, (g["ny"], g["nx"]), resyx_(g["ry"] / S, g["rx"] / S), flipx=g["fx"], flipy=g["fy"], **kw)


def _gb(gb):
    a = gb.affine
    if abs(a.b) > 1e-12 or abs(a.d) > 1e-12:
        raise OffLattice("rotated tile")
    return [int(gb.shape[0]), int(gb.shape[1]), _lat(a.a), _lat(a.c), _lat(a.e), _lat(a.f)]


def _table(gs, idxs, how="getitem"):
    return [{"i": [ix, iy], "t": _gb(gs[ix, iy] if how == "getitem" else gs.tile_geobox((ix, iy)))} for ix, iy in idxs]


def _floordiv(a, b):
    return a // b


def execute(c):
    from odc.geo import geom as G
    from odc.geo.gridspec import GridSpec

    ev = {"c": c, "outcome": "ok"}
    try:
        op = c["op"]
        if op == "web":
            z = c["z"]
            gs = GridSpec.web_tiles(z)
            n = 2 ** z
            R = 6_378_137
            tsz = math.pi * R * 2 ** (1 - z)
            tiles = []
            for ix in sorted({0, 1 % n, n - 1}):
                for iy in sorted({0, 1 % n, n - 1}):
                    bb = gs[ix, iy].boundingbox
                    tiles.append([ix, iy, _lat((bb.left + math.pi * R) / tsz, 1), _lat((math.pi * R - bb.top) / tsz, 1),
                                  _lat((bb.right + math.pi * R) / tsz, 1), _lat((math.pi * R - bb.bottom) / tsz, 1)])
            e = tsz / 1000
            i0 = gs.pt2idx(-math.pi * R + e, math.pi * R - e)
            i1 = gs.pt2idx(math.pi * R - e, -math.pi * R + e)
            ev.update(tiles=tiles, corners=[int(i0.x), int(i0.y), int(i1.x), int(i1.y)], npix=[int(v) for v in gs.tile_shape])
            return ev
        g = c["g"]
        gs = _gs(g)
        tsx, tsy = g["nx"] * abs(g["rx"]), g["ny"] * abs(g["ry"])
        win2 = [(ix, iy) for ix in range(-2, 3) for iy in range(-2, 3)]
        if op == "spec":
            ev["tiles"] = _table(gs, win2)
            ev["tiles2"] = _table(gs, win2, "tile_geobox")
            pts = []
            for x in range(g["ox"] - 2 * tsx, g["ox"] + 2 * tsx + 1):
                for y in (g["oy"] - tsy, g["oy"], g["oy"] + 1, g["oy"] + tsy - 1, g["oy"] + 2 * tsy):
                    i = gs.pt2idx(x / S, y / S)
                    pts.append({"p": [x, y], "i": [int(i.x), int(i.y)], "t": _gb(gs[i])})
            ev["pts"] = pts
            # derived attributes: alignment = origin modulo pixel size (y, x); a grid equals a grid built from the same parameters, nothing else
            al = gs.alignment
            want = ((g["oy"] / S) % abs(g["ry"] / S), (g["ox"] / S) % abs(g["rx"] / S))
            if abs(al.y - want[0]) > 1e-9 or abs(al.x - want[1]) > 1e-9:
                ev["outcome"] = "alignment_is_not_origin_modulo_pixel_size"
            if not (gs == _gs(g)) or gs == "gridspec" or gs == _gs(dict(g, ox=g["ox"] + 1)):
                ev["outcome"] = "gridspec_equality_or_hash_inconsistent"
        elif op in ("bbox", "poly", "mpoly", "tinypoly"):
            if op == "tinypoly":
                # a polygon far smaller than a pixel (side 5e-5 units) around a lattice point inside a tile: it overlaps that tile
                px, py = c["p"][0] / S, c["p"][1] / S
                out = [list(map(int, i)) for i, _ in gs.tiles_from_geopolygon(G.box(px - 2.5e-5, py - 2.5e-5, px + 2.5e-5, py + 2.5e-5, CRS_A))]
                x0 = x1 = c["p"][0]
                y0 = y1 = c["p"][1]
            elif op == "mpoly":
                parts = [[(p[0] / S, p[1] / S) for p in part] for part in c["q"]]
                mp = G.multipolygon([[part + part[:1]] for part in parts], CRS_A)
                out = [list(map(int, i)) for i, _ in gs.tiles_from_geopolygon(mp)]
                xs, ys = [p[0] for part in c["q"] for p in part], [p[1] for part in c["q"] for p in part]
                x0, y0, x1, y1 = min(xs), min(ys), max(xs), max(ys)
            elif op == "bbox":
                q = c["q"]
                x0, y0, x1, y1 = q
                eps = c.get("grow", 0) * 1e-9
                bb = G.BoundingBox(x0 / S - eps, y0 / S - eps, x1 / S + eps, y1 / S + eps, CRS_A)
                res = list(gs.tiles(bb))
                out = [list(map(int, i)) for i, _ in res]
                # every returned GeoBox is the tile of that index; a caller-supplied cache and the GeoJSON listing give the same tiles
                cache = {}
                res2 = list(gs.tiles(bb, geobox_cache=cache)) + list(gs.tiles(bb, geobox_cache=cache))
                feats = gs.geojson(bbox=bb)["features"]
                if any(_gb(gb) != _gb(gs[i]) for i, gb in res + res2):
                    ev["outcome"] = "tiles_query_returned_a_geobox_that_is_not_the_tile_of_its_index"
                elif sorted(out + out) != sorted(list(map(int, i)) for i, _ in res2) or sorted(cache) != sorted(tuple(i) for i in out):
                    ev["outcome"] = "tiles_query_with_a_geobox_cache_differs"
                elif sorted(f["properties"]["idx"] for f in feats) != sorted(f"{i[0]},{i[1]}" for i in out):
                    ev["outcome"] = "geojson_listing_differs_from_the_tiles_query"
            else:
                xs, ys = [p[0] for p in c["q"]], [p[1] for p in c["q"]]
                x0, y0, x1, y1 = min(xs), min(ys), max(xs), max(ys)
                dx, dy = (1024, 2048) if c["crs"] == "other" else (0, 0)
                pts = [(p[0] / S + dx, p[1] / S + dy) for p in c["q"]]
                poly = G.polygon(pts + [pts[0]], CRS_B if c["crs"] == "other" else CRS_A)
                out = [list(map(int, i)) for i, _ in gs.tiles_from_geopolygon(poly)]
                # history: one caller-owned geobox cache shared by several queries (a box query over the polygon's surroundings filled it, then the
                # same polygon twice).  What a query returns is a function of the query; the cache may only save work.
                cache = {}
                pb = poly.to_crs(CRS_A).boundingbox
                list(gs.tiles(G.BoundingBox(pb.left - tsx / S, pb.bottom - tsy / S, pb.right + tsx / S, pb.top + tsy / S, CRS_A), geobox_cache=cache))
                warm1 = list(gs.tiles_from_geopolygon(poly, geobox_cache=cache))
                warm2 = list(gs.tiles_from_geopolygon(poly, geobox_cache=cache))
                if any(sorted(list(map(int, i)) for i, _ in w) != sorted(out) for w in (warm1, warm2)):
                    ev["outcome"] = "polygon_query_with_a_shared_geobox_cache_differs"
                elif any(_gb(gb) != _gb(gs[i]) for i, gb in warm1 + warm2):
                    ev["outcome"] = "tiles_query_returned_a_geobox_that_is_not_the_tile_of_its_index"
            # observe the footprints of every tile around the query (window from the query extent) and of everything returned
            dirx, diry = (-1 if g["fx"] else 1), (-1 if g["fy"] else 1)
            ixs = sorted(dirx * ((v - g["ox"]) // tsx) for v in (x0, x1))
            iys = sorted(diry * ((v - g["oy"]) // tsy) for v in (y0, y1))
            win = {(ix, iy) for ix in range(ixs[0] - 1, ixs[1] + 2) for iy in range(iys[0] - 1, iys[1] + 2)} | {tuple(i) for i in out}
            ev["out"] = out
            ev["foot"] = _table(gs, sorted(win))
        elif op == "sample":
            ix, iy = c["idx"]
            tile = gs[ix, iy]
            rebuilt = GridSpec.from_sample_tile(tile.extent, shape=tuple(gs.tile_shape), idx=(ix, iy), flipx=g["fx"], flipy=g["fy"])
            ev["tiles"] = _table(gs, win2)
            ev["rebuilt"] = _table(rebuilt, win2)
    except OffLattice:
        ev["outcome"] = "off_lattice_result"
    except Exception as ex:  # noqa: BLE001
        ev["outcome"] = type(ex).__name__
    return ev


_DEF = {"tiles": [], "tiles2": [], "pts": [], "out": [], "foot": [], "rebuilt": [], "corners": [], "npix": []}


def _validate(ctx, events):
    return ctx.validate("gridspec/GridSpecTrace.tla", [dict(_DEF, **e) for e in events], "GridSpecTrace.cfg", batch=1500)


def run(ctx):
    q = ctx.quick()
    res, cases = ctx.model_check("gridspec/GridSpecGen.tla", "MC_GridSpec_quick.cfg" if q else "MC_GridSpec_thorough.cfg", emit=True, timeout=2400)
    cases.sort(key=lambda c: json.dumps(c, sort_keys=True))
    total = len(cases)
    by = {}
    for c in cases:
        by.setdefault(c["op"], []).append(c)
    caps = {"bbox": 5000, "poly": 2500, "tinypoly": 600, "sample": 576, "spec": 192, "web": 6} if q else {"bbox": 120000, "poly": 40000}
    cases = [c for op, cs in sorted(by.items()) for c in ctx.subsample(cs, caps.get(op, 10 ** 9))]
    events = ctx.pmap(execute, cases)
    verdicts = _validate(ctx, events)
    for ev, v in zip(events, verdicts):
        c = ev["c"]
        ctx.record(c, v, op=c["op"], conformance=c["op"] == "spec", nontrivial=True,
                   sample={"case": c, "out": ev.get("out"), "tiles": (ev.get("tiles") or [])[:3]})
    ctx.traces_validated = len(events)
    ctx.exhaustive = len(cases) == total
    ctx.extra["domain_cases_total"] = total
    ctx.rule = ("cases = grid specs (tile shapes, |res| in {1/2,1,2} of either sign per axis, half-integer origins, both flip flags) x {complete tables over a 5x5 index window "
                "and dense point lookups; query boxes at half-tile positions with quarter-unit jitter around tile edges; convex lattice polygons in the same and an exact-translation CRS; "
                "reconstruction from sample tiles} + web tiles z<=5; all non-trivial; distinct by input")
    ctx.assumptions = ["touching (zero-area) contacts of polygon queries are neither required nor forbidden", "exact tmerc CRS family for the cross-CRS polygon queries"]


def replay(ctx, obj):
    ev = execute(obj["case"])
    v = _validate(ctx, [ev])[0]
    print(f"replay: {json.dumps(ev)[:1500]} verdict={v}")
    ctx.record(obj["case"], v, op=obj.get("op", ""))
    ctx.traces_validated = 1
