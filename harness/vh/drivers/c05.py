"""C05 - the parallel (dask) COG writer produces a correct, overview-first GeoTIFF.
M+G: spec/cog/CogGen.tla (layout rule checked on all shapes x blocksize lists; write configurations), spec/sched/TaskGraph.tla (execution orders of the real graph);
real code: save_cog_with_dask -> mpu_write -> MPUFileSink;  V: spec/cog/CogTrace.tla on the tile tables read with tifffile; decode fidelity through rasterio/GDAL and tifffile (oracle booleans)."""
import json
import os
import shutil
import tempfile

import numpy as np

from ..core import MachineryError


def _build(c, dst):
    from odc.geo.cog import save_cog_with_dask
    from odc.geo.geobox import GeoBox
    from odc.geo.xr import wrap_xr

    h, w, ns = c["h"], c["w"], c["ns"]
    gb = GeoBox.from_bbox((500000, 6000000 - h * 10, 500000 + w * 10, 6000000), "epsg:32633", resolution=10)
    assert gb.shape == (h, w)
    dt = np.dtype(c["dtype"])
    rng = np.random.default_rng(h * 1000 + w)
    base = rng.integers(1, 100, size=(ns, h, w)) if dt.kind != "f" else rng.random((ns, h, w)) * 100
    # pixel pattern (decides the SIZE of the compressed tiles, hence where the multi-part writer spills and merges): random small numbers,
    # one constant (tiles of a few bytes: many tiles per part), or noise over the whole value range (incompressible)
    pat = (h * 7 + w + ns + len(c["blocks"])) % 4
    if pat == 1:
        base = np.full((ns, h, w), 7) if dt.kind != "f" else np.full((ns, h, w), 7.5)
        base[:, h // 2, w // 3] = 9
    elif pat == 2 and dt.kind != "f":
        info = np.iinfo(dt)
        base = rng.integers(info.min, int(info.max) + 1, size=(ns, h, w), dtype="int64")
    elif pat == 3 and dt.kind == "f":
        # values at the far end of the type's range (statistics with dozens of digits, bytes that do not compress)
        base = (rng.random((ns, h, w)) + 0.5) * (1e29 if dt.itemsize == 4 else 1e250) * np.where(rng.random((ns, h, w)) < 0.5, -1.0, 1.0)
    data = base.astype(dt)
    kw = {}
    if c["nodata"]:
        kw["nodata"] = c["nodata"][0]
    if c["axis"] == "YX":
        arr = data[0]
    elif c["axis"] == "YXS":
        arr = np.moveaxis(data, 0, -1)
    else:
        arr = data
    if c["axis"] == "SYX":
        import xarray as xr
        from odc.geo.xr import xr_coords
        xx = xr.DataArray(arr, dims=("band", *gb.dimensions), coords=xr_coords(gb), attrs=({"nodata": kw["nodata"]} if kw else {}))
    else:
        xx = wrap_xr(arr, gb, **kw)
    cy, cx = (c["chunks"][0] or (c["tb"][0][0] if "tb" in c else c["blocks"][0])), (c["chunks"][1] or (c["tb"][0][1] if "tb" in c else c["blocks"][0]))
    if c.get("irr"):
        if c["irr"] == "tile":
            cy = cx = c["blocks"][0]

        def irregular(n, cs):
            head = max(1, cs // 4)
            if head >= n:
                return (n,)
            rest = n - head
            return (head,) + (cs,) * (rest // cs) + ((rest % cs,) if rest % cs else ())
        cy, cx = irregular(h, cy), irregular(w, cx)
    ch = {xx.odc.spatial_dims[0]: cy, xx.odc.spatial_dims[1]: cx}
    if c.get("schunk") and c["axis"] != "YX":
        ch[[d for d in xx.dims if d not in xx.odc.spatial_dims][0]] = c["schunk"]
    xx = xx.chunk(ch)
    bs = list(c["blocks"])
    if "tb" in c:
        bs = [tuple(t) for t in c["tb"]]
    elif len(bs) == 1 and (c["h"] + c["w"]) % 2 == 0:
        bs = bs[0]            # a single block size may be given as a plain number
    wkw = {"blocksize": bs, "stats": bool(c.get("stats", False)), "compression": c["comp"]}
    if "stats" not in c and (c["h"] + c["w"]) % 2 == 0:
        del wkw["stats"]          # the library's default (statistics are computed unless switched off)
    if c.get("lvlk", "none") != "none":
        wkw[c["lvlk"]] = c["lvlv"]
    if "pred" in c:
        wkw["predictor"] = {"off": False, "on": True, "2": 2, "3": 3}[c["pred"]]
    if "bigtiff" in c:
        wkw["bigtiff"] = bool(c["bigtiff"])
    if c["spill"]:
        wkw["spill_sz"] = c["spill"]
        wkw["writes_per_chunk"] = c["wpc"]
    d = save_cog_with_dask(xx, dst, **wkw)
    if dst and c.get("vidx", 0) % 2 == 0:
        # the layout description the writer works from (dst="" returns it without writing): its tile enumeration must be the documented one
        bad = _meta_enumeration(save_cog_with_dask(xx, "", **wkw)["meta"])
        if bad:
            raise LayoutError(bad)
    return d, data, gb, kw.get("nodata")


class LayoutError(Exception):
    pass


def _meta_enumeration(meta):
    """CogMeta.tidx / flat_tile_idx / cog_tidx against first principles: C order over (plane, row, col), flat index = position, levels last-to-first"""
    import itertools

    levels = meta.flatten()
    want = []
    for k in range(len(levels) - 1, -1, -1):
        mm = levels[k]
        ny, nx = (-(-n // t) for n, t in zip(mm.shape.yx, mm.tile.yx))
        if tuple(mm.chunked.yx) != (ny, nx) or mm.num_tiles != mm.num_planes * ny * nx:
            return "chunked_shape_or_tile_count_wrong"
        idx = list(itertools.product(range(mm.num_planes), range(ny), range(nx)))
        if [tuple(map(int, i)) for i in mm.tidx()] != idx:
            return "tidx_is_not_c_order_over_plane_row_col"
        if [mm.flat_tile_idx(i) for i in idx] != list(range(len(idx))):
            return "flat_tile_idx_is_not_the_position_in_tidx"
        if mm.num_planes > 1 and [tuple(map(int, i)) for i in mm.tidx(1)] != [i for i in idx if i[0] == 1]:
            return "tidx_of_one_plane_wrong"
        for probe in ((mm.num_planes, 0, 0), (0, ny, 0), (0, 0, nx), (-1, 0, 0)):
            try:
                mm.flat_tile_idx(probe)
                return "flat_tile_idx_accepts_an_index_outside_the_level"
            except IndexError:
                pass
        want += [(k, *i) for i in idx]
    if [tuple(map(int, i)) for i in meta.cog_tidx()] != want:
        return "cog_tidx_is_not_overview_first_then_c_order"
    return ""


def _inspect(dst, c, data, gb, nodata):
    import rasterio
    import tifffile

    h, w, ns = c["h"], c["w"], c["ns"]
    ev = {}
    with tifffile.TiffFile(dst) as tf:
        pages = []
        for p in tf.pages:
            ih, iw = (p.imagelength, p.imagewidth)
            pages.append({"h": int(ih), "w": int(iw), "th": int(p.tilelength), "tw": int(p.tilewidth), "reduced": bool(p.is_reduced),
                          "offs": [int(v) for v in p.dataoffsets], "counts": [int(v) for v in p.databytecounts]})
        ev["pages"] = pages
        ev["planes_sep"] = ns if (c["axis"] == "SYX") else 1
        allo = [o for p in pages for o in p["offs"]]
        ev["hdr"] = int(min(allo)) if allo else 0
        # tifffile decode of the full resolution page
        a = tf.pages[0].asarray()
        ref = data
        if c["axis"] == "YX":
            ok = np.array_equal(a[:h, :w], ref[0], equal_nan=True)
        elif c["axis"] == "YXS":
            ok = np.array_equal(a[:h, :w, :], np.moveaxis(ref, 0, -1), equal_nan=True)
        else:
            a3 = a if a.ndim == 3 else a[None]
            ok = np.array_equal(a3[:, :h, :w], ref, equal_nan=True)
        ev["decode_tifffile"] = bool(ok)
        ovr_ok = True
        for p in list(tf.pages)[1:]:
            try:
                b = p.asarray()
                ovr_ok = ovr_ok and b.size > 0
            except Exception:  # noqa: BLE001
                ovr_ok = False
        ev["overviews_decodable"] = bool(ovr_ok)
    ev["size"] = int(os.path.getsize(dst))
    with rasterio.open(dst) as f:
        r = f.read()
        ev["decode_rio"] = bool(r.shape[0] == ns and np.array_equal(r[:, :h, :w], data, equal_nan=True) and r.dtype == data.dtype)
        ev["transform_ok"] = bool(all(abs(x - y) < 1e-9 for x, y in zip(f.transform[:6], gb.affine[:6])))
        ev["crs_ok"] = bool(f.crs is not None and f.crs.to_epsg() == 32633)
        ev["nodata_ok"] = bool((f.nodata is None and nodata is None) or (f.nodata is not None and nodata is not None and float(f.nodata) == float(nodata)))
        for i in range(1, ns + 1):
            if f.overviews(i) and i == 1:
                try:
                    _ = f.read(1, out_shape=(max(1, f.height // 2), max(1, f.width // 2)))
                except Exception:  # noqa: BLE001
                    ev["overviews_decodable"] = False
    return ev


def execute(job):
    from ..sched import RealGraph, TaskFailed

    c, order = job
    ev = {"c": c, "order": order if isinstance(order, str) else ("tlc" if order else "default"), "outcome": "ok", "pages": [], "planes_sep": 1, "hdr": 0, "size": 0,
          "decode_rio": False, "decode_tifffile": False, "overviews_decodable": False, "transform_ok": False, "crs_ok": False, "nodata_ok": False}
    td = tempfile.mkdtemp(prefix="vh_cog_")
    try:
        dst = os.path.join(td, "out.tif")
        if (c["h"] + c["w"] + len(c["blocks"])) % 3 == 0:
            # history: the destination already holds the (longer) result of an earlier save - it is replaced, not appended to
            with open(dst, "wb") as f:
                f.write(b"II*\x00" + bytes(range(256)) * 2000)
        d, data, gb, nodata = _build(c, dst)
        if order is None:
            d.compute(scheduler="synchronous")
        elif order == "threads":
            d.compute(scheduler="threads", num_workers=4)
        else:
            RealGraph(d).execute(order)
        ev.update(_inspect(dst, c, data, gb, nodata))
    except TaskFailed as ex:
        ev["outcome"] = type(ex.orig).__name__
    except LayoutError as ex:
        ev["outcome"] = "layout_" + str(ex)
    except MachineryError:
        raise
    except Exception as ex:  # noqa: BLE001
        ev["outcome"] = type(ex).__name__
    finally:
        shutil.rmtree(td, ignore_errors=True)
    return ev


def _shape_of(c):
    from ..sched import RealGraph

    td = tempfile.mkdtemp(prefix="vh_cog_")
    try:
        d = _build(c, os.path.join(td, "o.tif"))[0]
        return RealGraph(d).shape()
    except Exception:  # noqa: BLE001
        return None
    finally:
        shutil.rmtree(td, ignore_errors=True)


def _validate(ctx, events):
    return ctx.validate("cog/CogTrace.tla", events, "CogTrace.cfg", batch=150)


def run(ctx):
    from ..sched import tlc_orders

    q = ctx.quick()
    res, cases = ctx.model_check("cog/CogGen.tla", "MC_Cog_quick.cfg" if q else "MC_Cog_thorough.cfg", emit=True, timeout=3000)
    cases.sort(key=lambda c: json.dumps(c, sort_keys=True))
    shapes = ctx.pmap(_shape_of, cases, procs=16) if len(cases) >= 64 else [_shape_of(c) for c in cases]
    idx, graphs = {}, []
    for s in shapes:
        if s is not None and s not in idx:
            idx[s] = len(graphs)
            graphs.append({"n": s[0], "deps": [list(x) for x in s[1]]})
    per = 1 if q else 4
    orders, st = tlc_orders(graphs, ctx.scratch, per_graph=per, seed=ctx.seed, exhaustive_upto=0, timeout=1500)
    ctx.states += st["distinct"]
    ctx.transitions += st["generated"]
    ctx.m_runs.append({"model": "TaskGraph (schedules of the real COG write graphs)", "graphs": len(graphs), "distinct_states": st["distinct"],
                       "states_generated": st["generated"], "schedules": sum(len(v) for v in orders.values())})
    jobs = []
    for i, (c, s) in enumerate(zip(cases, shapes)):
        jobs.append((c, None))
        if s is not None:
            for o in orders[idx[s]][:per]:
                jobs.append((c, o))
        if i % 3 == 0:
            jobs.append((c, "threads"))
    events = ctx.pmap(execute, jobs, procs=16)
    verdicts = _validate(ctx, events)
    for (c, order), ev, v in zip(jobs, events, verdicts):
        tags = set()
        ctx.record({"c": c, "order": order if not isinstance(order, list) else order}, v, op=f"{c['axis']}/{c['dtype']}/{c['comp']}/{ev['order']}", conformance=True, tags=tags,
                   nontrivial=len(ev["pages"]) > 1, sample={"case": c, "order": ev["order"], "pages": [{k: p[k] for k in ("h", "w", "th", "tw", "reduced")} for p in ev["pages"]], "size": ev["size"]})
    ctx.traces_validated = len(events)
    ctx.rule = ("layout model: all shapes up to MaxDim^2 x 7 blocksize lists (TLC); write cases = 9 image shapes (incl. narrower than a tile, single row, single column) x 7 blocksize lists with the "
                "remaining options (axis order YX / YXS / SYX, 1-4 samples, 7 dtypes, 4 compressions, nodata, source chunking, spill threshold, writes-per-chunk) drawn per case, plus all 7 option "
                "variants on 3 shapes x 2 blocksize lists; each written under dask's default order, TLC-chosen orders of the exported graph and (every third) a thread pool; non-trivial = the file has overviews; "
                "distinct by (case, order)")
    ctx.assumptions = ["decode fidelity (rasterio/GDAL and tifffile decode = source pixels, overviews decodable, transform / CRS / nodata) is computed by the harness and enters the trace as booleans",
                       "tile tables are read with tifffile"]
    ctx.oracle_clauses = ["decoded pixels / transform / CRS / nodata via rasterio (GDAL) and tifffile"]


def replay(ctx, obj):
    c = obj["case"]
    ev = execute((c["c"], c["order"]))
    v = _validate(ctx, [ev])[0]
    print(f"replay: {json.dumps(ev)[:1500]} verdict={v}")
    ctx.record(c, v, op=obj.get("op", ""))
    ctx.traces_validated = 1
