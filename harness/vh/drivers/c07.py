"""C07 - geometry reprojection and densification are faithful.
M+G: spec/geom/GeomGen.tla (geometry trees on the integer lattice with edges of integer length; TLC checks the densification model against the contract);
real code: Geometry.segmented / to_crs;  V: spec/geom/GeomTrace.tla (structure, retained vertices, added vertices on their edges in order, no edge longer than the
resolution - exact integer arithmetic; real EPSG pairs against a pyproj oracle table)."""
import json
import math

from .c16 import CRS_A, CRS_B

S = 65
T_FAMILY = (1024, 2048)


class OffLattice(Exception):
    pass


def _lat(v, tol=1e-5):
    x = float(v) * S
    r = round(x)
    if not math.isfinite(x) or abs(x - r) > tol:
        raise OffLattice(v)
    return int(r)


def _build(kind, geo, tr=lambda x, y: (float(x), float(y))):
    import shapely.geometry as sg

    parts = [(t, [tr(*p) for p in pts]) for t, pts in geo]
    if kind == "point":
        return sg.Point(parts[0][1][0])
    if kind == "multipoint":
        return sg.MultiPoint([p[1][0] for p in parts])
    if kind == "line":
        return sg.LineString(parts[0][1])
    if kind == "ring":
        return sg.LinearRing(parts[0][1])
    if kind in ("polygon", "tall"):
        return sg.Polygon(parts[0][1])
    if kind == "polyhole":
        return sg.Polygon(parts[0][1], [parts[1][1]])
    if kind == "multiline":
        return sg.MultiLineString([p[1] for p in parts])
    if kind == "multipolygon":
        return sg.MultiPolygon([sg.Polygon(parts[0][1]), sg.Polygon(parts[1][1], [parts[2][1]])])
    if kind == "collection":
        return sg.GeometryCollection([sg.Point(parts[0][1][0]), sg.LineString(parts[1][1]), sg.Polygon(parts[2][1])])
    if kind == "collection_polys":
        return sg.GeometryCollection([sg.Polygon(parts[0][1]), sg.Polygon(parts[1][1])])
    if kind == "collection_lines":
        return sg.GeometryCollection([sg.LineString(parts[0][1]), sg.LineString(parts[1][1])])
    if kind == "collection_one":
        return sg.GeometryCollection([sg.Polygon(parts[0][1])])
    if kind == "collection_nested":
        return sg.GeometryCollection([sg.Point(parts[0][1][0]), sg.GeometryCollection([sg.Polygon(parts[1][1]), sg.Polygon(parts[2][1])])])
    raise KeyError(kind)


def _flatten(g, enc):
    """(signature, paths) of a shapely geometry in traversal order"""
    t = g.geom_type
    if t == "Point":
        return "Point", [[enc(*c) for c in g.coords]]
    if t in ("LineString", "LinearRing"):
        return t, [[enc(*c) for c in g.coords]]
    if t == "Polygon":
        paths = [[enc(*c) for c in g.exterior.coords]] + [[enc(*c) for c in i.coords] for i in g.interiors]
        return f"Polygon[{len(g.interiors)}]", paths
    sigs, paths = [], []
    for ch in g.geoms:
        s, p = _flatten(ch, enc)
        sigs.append(s)
        paths += p
    return f"{t}({','.join(sigs)})", paths


REAL = {"4258": lambda x, y: (10 + x / 1000, 50 + y / 1000), "4326": lambda x, y: (10 + x / 1000, 50 + y / 1000), "3857": lambda x, y: (1113194 + 10 * x, 6446275 + 10 * y),
        "32633": lambda x, y: (300000 + 10 * x, 5540000 + 10 * y), "3035": lambda x, y: (4200000 + 10 * x, 3000000 + 10 * y),
        "6933": lambda x, y: (964862 + 10 * x, 5300000 + 10 * y)}


def _long_summary(inp, out):
    """measurements of one densified path (exact integers on the lattice): vertex count, largest squared gap, and whether the output walks the
    input path: starts / ends at its ends, every vertex on the current edge, never going backwards"""
    n, gap2 = len(out), 0
    ok = bool(out) and out[0] == inp[0] and out[-1] == inp[-1]
    k = 0                                                   # current edge inp[k] -> inp[k + 1]
    for i in range(1, n):
        (x0, y0), (x1, y1) = out[i - 1], out[i]
        gap2 = max(gap2, (x1 - x0) ** 2 + (y1 - y0) ** 2)
        while ok:
            a, b = inp[k], inp[k + 1]
            ex, ey = b[0] - a[0], b[1] - a[1]
            t0, t1 = (x0 - a[0]) * ex + (y0 - a[1]) * ey, (x1 - a[0]) * ex + (y1 - a[1]) * ey
            on = (x1 - a[0]) * ey - (y1 - a[1]) * ex == 0 and 0 <= t1 <= ex * ex + ey * ey and (x0 - a[0]) * ey - (y0 - a[1]) * ex == 0 and t0 < t1
            if on:
                break
            if [x0, y0] == b and k + 2 < len(inp):
                k += 1
                continue
            ok = False
    lens = [math.isqrt((b[0] - a[0]) ** 2 + (b[1] - a[1]) ** 2) // S for a, b in zip(inp, inp[1:])]
    return {"n": n, "maxgap2": min(gap2, 2**30), "on_path_in_order": bool(ok), "lens": lens}


def execute(c):
    import numpy as np
    import pyproj
    import shapely

    from odc.geo.crs import CRS
    from odc.geo.geom import Geometry

    op, kind = c["op"], c["kind"]
    ev = {"c": {k: v for k, v in c.items() if k != "geo"}, "outcome": "ok", "sig_in": "", "sig_out": "", "inp": [], "out": [], "r": c["r"], "t": [0, 0],
          "same_object": False, "crs_ok": True, "type_area_length_ok": True, "fwd_ok": True, "back_ok": True, "edges_ok": True}
    try:
        enc = lambda x, y: [_lat(x), _lat(y)]  # noqa: E731
        if op == "to_crs_real":
            s, d = c["pair"].split(">")
            shp = _build(kind, c["geo"], REAL[s])
            g = Geometry(shp, f"epsg:{s}")
            if c.get("prior", "none") != "none":
                # earlier in the process somebody asked for the authority-axis-order transformers of this pair
                CRS(f"epsg:{s}").transformer_to_crs(CRS(f"epsg:{d}"), always_xy=False)
                CRS(f"epsg:{d}").transformer_to_crs(CRS(f"epsg:{s}"), always_xy=False)
            unit = 1 / 1000 if s == "4326" else 10.0
            res = c["r"] * unit if c["r"] > 0 else None
            wkw = {"wrapdateline": True} if c.get("wrap") else {}
            if c["r"] == -1:
                # "auto": densified with the step the library itself picks, then every vertex mapped exactly
                from odc.geo.geom import _auto_resolution
                res = _auto_resolution(g)
                out = g.to_crs(f"epsg:{d}", resolution="auto", **wkw)
            else:
                out = g.to_crs(f"epsg:{d}", resolution=res, **wkw)
            # asking to check-and-fix a result that is valid changes nothing
            fixed = g.to_crs(f"epsg:{d}", resolution=("auto" if c["r"] == -1 else res), check_and_fix=True, **wkw)
            if out.geom.is_valid and not fixed.geom.equals_exact(out.geom, 0):
                ev["outcome"] = "check_and_fix_changed_a_valid_result"
            ev["sig_in"] = _flatten((g.segmented(res) if res else g).geom, lambda x, y: 0)[0]
            ev["sig_out"] = _flatten(out.geom, lambda x, y: 0)[0]
            ev["crs_ok"] = bool(out.crs == CRS(f"epsg:{d}"))
            # oracle: fresh pyproj on the vertices of the (densified) source
            srcg = g.segmented(res).geom if res else g.geom
            tr = pyproj.Transformer.from_crs(int(s), int(d), always_xy=True)
            exp = shapely.transform(srcg, lambda xy: np.column_stack(tr.transform(xy[:, 0], xy[:, 1])))
            a, b = shapely.get_coordinates(out.geom), shapely.get_coordinates(exp)
            ev["fwd_ok"] = bool(a.shape == b.shape and np.allclose(a, b, rtol=1e-9, atol=1e-9))
            back = out.to_crs(f"epsg:{s}")
            a2, b2 = shapely.get_coordinates(back.geom), shapely.get_coordinates(srcg)
            ev["back_ok"] = bool(a2.shape == b2.shape and np.allclose(a2, b2, rtol=0, atol=1e-6 * (1e-5 if s == "4326" else 1.0) * 10))
            if res:
                seg = g.segmented(res).geom
                cs = shapely.get_coordinates(seg)
                ev["edges_ok"] = True  # structure of densification is checked exactly on the lattice family (segmented / to_crs_family)
            return ev
        shp = _build(kind, c["geo"])
        ev["sig_in"], ev["inp"] = _flatten(shp, enc)
        crs = None if op == "to_crs_no_crs" else CRS_A
        g = Geometry(shp, crs)
        if op == "segmented_long":
            out = g.segmented(float(c["r"]))
            ev["type_area_length_ok"] = bool(out.geom.geom_type == shp.geom_type and abs(out.geom.area - shp.area) <= 1e-9 * max(1.0, shp.area)
                                             and abs(out.geom.length - shp.length) <= 1e-9 * max(1.0, shp.length))
            ev["sig_out"], outs = _flatten(out.geom, enc)
            ev["long"] = [_long_summary(a, b) for a, b in zip(ev["inp"], outs)] if len(outs) == len(ev["inp"]) else []
            return ev
        if op == "segmented":
            out = g.segmented(float(c["r"]))
            ev["type_area_length_ok"] = bool(out.geom.geom_type == shp.geom_type and abs(out.geom.area - shp.area) <= 1e-9 * max(1.0, shp.area)
                                             and abs(out.geom.length - shp.length) <= 1e-9 * max(1.0, shp.length))
            ev["crs_ok"] = out.crs == g.crs
        elif op == "to_crs_same_spelling":
            other = CRS(pyproj.CRS.from_user_input(CRS_A).to_wkt())
            rkw = {} if c["r"] == 0 else {"resolution": "auto" if c["r"] == -1 else float(c["r"])}
            out = g.to_crs(other, **rkw)
            ev["same_object"] = out is g
        elif op == "to_crs_no_crs":
            out = g.to_crs(CRS_B, **({} if c["r"] <= 0 else {"resolution": float(c["r"])}))
        else:
            res = float(c["r"]) if c["r"] else None
            tgt = CRS_B
            if (len(c["geo"]) + c["r"] + len(c["off"])) % 2 == 0:
                # history: both CRS objects have had their EPSG code looked up (neither has one) before the conversion
                tgt = CRS(CRS_B)
                _ = (tgt.epsg, g.crs.epsg)
            out = g.to_crs(tgt, resolution=res)
            ev["t"] = [T_FAMILY[0] * S, T_FAMILY[1] * S]
            ev["crs_ok"] = bool(out.crs == CRS(CRS_B))
        ev["sig_out"], ev["out"] = _flatten(out.geom, enc)
    except OffLattice:
        ev["outcome"] = "vertex_off_the_exact_lattice"
    except Exception as ex:  # noqa: BLE001
        ev["outcome"] = type(ex).__name__
    return ev


def _validate(ctx, events):
    return ctx.validate("geom/GeomTrace.tla", events, "GeomTrace.cfg", batch=600)


def run(ctx):
    res, cases = ctx.model_check("geom/GeomGen.tla", "GeomGen.cfg", emit=True, timeout=1200)
    cases.sort(key=lambda c: json.dumps(c, sort_keys=True))
    events = ctx.pmap(execute, cases)
    verdicts = _validate(ctx, events)
    for ev, v in zip(events, verdicts):
        c = ev["c"]
        ctx.record(c, v, op=f"{c['op']}:{c['kind']}", conformance=c["op"] == "segmented", nontrivial=c["kind"] not in ("point", "multipoint") or c["op"] != "segmented",
                   sample={"case": c, "sig_out": ev["sig_out"], "npts": sum(len(p) for p in ev["out"])})
    ctx.traces_validated = len(events)
    ctx.exhaustive = True
    ctx.rule = ("cases = 10 geometry kinds (points, lines, rings, polygons with holes, multi-geometries, collections) built from edges of integer length along the axes and 3-4-5 / 5-12-13 "
                "directions, at 5 positions (near both axes, on x = 0, on y = 0, far away) and 2 scales x 9 resolutions (dividing / not dividing the edge lengths, below / equal / above them); "
                "to_crs within the exact-translation CRS family with and without densification, same CRS in another spelling, no CRS, and 6 real EPSG pairs against pyproj; the whole domain "
                "is executed; non-trivial = has edges or is a CRS operation; distinct by input")
    ctx.assumptions = ["vertices of the real result are accepted as lattice values within 1e-5/65 (interpolated vertices on the 1/65 lattice: measured 1e-9)",
                       "real EPSG pairs: pyproj (fresh Transformer) is the oracle for vertex images and the there-and-back tolerance (1e-6 m / 1e-10 deg x 10)"]
    ctx.oracle_clauses = ["to_crs_real: vertex images and round trip compared with pyproj"]


def replay(ctx, obj):
    res, cases = ctx.model_check("geom/GeomGen.tla", "GeomGen.cfg", emit=True, timeout=1200)
    want = obj["case"]
    for c in cases:
        if {k: v for k, v in c.items() if k != "geo"} == want:
            ev = execute(c)
            v = _validate(ctx, [ev])[0]
            print(f"replay: {json.dumps(ev)[:1500]} verdict={v}")
            ctx.record(want, v, op=obj.get("op", ""))
            ctx.traces_validated = 1
            return
    raise Exception("case not found")
