"""C10 - the paste shortcut is pixel-identical to a nearest-neighbour warp.
M+G: spec/warp/ReprojGen.tla (same domain as C03);  real code: compute_reproject_roi + rio_reproject(resampling='nearest') (GDAL);
V: spec/warp/ReprojTrace.tla (meta.prop = C10): TLC performs the paste from the logged plan and compares it with the logged GDAL image
and with the first-principles nearest-neighbour model."""
import json

import numpy as np

from ..reproj_common import plan, roi4

DTYPES = ["uint8", "int16", "float32", "int8", "bool", "uint16", "float64", "int32"]


def execute(c):
    from odc.geo.warp import rio_reproject

    ev = {"c": c, "outcome": "ok", "o": {"roi_src": [0, 0, 0, 0], "roi_dst": [0, 0, 0, 0], "paste_ok": False, "shrink": 1}, "src": [], "gdal": [], "nodata": 0,
          "dtype": ""}
    try:
        src, dst, rr = plan(c)
        ev["o"] = {"roi_src": roi4(rr.roi_src), "roi_dst": roi4(rr.roi_dst), "paste_ok": bool(rr.paste_ok),
                   "shrink": int(rr.read_shrink) if float(rr.read_shrink).is_integer() else -1}
        if rr.paste_ok and rr.read_shrink == 1 and not c.get("xcrs") and "den" not in c:
            k = (c["A"][2] // 15 + c["A"][5] // 15 + c["hs"] + c["wd"]) % len(DTYPES)
            dt = np.dtype(DTYPES[k])
            ids = 1 + np.arange(c["hs"] * c["ws"], dtype="int64").reshape(c["hs"], c["ws"])      # unique ids 1..36
            if dt == np.bool_:
                vals, nodata, enc = (ids % 2 == 1), False, (lambda a: (a.astype("int64")))
                ids = (ids % 2 == 1).astype("int64")
                nd_enc = 0
            elif dt.kind == "f":
                vals, nodata, nd_enc = ids.astype(dt), float("nan"), -1
            else:
                vals, nodata, nd_enc = ids.astype(dt), 0, 0
            out = np.full(dst.shape, nodata, dtype=dt)
            kw = {} if dt == np.bool_ else {"dst_nodata": nodata}
            if (c["hs"] + c["wd"] + k) % 3 == 0:
                # the same image as two planes of a 3-d array: every plane must be warped like the 2-d image
                out3 = rio_reproject(np.stack([vals, vals]), np.stack([out, out]), src, dst, resampling="nearest", **kw)
                if out3.shape != (2, *dst.shape) or not np.array_equal(out3[0], out3[1], equal_nan=True):
                    ev["outcome"] = "planes_of_a_3d_array_warped_differently"
                out = out3[0]
            else:
                out = rio_reproject(vals, out, src, dst, resampling="nearest", **kw)
            if out.dtype != dt:
                ev["outcome"] = f"warp_changed_dtype_to_{out.dtype}"
            o = np.where(np.isnan(out), -1, out).astype("int64") if dt.kind == "f" else out.astype("int64")
            ev.update(src=[[int(v) for v in row] for row in ids], gdal=[[int(v) for v in row] for row in o], nodata=nd_enc, dtype=str(dt))
    except Exception as ex:  # noqa: BLE001
        ev["outcome"] = type(ex).__name__
    return ev


def _validate(ctx, events):
    return ctx.validate("warp/ReprojTrace.tla", events, "ReprojTrace.cfg", meta={"prop": "C10"}, batch=2500)


def run(ctx):
    q = ctx.quick()
    res, cases = ctx.model_check("warp/ReprojGen.tla", "MC_Reproj_quick.cfg" if q else "MC_Reproj_thorough.cfg", emit=True, timeout=3000)
    cases = [c for c in cases if "A" in c]
    cases.sort(key=lambda c: json.dumps(c, sort_keys=True))
    total = len(cases)
    # candidates for the paste path (tight options, scale+translation) are all kept; the rest is sampled (soundness of paste_ok = False is C03's business)
    xc = [c for c in cases if c.get("xcrs")]
    cases = [c for c in cases if not c.get("xcrs")]
    cand = [c for c in cases if c["A"][1] == 0 and c["pad"] in ([], [0]) and c["align"] == [] and abs(c["A"][0]) == abs(c["A"][4]) and abs(c["A"][0]) % 960 == 0]
    # families probing the tolerances themselves (scales next to an integer, tiny shear, caller-supplied tolerances) are sampled on their own
    def special(c):
        return c["stol"] != [1, 1000] or c["ttol"] == [1, 5] or 0 < abs(c["A"][1]) <= 60 or 0 < abs(c["A"][3]) <= 60 or abs(c["A"][0]) % 15 != 0
    cs = set(json.dumps(c, sort_keys=True) for c in cand)
    spec = [c for c in cases if special(c) and json.dumps(c, sort_keys=True) not in cs]
    ss = set(json.dumps(c, sort_keys=True) for c in spec)
    rest = [c for c in cases if json.dumps(c, sort_keys=True) not in cs and json.dumps(c, sort_keys=True) not in ss]
    cases = ctx.subsample(cand, 9000 if q else 120000) + ctx.subsample(spec, 3000 if q else 60000) + ctx.subsample(rest, 4000 if q else 60000) + xc
    events = ctx.pmap(execute, cases)
    verdicts = _validate(ctx, events)
    for ev, v in zip(events, verdicts):
        c = ev["c"]
        op = "paste:" + ev["dtype"] if ev["dtype"] else ("paste_shrink" if ev["o"]["paste_ok"] else "no_paste")
        ctx.record(c, v, op=op, conformance=bool(ev["dtype"]), nontrivial=bool(ev["o"]["paste_ok"]),
                   sample={"case": c, "plan": ev["o"], "dtype": ev["dtype"], "gdal": ev["gdal"]})
    ctx.traces_validated = len(events)
    ctx.extra["same_crs_cases_total"] = total
    ctx.rule = ("cases = the same-CRS domain of C03; every pair on which the real code reports paste_ok with read_shrink 1 is warped with GDAL (nearest) on an image of unique ids, "
                "dtype chosen per case from uint8/int16/float32/int8/bool/uint16/float64/int32; non-trivial = paste reported; pairs with an exact half-pixel tie are skipped; distinct by input")
    ctx.assumptions = ["GDAL's nearest-neighbour warp is the named oracle; TLC also checks it against the first-principles NN model (drift) on every case",
                       "bool images carry id parity only"]
    ctx.oracle_clauses = ["rio_reproject(resampling='nearest') = GDAL"]


def replay(ctx, obj):
    ev = execute(obj["case"])
    v = _validate(ctx, [ev])[0]
    print(f"replay: {json.dumps(ev)[:1500]} verdict={v}")
    ctx.record(obj["case"], v, op=obj.get("op", ""))
    ctx.traces_validated = 1
