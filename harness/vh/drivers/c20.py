"""C20 - numeric helpers meet their documented contracts.
M+G: spec/math/MathGen.tla;  real code: odc.geo.math;  V: spec/math/MathTrace.tla."""
import json
import math

import numpy as np


class OffLattice(Exception):
    pass


def _lat(v, scale=1, tol=1e-6):
    x = float(v) * scale
    r = round(x)
    if not math.isfinite(x) or abs(x - r) > tol:
        raise OffLattice(v)
    return int(r)


FIT_GRID = {("affine", 3): [(0, 0), (4, 0), (0, 3)], ("affine", 6): (3, 2), ("bilinear", 4): (2, 2), ("bilinear", 8): (4, 2),
            ("biquad", 9): (3, 3), ("biquad", 12): (4, 3)}
CC = {"affine": ([[3, -2, 0], [2, 0, 0], [0, 0, 0]], [[-1, 4, 0], [1, 0, 0], [0, 0, 0]]),
      "bilinear": ([[3, -2, 0], [2, 1, 0], [0, 0, 0]], [[-1, 4, 0], [1, -1, 0], [0, 0, 0]]),
      "biquad": ([[3, -2, 1], [2, 1, 0], [-1, 0, 1]], [[-1, 4, 0], [1, -1, 1], [1, 1, 0]])}
PROBES = [(1, 1), (2, 0), (0, 2), (3, 2), (-1, 1), (2, 3)]


def _poly(cc, x, y):
    return sum(cc[i][j] * x ** i * y ** j for i in range(3) for j in range(3))


def execute(c):
    from affine import Affine

    from odc.geo import math as M
    from odc.geo.types import xy_

    op = c["op"]
    ev = {"c": c, "outcome": "ok", "o": {}}
    try:
        if op == "split":
            w, f = M.split_float(c["n"] / 16)
            ev["o"] = {"w": _lat(w), "f": _lat(f, 16)}
        elif op == "maybezero":
            ev["o"] = {"v": _lat(M.maybe_zero(c["n"] / 1024, c["tol"][0] / c["tol"][1]), 1024)}
        elif op == "clamp":
            ev["o"] = {"v": int(M.clamp(c["n"], c["lo"], c["hi"]))}
        elif op == "nearint":
            x = c["n"] / 1024
            tol = c["tol"][0] / c["tol"][1]
            mi = M.maybe_int(x, tol)
            ev["o"] = {"mi": {"isint": isinstance(mi, int) and not isinstance(mi, bool), "val": _lat(mi, 1024)}, "ai": bool(M.is_almost_int(x, tol))}
        elif op == "snapscale":
            v = c["n"] / 1024
            s = 1 / v if c["small"] else v
            tol = c["tol"][0] / c["tol"][1]
            r = M.snap_scale(s, tol)
            ev["o"] = {"changed": bool(r != s), "target": _lat(1 / r if c["small"] else r, 1024), "idem": bool(M.snap_scale(r, tol) == r)}
        elif op == "snapfine":
            frac = lambda e: 0.0 if e == 0 else c["sg"] * 2.0 ** -e  # noqa: E731
            n = c["n"]
            sv = n + frac(c["es"])
            if c["f"] in ("scale", "scale_inv"):
                s = 1 / sv if c["f"] == "scale_inv" else sv
                r = M.snap_scale(s) if c["spell"] == "default" else M.snap_scale(s, 1e-6)
                back = 1 / r if c["f"] == "scale_inv" else r
                ev["o"] = {"scale_is_n": bool(r == (1 / n if c["f"] == "scale_inv" else n)) or bool(back == n), "scale_unchanged": bool(r == s), "trans_is_5": True,
                           "trans_unchanged": True, "rot_zero": True, "all_unchanged": bool(r == s), "idem": bool(M.snap_scale(r) == r)}
            else:
                tv, wv = 5 + frac(c["et"]), (0.0 if c["ew"] == 0 else 2.0 ** -c["ew"])
                A = Affine(sv, wv, tv, -wv, sv, tv)
                B = M.snap_affine(A) if c["spell"] == "default" else M.snap_affine(A, ttol=1e-3, stol=1e-6, tol=1e-8)
                ev["o"] = {"scale_is_n": bool(B.a == n and B.e == n), "scale_unchanged": bool(B.a == sv and B.e == sv), "trans_is_5": bool(B.c == 5 and B.f == 5),
                           "trans_unchanged": bool(B.c == tv and B.f == tv), "rot_zero": bool(B.b == 0 and B.d == 0), "all_unchanged": bool(B == A),
                           "idem": bool(M.snap_affine(B) == B)}
        elif op == "align":
            x = c["x"]
            ev["o"] = {"dn": [int(M.align_down(x, a)) for a in range(1, 18)], "up": [int(M.align_up(x, a)) for a in range(1, 18)],
                       "p2up": int(M.align_up_pow2(x)), "p2dn": int(M.align_down_pow2(x)) if x >= 1 else 0}
        elif op == "snapgrid":
            S = 128
            x0, x1, r = c["x0"] / S, (c["x0"] + c["sp"]) / S, c["r"] / S
            off = None if c["o"] == -1 else c["o"] / S
            tx, nx = M.snap_grid(x0, x1, r, off, tol=c["tol"][0] / c["tol"][1])
            ev["o"] = {"out": [_lat(tx, S * S), int(nx)]}
        elif op == "snapaffine":
            rot = c["rot"] / 1024
            A = Affine(c["sx"] / 1024, rot, c["tx"] / 1024, -rot, c["sy"] / 1024, c["ty"] / 1024)
            tol, stol = c["tol"][0] / c["tol"][1], c["stol"][0] / c["stol"][1]
            B = M.snap_affine(A, ttol=tol, stol=stol)
            ev["o"] = {"terms": [_lat(v, 1024) for v in B[:6]], "idem": bool(M.snap_affine(B, ttol=tol, stol=stol) == B)}
        elif op == "rws":
            R = np.array(c["R"], dtype="float64").reshape(2, 2) / 65
            W = np.array([[1, c["w2"] / 2], [0, 1]])
            Sm = np.diag([c["sx2"] / 2, c["sy2"] / 2])
            g = 2.0 ** c.get("mag", 0)
            A = (R @ W @ Sm) * g
            Ro, Wo, So = M.decompose_rws(A)
            res = M.resolution_from_affine(Affine(A[0, 0], A[0, 1], 10, A[1, 0], A[1, 1], -20))
            Ra, Wa, Sa = M.decompose_rws(Affine(A[0, 0], A[0, 1], 10, A[1, 0], A[1, 1], -20))
            if not (np.allclose([Ra.a, Ra.b, Ra.d, Ra.e], Ro.ravel()) and np.allclose([Sa.a, Sa.b, Sa.d, Sa.e], So.ravel())
                    and (Ra.c, Ra.f) == (10, -20)):
                ev["outcome"] = "affine_and_ndarray_decompositions_differ"
            ev["o"] = {"R": [_lat(v, 65) for v in Ro.ravel()], "W": [_lat(v, 2) for v in Wo.ravel()], "S": [_lat(v / g, 2) for v in So.ravel()],
                       "res": [_lat(res.x / g, 2), _lat(res.y / g, 2)]}
        elif op == "affpts":
            A = Affine(*c["A"])
            X = [xy_(float(x), float(y)) for x, y in c["X"]]
            g = 2.0 ** c.get("mag", 0)
            Y = [xy_(*(g * v for v in A * p.xy)) for p in X]
            B = M.affine_from_pts(X, Y)
            ev["o"] = {"A": [_lat(v / g) for v in B[:6]]}
        elif op == "axis":
            xx = np.array([c["x0"] + (i + 0.5) * c["rx"] / 2 for i in range(c["nx"])])
            yy = np.array([c["y0"] + (j + 0.5) * c["ry"] / 2 for j in range(c["ny"])])
            from odc.geo.types import resyx_

            fb = c.get("fb", "true")
            fx = c["rx"] / 2 if (fb == "true" or c["nx"] == 1) else -3 * c["rx"] / 2
            fy = c["ry"] / 2 if (fb == "true" or c["ny"] == 1) else -3 * c["ry"] / 2
            if fb == "none" and c["nx"] > 1 and c["ny"] > 1:
                A = M.affine_from_axis(xx, yy)
            else:
                A = M.affine_from_axis(xx, yy, resyx_(fy, fx))
            ev["o"] = {"A": [_lat(v, 4) for v in A[:6]]}
        elif op == "bin1d":
            # the documented defaults (origin 0, direction +1) are left to the callee for every other case that has them
            dflt = c["dir"] == 1 and (c["sz"] + c["idx"]) % 2 == 0
            if dflt and c["o"] == 0:
                b = M.Bin1D(c["sz"] / 4)
            elif dflt:
                b = M.Bin1D(c["sz"] / 4, c["o"] / 4)
            else:
                b = M.Bin1D(c["sz"] / 4, c["o"] / 4, c["dir"])
            lo, hi = b[c["idx"]]
            b2 = M.Bin1D.from_sample_bin(c["idx"], (lo, hi)) if dflt else M.Bin1D.from_sample_bin(c["idx"], (lo, hi), c["dir"])
            pts = []
            xs = range(c["o"] - 3 * c["sz"], c["o"] + 3 * c["sz"] + 1)
            if c["sz"] > 16:
                # big bins: every bin edge over +-16 bins, its two neighbours, and a coarse sweep
                xs = sorted({c["o"] + k * c["sz"] + d for k in range(-16, 17) for d in (-1, 0, 1)} | set(range(c["o"] - 2 * c["sz"], c["o"] + 2 * c["sz"], 37)))
            for x in xs:
                i = b.bin(x / 4)
                l2, h2 = b[i]
                pts.append({"x": x, "b": int(i), "lo": _lat(l2, 4), "hi": _lat(h2, 4), "b2": int(b2.bin(x / 4))})
            ev["o"] = {"pts": pts}
        elif op == "poly":
            fg = FIT_GRID[(c["kind"], c["nn"])]
            pts = fg if isinstance(fg, list) else [(k % fg[0], k // fg[0]) for k in range(fg[0] * fg[1])]
            ccx, ccy = CC[c["kind"]]
            aa = np.array(pts, dtype="float64")
            g = 2.0 ** c.get("mag", 0)
            bb = np.array([[_poly(ccx, x, y), _poly(ccy, x, y)] for x, y in pts], dtype="float64") * g
            P = M.Poly2d.fit(aa, bb)
            T = Affine(*c["T"])
            PT = P.with_input_transform(T)
            pr = np.array(PROBES, dtype="float64")
            d1 = P(pr) / g
            d2 = np.array([PT(np.float64(x), np.float64(y)) for x, y in PROBES]) / g
            ev["o"] = {"direct": [[_lat(v, 1, 1e-5) for v in row] for row in d1], "chained": [[_lat(v, 1, 1e-5) for v in row] for row in d2]}
    except OffLattice as ex:
        ev["outcome"] = "result_off_the_exact_lattice"
        ev["o"] = {}
        ev["off"] = str(ex)[:40]
    except Exception as ex:  # noqa: BLE001
        ev["outcome"] = type(ex).__name__
        ev["o"] = {}
    return ev


def _validate(ctx, events):
    evs = [{k: v for k, v in e.items() if k != "off"} for e in events]
    return ctx.validate("math/MathTrace.tla", evs, "MathTrace.cfg", batch=3000)


def run(ctx):
    q = ctx.quick()
    res, cases = ctx.model_check("math/MathGen.tla", "MC_Math_quick.cfg" if q else "MC_Math_thorough.cfg", emit=True, timeout=2400)
    cases.sort(key=lambda c: json.dumps(c, sort_keys=True))
    events = ctx.pmap(execute, cases)
    verdicts = _validate(ctx, events)
    for ev, v in zip(events, verdicts):
        c = ev["c"]
        ctx.record(c, v, op=c["op"], conformance=c["op"] in ("split", "nearint", "snapgrid", "bin1d"), nontrivial=True,
                   sample={"case": c, "observed": ev["o"]})
    ctx.traces_validated = len(events)
    ctx.exhaustive = True
    ctx.rule = ("cases = exact-lattice domains per helper (k/16 for split_float; n +- {1,8,11,16,500..513}/1024 around integers and unit fractions with tolerances 1/100 and 1/1000; "
                "all ints -20..70 and around powers of two x alignments 1..17; grid snapping on the 1/128 lattice; rational rotations x shears x signed scales; exact affine / "
                "bilinear / biquadratic maps on 3..12 points; regular axis labels; 1-d bins); the whole domain is executed; all non-trivial; distinct by input")
    ctx.assumptions = ["a real result is accepted as a lattice value when within 1e-6 of it (1e-5 for polynomial fits); otherwise the event is rejected as off-lattice"]


def replay(ctx, obj):
    ev = execute(obj["case"])
    v = _validate(ctx, [ev])[0]
    print(f"replay: {json.dumps(ev)[:1500]} verdict={v}")
    ctx.record(obj["case"], v, op=obj.get("op", ""))
    ctx.traces_validated = 1
