"""C13 - chunked (dask) reprojection equals whole-array reprojection.
M+G: spec/warp/ChunkGen.tla (TLC: dependency lists containing the exact need make the assembled chunks equal the whole warp; a missing needed
tile makes a hole), spec/sched/TaskGraph.tla (execution orders of the real graphs);  real code: xr_reproject on dask-backed vs numpy-backed arrays;
V: spec/warp/ChunkTrace.tla."""
import json

import numpy as np

from ..core import MachineryError
from ..reproj_common import boxes
from .c16 import CRS_A, CRS_B


def _setup(c):
    import xarray as xr
    from affine import Affine

    from odc.geo.geobox import GeoBox
    from odc.geo.xr import wrap_xr

    src, dst = boxes(c)
    src = GeoBox(src.shape, src.affine, CRS_A)
    if c["crs"] == "other":
        a = dst.affine
        dst = GeoBox(dst.shape, Affine(a.a, a.b, a.c + 1024, a.d, a.e, a.f + 2048), CRS_B)
    else:
        dst = GeoBox(dst.shape, dst.affine, CRS_A)
    cfg = c["cfg"]
    dt = np.dtype(cfg["dtype"])
    nt = cfg["time"]
    planes = max(1, nt)
    ids = np.stack([1 + p * 40 + np.arange(c["hs"] * c["ws"]).reshape(c["hs"], c["ws"]) for p in range(planes)])      # <= 36 + 40 < 127
    mask = cfg.get("mask", "none")
    if mask != "none" and cfg["src_nodata"]:
        nd = cfg["src_nodata"][0]
        if mask == "top":
            ids[:, : c["hs"] // 2, :] = nd
        elif mask == "all":
            ids[:] = nd
        elif mask == "t1":
            ids[0] = nd
    data = ids.astype(dt)
    if nt == 0:
        data = data[0]
    kw = {}
    if cfg["src_nodata"]:
        kw["nodata"] = cfg["src_nodata"][0]
    if nt:
        kw["time"] = [f"2020-01-{i + 1:02d}" for i in range(nt)]
    xx = wrap_xr(data, src, **kw)
    rkw = {"resampling": "nearest"}
    if cfg["dst_nodata"]:
        rkw["dst_nodata"] = cfg["dst_nodata"][0]
    return xx, dst, ids, rkw


def _enc(arr, planes_axis):
    a = np.asarray(arr)
    if a.ndim == 2:
        a = a[None]
    if a.dtype.kind == "f":
        a = np.where(np.isnan(a), -1, a)
    return [[[int(v) for v in row] for row in plane] for plane in a]


def _reproject_like(c, xx, dst, rkw):
    """the lazy reprojection of build_dask with other keyword arguments"""
    sch = (tuple(c["sy"]), tuple(c["sx"]))
    if xx.ndim == 3:
        sch = (tuple(c["cfg"].get("tchunks") or (1,) * xx.shape[0]),) + sch
    xd = xx.chunk(dict(zip(xx.dims, sch)))
    if (c["A"][2] // 60 + c["A"][5] // 60 + len(c["sy"])) % 5 == 0:
        return xd.odc.reproject(dst, **rkw)
    return xd.odc.reproject(dst, chunks=(tuple(c["dy"]), tuple(c["dx"])), **rkw)


def build_dask(c):
    xx, dst, ids, rkw = _setup(c)
    sch = (tuple(c["sy"]), tuple(c["sx"]))
    if xx.ndim == 3:
        sch = (tuple(c["cfg"].get("tchunks") or (1,) * xx.shape[0]),) + sch
    xd = xx.chunk(dict(zip(xx.dims, sch)))
    chunks = (tuple(c["dy"]), tuple(c["dx"]))
    if (c["A"][2] // 60 + c["A"][5] // 60 + len(c["sy"])) % 5 == 0:
        yy = xd.odc.reproject(dst, **rkw)          # no chunking requested: the destination takes the source's chunk size
    else:
        yy = xd.odc.reproject(dst, chunks=chunks, **rkw)
    return xx, dst, ids, rkw, yy


def build_real(c):
    import pyproj

    from odc.geo.geobox import GeoBox
    from odc.geo.geom import BoundingBox
    from odc.geo.xr import wrap_xr

    from .c12 import RSRC

    s, d = c["pair"].split(">")
    box, n = RSRC[s]
    src = GeoBox.from_bbox(box, f"epsg:{s}", shape=(n, n), tight=True)
    tr = pyproj.Transformer.from_crs(int(s), int(d), always_xy=True)
    t = np.linspace(0, 1, 201)
    bx = np.concatenate([box[0] + (box[2] - box[0]) * t, np.full(201, box[2]), box[2] - (box[2] - box[0]) * t, np.full(201, box[0])])
    by = np.concatenate([np.full(201, box[1]), box[1] + (box[3] - box[1]) * t, np.full(201, box[3]), box[3] - (box[3] - box[1]) * t])
    fx, fy = tr.transform(bx, by)
    l, r, b, tp = float(np.min(fx)), float(np.max(fx)), float(np.min(fy)), float(np.max(fy))
    w, h = r - l, tp - b
    k = 1.0 if c["zoom"] == "same" else 1.6
    x0, y0 = l + c["dx"] / 10 * w, b + c["dy"] / 10 * h
    if d == "4326" and not (-180 <= x0 and x0 + 0.8 * w * k <= 180 and -89 <= y0 and y0 + 0.8 * h * k <= 89):
        return None
    dst = GeoBox.from_bbox(BoundingBox(x0, y0, x0 + 0.8 * w * k, y0 + 0.8 * h * k, f"epsg:{d}"), shape=(48, 48), tight=True)
    data = (1 + np.arange(n * n, dtype="float32").reshape(n, n))
    xx = wrap_xr(data, src)
    return xx, dst


def execute_real(job):
    """chunked vs whole-array reprojection between really different CRSs: robust no-hole / no-extra facts"""
    from ..sched import RealGraph, TaskFailed

    def all3(m):      # 3x3 erosion (outside the image counts as False)
        p = np.pad(m, 1, constant_values=False)
        out = np.ones_like(m)
        for dy in (0, 1, 2):
            for dx in (0, 1, 2):
                out &= p[dy:dy + m.shape[0], dx:dx + m.shape[1]]
        return out

    c, order = job
    ev = {"c": c, "cfg": {}, "order": order or [], "outcome": "ok", "same_shape": True, "holes": 0, "extra": 0, "covered": 0}
    try:
        built = build_real(c)
        if built is None:
            ev["outcome"] = "skip_destination_outside_the_valid_area_of_its_crs"
            return ev
        xx, dst = built
        ref = xx.odc.reproject(dst, resampling="nearest").values
        yy = xx.chunk(dict(zip(xx.dims, c["sch"]))).odc.reproject(dst, chunks=tuple(c["dch"]), resampling="nearest")
        if order is None:
            out = yy.compute(scheduler="synchronous").values
        elif order == "threads":
            out = yy.compute(scheduler="threads", num_workers=4).values
        else:
            out = np.block(RealGraph(yy.data).execute(order))
        ev["same_shape"] = bool(out.shape == ref.shape and out.dtype == ref.dtype)
        if ev["same_shape"]:
            rv, ov = ~np.isnan(ref), ~np.isnan(out)
            solid = all3(rv)
            empty = all3(~rv)
            ev["holes"] = int((solid & ~ov).sum())
            ev["extra"] = int((empty & ov).sum())
            ev["covered"] = int(rv.sum())
    except TaskFailed as ex:
        ev["outcome"] = type(ex.orig).__name__
    except MachineryError:
        raise
    except Exception as ex:  # noqa: BLE001
        ev["outcome"] = type(ex).__name__
    return ev


def _shape_real(c):
    from ..sched import RealGraph

    try:
        built = build_real(c)
        if built is None:
            return None
        xx, dst = built
        yy = xx.chunk(dict(zip(xx.dims, c["sch"]))).odc.reproject(dst, chunks=tuple(c["dch"]), resampling="nearest")
        return RealGraph(yy.data).shape()
    except Exception:  # noqa: BLE001
        return None


def execute(job):
    from ..sched import RealGraph, TaskFailed

    c, order = job
    if c.get("op") == "real":
        return execute_real(job)
    ev = {"c": c, "cfg": c["cfg"], "order": order or [], "outcome": "ok", "dask": [], "numpy": [], "src": []}
    try:
        if (c["A"][2] // 60 + c["A"][5] // 60 + c["hs"]) % 2 == 0:
            # history: earlier in this process the SAME rasters were lazily reprojected with another chunking of the source and destination that has the
            # same NUMBER of chunks per axis (boundaries rotated): whatever was remembered then must not leak into this call
            rot = lambda t: list(t[1:]) + list(t[:1])  # noqa: E731
            try:
                build_dask(dict(c, sy=rot(c["sy"]), sx=rot(c["sx"]), dy=rot(c["dy"]), dx=rot(c["dx"])))
            except Exception:  # noqa: BLE001 - the earlier call is history, not the case under judgement
                pass
        xx, dst, ids, rkw, yy = build_dask(c)
        ref = xx.odc.reproject(dst, **rkw)
        if order is None:
            out = yy.compute(scheduler="synchronous").values
        elif order == "threads":
            out = yy.compute(scheduler="threads", num_workers=4).values
        elif order == "together":
            # the same lazy source reprojected twice more onto the same grid with OTHER fill parameters, all three evaluated as ONE graph
            # (dask.compute(a, b, c) merges the graphs by key): every result must still be that of its own parameters
            import dask

            sib = []
            base_nd = rkw.get("dst_nodata")
            for alt in ({"dst_nodata": 113 if base_nd != 113 else 114}, {"dst_nodata": 0}):
                k2 = dict(rkw, **alt)
                sib.append((k2, _reproject_like(c, xx, dst, k2)))
            res3 = dask.compute(yy, *[y2 for _, y2 in sib], scheduler="synchronous")
            out = res3[0].values
            for (k2, _), o2 in zip(sib, res3[1:]):
                r2 = xx.odc.reproject(dst, **k2).values
                if o2.values.dtype != r2.dtype or not np.array_equal(o2.values, r2, equal_nan=True):
                    ev["outcome"] = "co_scheduled_reprojection_with_other_fill_parameters_differs_from_its_whole_array_result"
        else:
            g = RealGraph(yy.data)
            try:
                blocks = g.execute(order)
                out = np.block(blocks)
            except MachineryError:
                # the schedule was drawn for the graph of the same request built in another process; if THIS construction has other dependencies
                # (a construction that depends on what the process did before), the result is judged under the default order instead
                ev["graph_differs"] = True
                out = yy.compute(scheduler="synchronous").values
        if ev["outcome"] != "ok":
            pass
        elif out.dtype != ref.dtype or out.shape != ref.shape:
            ev["outcome"] = "dtype_or_shape_differs_between_chunked_and_whole"
        ev.update(dask=_enc(out, 0), numpy=_enc(ref.values, 0), src=[[[int(v) for v in row] for row in plane] for plane in ids])
        if yy.odc.geobox != dst or ref.odc.geobox != dst:
            ev["outcome"] = "result_geobox_is_not_the_requested_one"
    except TaskFailed as ex:
        ev["outcome"] = type(ex.orig).__name__
    except MachineryError:
        raise
    except Exception as ex:  # noqa: BLE001
        ev["outcome"] = type(ex).__name__
    return ev


def _shape_of(c):
    from ..sched import RealGraph

    try:
        yy = build_dask(c)[4]
        g = RealGraph(yy.data)
        return g.shape()
    except Exception:  # noqa: BLE001
        return None


def _shape_any(c):
    return _shape_real(c) if c.get("op") == "real" else _shape_of(c)


def _validate(ctx, events):
    return ctx.validate("warp/ChunkTrace.tla", events, "ChunkTrace.cfg", batch=700)


def run(ctx):
    from ..sched import tlc_orders

    q = ctx.quick()
    res, cases = ctx.model_check("warp/ChunkGen.tla", "MC_Chunk_quick.cfg" if q else "MC_Chunk_thorough.cfg", emit=True, timeout=3000)
    cases.sort(key=lambda c: json.dumps(c, sort_keys=True))
    total = len(cases)
    rcases = [c for c in cases if c.get("op") == "real"]
    def one_grid(c):
        return c.get("op") != "real" and c["A"][0] == 960 and c["A"][4] == 960 and c["A"][1] == 0 and c["sy"] == c["dy"] and c["sx"] == c["dx"] and c["crs"] == "same"
    same = [c for c in cases if one_grid(c)]            # one grid, one chunking: all kept
    cases = ctx.subsample([c for c in cases if c.get("op") != "real" and not one_grid(c)], 900 if q else 20000) + same + ctx.subsample(rcases, 120 if q else 10 ** 6)
    # execution orders of the REAL graphs, chosen by TLC (TaskGraph.tla)
    shapes = ctx.pmap(_shape_any, cases)
    idx, graphs = {}, []
    for s in shapes:
        if s is not None and s not in idx:
            idx[s] = len(graphs)
            graphs.append({"n": s[0], "deps": [list(x) for x in s[1]]})
    per = 1 if q else 3
    orders, st = tlc_orders(graphs, ctx.scratch, per_graph=per, seed=ctx.seed, exhaustive_upto=0, timeout=1200)
    ctx.states += st["distinct"]
    ctx.transitions += st["generated"]
    ctx.m_runs.append({"model": "TaskGraph (schedules of the real reprojection graphs)", "graphs": len(graphs), "distinct_states": st["distinct"],
                       "states_generated": st["generated"], "schedules": sum(len(v) for v in orders.values())})
    jobs = []
    for c, s in zip(cases, shapes):
        jobs.append((c, None))
        if s is not None:
            for o in orders[idx[s]][:per]:
                jobs.append((c, o))
        if len(jobs) % 7 == 0:
            jobs.append((c, "threads"))
        if len(jobs) % 5 == 0 and c.get("op") != "real":
            jobs.append((c, "together"))
    events = ctx.pmap(execute, jobs)
    verdicts = _validate(ctx, events)
    for ev, v in zip(events, verdicts):
        c = ev["c"]
        kind = ev["order"] if ev["order"] in ("threads", "together") else ("tlc-order" if ev["order"] else "default-order")
        case = {"c": c, "order": ev["order"]}
        if c.get("op") == "real":
            ctx.record(case, v, op=f"real-crs:{c['pair']}/{kind}", nontrivial=ev["covered"] > 0,
                       sample={"case": c, "order": ev["order"][:12] if isinstance(ev["order"], list) else ev["order"], "covered": ev["covered"], "holes": ev["holes"], "extra": ev["extra"]})
            continue
        ctx.record(case, v, op=f"{c['cfg']['dtype']}/{c['crs']}/{kind}", conformance=True,
                   nontrivial=any(any(any(v2 > 0 for v2 in row) for row in pl) for pl in ev["numpy"]) if ev["numpy"] else False,
                   sample={"case": c, "order": ev["order"][:12] if isinstance(ev["order"], list) else ev["order"], "dask": ev["dask"][:1]})
    ctx.traces_validated = len(events)
    ctx.extra["domain_cases_total"] = total
    ctx.rule = ("cases = same-CRS pairs (scales {1,-1,2,1/2,3/2}, shifts with residues {0,+-1/16,1/4}, 90deg rotation, overlapping to disjoint) and the same pairs across the "
                "exact-translation CRS x 3 source/destination chunkings (incl. 1-pixel chunks) x 17 dtype/nodata/time-axis configurations (both nodata values set and different, non-dividing time chunks, parts of the source or a whole time step holding the source nodata value, float data with destination nodata 0), each computed in memory, with dask's default order, "
                "with TLC-chosen task orders of the exported graph, and on a thread pool; plus 4 really different CRS pairs (curved footprints; placements, chunkings) where the chunked result must have no "
                "hole and no extra data relative to the whole-array result (3x3-robust); non-trivial = some destination pixel is covered; distinct by (case, order)")
    ctx.assumptions = ["pairs with a destination pixel centre exactly on a source pixel boundary (ties) are not generated",
                       "cross-CRS through the exact tmerc family, so the first-principles nearest-neighbour model applies there as well"]
    ctx.oracle_clauses = ["in-memory xr_reproject (GDAL) is the reference the property names"]


def replay(ctx, obj):
    c = obj["case"]
    ev = execute((c["c"], c["order"] or None))
    v = _validate(ctx, [ev])[0]
    print(f"replay: {json.dumps(ev)[:1500]} verdict={v}")
    ctx.record(c, v, op=obj.get("op", ""))
    ctx.traces_validated = 1
