"""C15 - GeoTIFF/COG written through GDAL reads back identical.
M+G: spec/cog/RioCog.tla (overwrite guard state machine), spec/cog/RioGen.tla (option table: layouts, dtypes, block sizes, overview level lists, routes, destinations,
pre-existing files);  real code: write_cog / to_cog / write_cog_layers;  V: spec/cog/RioTrace.tla (layout / block / overview / guard predicates decided by TLC; read-back
fidelity through rasterio + tifffile oracle booleans)."""
import hashlib
import io
import json
import os
import shutil
import tempfile

import numpy as np


PROJ_CRS = {"utm55s_grs80": "+proj=utm +zone=55 +south +ellps=GRS80 +units=m +no_defs",
            "tmerc_airy": "+proj=tmerc +lat_0=49 +lon_0=-2 +k=0.9996012717 +x_0=400000 +y_0=-100000 +ellps=airy +units=m +no_defs",
            "laea_custom": "+proj=laea +lat_0=47 +lon_0=12 +x_0=4321000 +y_0=3210000 +ellps=GRS80 +units=m +no_defs"}
# what a caller may have configured around the call (a usual cloud-access setting): the written file must be the same
AMBIENT = [{}, {"GDAL_DISABLE_READDIR_ON_OPEN": "EMPTY_DIR"}]


def _make(c):
    import xarray as xr

    from odc.geo.geobox import GeoBox
    from odc.geo.xr import wrap_xr, xr_coords

    h, w, ns = c["h"], c["w"], c["ns"]
    crs = c.get("crs", "32633")
    if crs == "4326":
        gb = GeoBox.from_bbox((14.0, 50.0 - h * 0.001, 14.0 + w * 0.001, 50.0), "epsg:4326", resolution=0.001)
    elif crs in PROJ_CRS:
        gb = GeoBox.from_bbox((500000, 6000000 - h * 10, 500000 + w * 10, 6000000), PROJ_CRS[crs], resolution=10)
    else:
        gb = GeoBox.from_bbox((500000, 6000000 - h * 10, 500000 + w * 10, 6000000), f"epsg:{crs}", resolution=10)
    if c["rot"]:
        gb = gb.rotate(10)
    dt = np.dtype(c["dtype"])
    rng = np.random.default_rng(h + 7 * w)
    n = 1 if c["layout"] == "YX" else ns
    base = (rng.integers(1, 100, size=(n, h, w)) + 10 * np.arange(n)[:, None, None]).astype(dt) if dt.kind != "f" else (rng.random((n, h, w)) * 100 + 1000 * np.arange(n)[:, None, None]).astype(dt)
    if c.get("pat", "random") == "uniform_blocks" or (c.get("pat") is None and (h + w + ns) % 3 == 0):
        b = 32
        base[:, :b, :b] = 0                      # a whole block of valid zeros (all bands)
        base[:, b:2 * b, b:2 * b] = 0
        base[:, 2 * b:3 * b, :b] = c["nodata"][0] if c["nodata"] else 55
        base[:, :b, b:2 * b] = 9
    attrs = {"nodata": c["nodata"][0]} if c["nodata"] else {}
    if c["layout"] == "YX":
        xx = wrap_xr(base[0], gb, **attrs)
    elif c["layout"] == "YXS":
        xx = wrap_xr(np.moveaxis(base, 0, -1), gb, **attrs)
    else:
        xx = xr.DataArray(base, dims=("band", *gb.dimensions), coords=xr_coords(gb), attrs=attrs)
    return xx, base, gb


SHARED_IC = {"compress": "zstd", "zstd_level": 1}


def _earlier_write_with_the_same_options():
    """history: the caller wrote ANOTHER image (its own nodata, externally supplied overviews) with the same options dict just before"""
    from odc.geo.cog import write_cog_layers
    from odc.geo.geobox import GeoBox
    from odc.geo.xr import xr_zeros

    yy = xr_zeros(GeoBox.from_bbox((0, 0, 640, 640), "epsg:32633", resolution=10), dtype="int16") + 5
    yy.attrs["nodata"] = -999
    ov = yy[::2, ::2]
    write_cog_layers([yy, ov], ":mem:", intermediate_compression=SHARED_IC, nodata=-999, blocksize=32)


def execute(c):
    import rasterio
    import tifffile

    from odc.geo.cog import to_cog, write_cog, write_cog_layers

    ev = {"c": c, "outcome": "ok", "guard": {"pre": c["pre"], "overwrite": c["overwrite"], "raised_ioerror": False, "content": "absent"},
          "r": {"count": 0, "dtype_ok": False, "pixels_ok": False, "band_order_ok": False, "transform_ok": False, "crs_ok": False, "nodata_ok": False, "tiled": False,
                "block": [0, 0], "ovr": []}}
    td = tempfile.mkdtemp(prefix="vh_rio_")
    try:
        xx, base, gb = _make(c)
        dst = os.path.join(td, "out.tif")
        old = b"OLD CONTENT " * 10
        if c["pre"] == "old":
            open(dst, "wb").write(old)
        kw = {}
        if c["block"]:
            kw["blocksize"] = c["block"]
        if c["levels"] != "default" and c["route"] != "layers":
            kw["overview_levels"] = {"none": [], "l2": [2], "l24": [2, 4]}[c["levels"]]
        if c["windowed"]:
            kw["use_windowed_writes"] = True
        nd_kw = None
        if c["nodata"] and c["route"] != "layers" and (c["h"] + c["w"] + c["ns"] + len(c["levels"])) % 3 == 0:
            # the array carries one nodata value in its attributes and the caller names ANOTHER one explicitly: the explicit one is the file's
            nd_kw = c["nodata"][0] - 3 if np.dtype(c["dtype"]).kind != "u" else c["nodata"][0] + 3
            kw["nodata"] = nd_kw
        if c["icomp"]:
            # the intermediate compression may be switched on, named, or given as creation options
            # (history: the creation options are ONE dict object the caller reuses for every file it writes in this process)
            kw["intermediate_compression"] = [True, "deflate", SHARED_IC][(c["h"] + c["w"] + c["ns"] + len(c["dtype"])) % 3]
        data = None
        try:
            import warnings
            import contextlib
            amb = AMBIENT[(c["h"] + c["w"] + len(c["levels"]) + len(c["route"]) + (1 if c["dest"] == "mem" else 0)) % len(AMBIENT)]
            with warnings.catch_warnings(), (rasterio.Env(**amb) if amb else contextlib.nullcontext()):
                warnings.simplefilter("ignore")
                target = ":mem:" if c["dest"] == "mem" else dst
                if kw.get("intermediate_compression") is SHARED_IC:
                    _earlier_write_with_the_same_options()
                if c["route"] == "layers":
                    sd = xx.odc.spatial_dims
                    ovs = [xx.isel({sd[0]: slice(None, None, k), sd[1]: slice(None, None, k)}) for k in (2, 4)]
                    ovs = [o.odc.assign_crs(xx.odc.crs) if o.odc.geobox is None else o for o in ovs]
                    if c["overwrite"] or c["pre"] == "old":
                        out = write_cog(xx, target, overviews=ovs, overwrite=c["overwrite"], **kw)
                    else:
                        out = write_cog_layers([xx, *ovs], target, **kw)
                elif c["route"] == "to_cog":
                    out = to_cog(xx, **kw)
                else:
                    out = write_cog(xx, target, overwrite=c["overwrite"], **kw)
                data = out if isinstance(out, bytes) else None
        except IOError as ex:
            if c["pre"] == "old" and not c["overwrite"] and "exists" in str(ex).lower():
                ev["guard"]["raised_ioerror"] = True
            else:
                ev["outcome"] = type(ex).__name__
        except Exception as ex:  # noqa: BLE001
            ev["outcome"] = type(ex).__name__
        if os.path.exists(dst):
            cur = open(dst, "rb").read()
            ev["guard"]["content"] = "old" if cur == old else "new"
            if data is None and cur != old:
                data = cur
        if data is None or ev["outcome"] != "ok":
            return ev
        r = ev["r"]
        with rasterio.open(io.BytesIO(data)) as f:
            got = f.read()
            r["count"] = int(f.count)
            r["dtype_ok"] = bool(got.dtype == base.dtype)
            r["pixels_ok"] = bool(got.shape == base.shape and np.array_equal(np.sort(got.reshape(got.shape[0], -1), axis=0), np.sort(base.reshape(base.shape[0], -1), axis=0), equal_nan=True))
            r["band_order_ok"] = bool(got.shape == base.shape and np.array_equal(got, base, equal_nan=True))
            r["transform_ok"] = bool(all(abs(a - b) <= 1e-9 * max(1.0, abs(b)) for a, b in zip(f.transform[:6], gb.affine[:6])))
            cr = c.get("crs", "32633")
            if cr in PROJ_CRS:
                import pyproj
                r["crs_ok"] = bool(f.crs is not None and pyproj.CRS.from_wkt(f.crs.to_wkt()) == pyproj.CRS(PROJ_CRS[cr]))
            else:
                r["crs_ok"] = bool(f.crs is not None and f.crs.to_epsg() == int(cr))
            nd = (nd_kw if nd_kw is not None else c["nodata"][0]) if c["nodata"] else None
            r["nodata_ok"] = bool((f.nodata is None and nd is None) or (f.nodata is not None and nd is not None and float(f.nodata) == float(nd)))
        with tifffile.TiffFile(io.BytesIO(data)) as tf:
            p0 = tf.pages[0]
            r["tiled"] = bool(p0.is_tiled)
            r["block"] = [int(p0.tilelength), int(p0.tilewidth)] if p0.is_tiled else [0, 0]
            r["ovr"] = [[int(p.imagelength), int(p.imagewidth)] for p in list(tf.pages)[1:] if p.is_reduced]
    finally:
        shutil.rmtree(td, ignore_errors=True)
    return ev


def _validate(ctx, events):
    return ctx.validate("cog/RioTrace.tla", events, "RioTrace.cfg", batch=400)


def run(ctx):
    ctx.model_check("cog/RioCog.tla", "RioCog.cfg", timeout=300)
    res, cases = ctx.model_check("cog/RioGen.tla", "RioGen.cfg", emit=True, timeout=900)
    cases.sort(key=lambda c: json.dumps(c, sort_keys=True))
    events = ctx.pmap(execute, cases, procs=8)
    verdicts = _validate(ctx, events)
    for ev, v in zip(events, verdicts):
        c = ev["c"]
        ctx.record(c, v, op=f"{c['route']}/{c['dest']}/{c['layout']}/{c['dtype']}", conformance=True, nontrivial=True, sample={"case": c, "read_back": ev["r"], "guard": ev["guard"]})
    ctx.traces_validated = len(events)
    ctx.exhaustive = True
    ctx.rule = ("cases = 5 image shapes (below and above 512 px, smaller than a block) x block sizes {default 512, 32, 64, 100 (not a multiple of 16)} x overview level lists {default, [], [2], [2,4]} x "
                "{write_cog to file, to memory, to_cog} with band layout / dtype / nodata / rotated transform / windowed writes / intermediate compression drawn per case from 7 variants; externally "
                "supplied overviews through write_cog(overviews=) / write_cog_layers; pre-existing destination x overwrite; the whole table is executed; all non-trivial; distinct by input")
    ctx.assumptions = ["read-back fidelity (pixels, band order, dtype, transform, CRS, nodata) is computed by the harness with rasterio and enters the trace as booleans; tiling and overview shapes are read from the TIFF tags with tifffile"]
    ctx.oracle_clauses = ["pixel / band-order / dtype / transform / CRS / nodata equality via rasterio (GDAL)"]


def replay(ctx, obj):
    ev = execute(obj["case"])
    v = _validate(ctx, [ev])[0]
    print(f"replay: {json.dumps(ev)[:1500]} verdict={v}")
    ctx.record(obj["case"], v, op=obj.get("op", ""))
    ctx.traces_validated = 1
