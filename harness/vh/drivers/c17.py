"""C17 - ROI (slice) helpers agree with array slicing semantics.
M+G: spec/roi/RoiGen.tla (TLC checks the transcription against the first-principles contract on the
whole case domain and emits the cases);  real code: odc.geo.roi;  V: spec/roi/RoiTrace.tla."""
import json
import zlib

import numpy as np

from ..core import idx, outcome_of

HUGE = [2.0**31 + 0.5, 1e12, 3e18, 1e19, 1e300]


def _sl(r):
    if "int" in r:
        return r["int"]
    g = lambda o: o[0] if o else None  # noqa: E731
    return slice(g(r["start"]), g(r["stop"]), g(r["step"]))


def _enc(s):
    if isinstance(s, (int, np.integer)):
        return {"int": idx(s)}
    o = lambda v: [] if v is None else [idx(v)]  # noqa: E731
    return {"start": o(s.start), "stop": o(s.stop), "step": o(s.step)}


def _coord(c, salt):
    k, v = c
    if k == "f":
        return v / 2
    if k == "nan":
        return float("nan")
    if k == "pinf":
        return float("inf")
    if k == "ninf":
        return float("-inf")
    h = HUGE[salt % len(HUGE)]
    return h if k == "hugepos" else -h


def execute(case):
    from odc.geo import roi as R

    op = case["op"]
    salt = zlib.crc32(json.dumps(case, sort_keys=True).encode())

    def call():
        if op == "pts":
            xy = np.array([[_coord(p["x"], salt), _coord(p["y"], salt >> 3)] for p in case["pts"]], dtype="float64").reshape(-1, 2)
            align = case["align"][0] if case["align"] else None
            shape = (case["ny"], case["nx"])
            o = R.roi_from_points(xy, shape, padding=case["pad"], align=align)
            fin = xy[np.isfinite(xy).all(axis=1)]
            ofin = R.roi_from_points(fin, shape, padding=case["pad"], align=align)
            return {"o": [_enc(s) for s in o], "ofin": [_enc(s) for s in ofin]}
        axes = case["axes"]
        scalar = len(axes) == 1
        if op in ("int3", "inter"):
            a = tuple(_sl(x["a"]) for x in axes)
            b = tuple(_sl(x["b"]) for x in axes)
            if op == "inter":
                r = R.roi_intersect(a[0], b[0]) if scalar else R.roi_intersect(a, b)
                return [_enc(r)] if scalar else [_enc(s) for s in r]
            if scalar:
                return [[_enc(s) for s in R.slice_intersect3(a[0], b[0])]]
            aa, bb, cc = R.roi_intersect3(a, b)
            return [[_enc(x), _enc(y), _enc(z)] for x, y, z in zip(aa, bb, cc)]
        roi = tuple(_sl(x["s"]) for x in axes)
        shape = tuple(x["n"] for x in axes)
        if op == "norm":
            r = R.roi_normalise(roi[0], shape[0]) if scalar else R.roi_normalise(roi, shape)
            return [_enc(r)] if scalar else [_enc(s) for s in r]
        if op == "shape":
            return [idx(v) for v in R.roi_shape(roi[0] if scalar else roi)]
        if op == "empty":
            return bool(R.roi_is_empty(roi[0] if scalar else roi))
        if op == "full":
            return bool(R.roi_is_full(roi[0], shape[0]) if scalar else R.roi_is_full(roi, shape))
        if op == "center":
            c = R.roi_center(roi[0] if scalar else roi)
            c = (c,) if scalar else c
            return [int(round(v * 2)) if abs(v * 2 - round(v * 2)) < 1e-9 else -(10**6) for v in c]
        if op == "pad":
            r = R.roi_pad(roi[0], case["pad"], shape[0]) if scalar else R.roi_pad(roi, case["pad"], shape)
            return [_enc(r)] if scalar else [_enc(s) for s in r]
        if op == "scale":
            k = case["k"]
            roi2 = (roi[0], slice(0, 1)) if scalar else roi
            shp2 = (shape[0], 1) if scalar else shape
            down = R.scaled_down_roi(roi2, k)
            up = R.scaled_up_roi(down, k)
            upc = R.scaled_up_roi(down, k, shp2)
            dsh = R.scaled_down_shape(shp2, k)
            return [{"down": _enc(down[i]), "up": _enc(up[i]), "upc": _enc(upc[i]), "dshape": idx(dsh[i])}
                    for i in range(len(axes))]
        raise KeyError(op)

    oc, val = outcome_of(call)
    return {"c": case, "outcome": oc, "out": val if oc == "ok" else []}


def _validate(ctx, events):
    return ctx.validate("roi/RoiTrace.tla", events, "RoiTrace.cfg", batch=3000)


def run(ctx):
    cfg = "MC_Roi_quick.cfg" if ctx.quick() else "MC_Roi_thorough.cfg"
    res, cases = ctx.model_check("roi/RoiGen.tla", cfg, emit=True, timeout=1500)
    # the code as found (no clamping below -n) must still be refuted by the model
    ctx.model_check("roi/RoiGen.tla", "MC_Roi_asfound.cfg", expect_violation="ModelOK", timeout=600,
                    label="RoiGen/asfound(ClampNeg=FALSE)")
    cases.sort(key=lambda c: json.dumps(c, sort_keys=True))
    total = len(cases)
    if ctx.quick():
        cases = ctx.subsample_by(cases, lambda c: (c["op"], len(c.get("axes", []))), 1400)
    events = ctx.pmap(execute, cases)
    verdicts = _validate(ctx, events)
    for ev, v in zip(events, verdicts):
        c = ev["c"]
        nd = len(c.get("axes", [])) or 2
        ctx.record(c, v, op=f"{c['op']}/{nd}d", conformance=True,
                   sample={"case": c, "outcome": ev["outcome"], "out": ev["out"]})
    ctx.traces_validated = len(events)
    ctx.exhaustive = len(cases) == total
    ctx.rule = ("cases = every state of RoiGen's domain (slices with None/negative/positive offsets, ints, pairs, pads, scales, "
                "1-3 axes, point sets with NaN/inf/huge outliers); quick tier validates a VERIF_SEED-chosen subset on the real code, "
                "thorough all of them; non-trivial = inside the part of the domain the property constrains (verdict not 'skip'); "
                "distinct by input")
    ctx.extra["domain_cases_total"] = total
    ctx.assumptions = ["Python/numpy slicing semantics are those of spec/lib/PySlice.tla (slice.indices)",
                       "huge outliers are represented by +-{2^31+0.5, 1e12, 3e18, 1e19, 1e300}"]


def replay(ctx, obj):
    ev = execute(obj["case"])
    v = _validate(ctx, [ev])[0]
    print(f"replay: outcome={ev['outcome']} out={ev['out']} verdict={v}")
    ctx.record(obj["case"], v, op=obj.get("op", ""), sample=ev)
    ctx.traces_validated = 1
