"""C03 - reprojection planning never drops a needed pixel.
M+G: spec/warp/ReprojGen.tla (same-CRS pairs: shifts with sub-pixel residues, integer/fractional scales, mirroring, rotation,
all placements, padding/align), spec/warp/CrossGen.tla (different CRSs);  real code: compute_reproject_roi;
V: spec/warp/ReprojTrace.tla, spec/warp/CrossTrace.tla."""
import json

from ..core import idx
from ..reproj_common import D, OffLattice, lat, plan, roi4


def execute(c):
    if "ns" in c:
        from odc.geo.overlap import compute_axis_overlap
        try:
            ss, dd = compute_axis_overlap(c["ns"], c["nd"], c["s"] / D, c["t"] / D)
            return {"c": c, "outcome": "ok", "o": [idx(ss.start), idx(ss.stop), idx(dd.start), idx(dd.stop)]}
        except Exception as ex:  # noqa: BLE001
            return {"c": c, "outcome": type(ex).__name__, "o": [0, 0, 0, 0]}
    ev = {"c": c, "outcome": "ok", "o": {"roi_src": [0, 0, 0, 0], "roi_dst": [0, 0, 0, 0], "paste_ok": False, "shrink": 1, "scale": 0}}
    try:
        _, _, rr = plan(c)
        if "den" in c or c.get("xcrs"):
            ev["o"] = {"roi_src": roi4(rr.roi_src), "roi_dst": roi4(rr.roi_dst), "paste_ok": bool(rr.paste_ok),
                       "shrink": int(rr.read_shrink) if float(rr.read_shrink).is_integer() else -1, "scale": 0}
            return ev
        ev["o"] = {"roi_src": roi4(rr.roi_src), "roi_dst": roi4(rr.roi_dst), "paste_ok": bool(rr.paste_ok),
                   "shrink": int(rr.read_shrink) if float(rr.read_shrink).is_integer() else -1,
                   # the SQUARE of the scale is on the lattice for every rational map (a sheared map's scale itself is a square root)
                   "scale": lat((rr.scale * D) ** 2, 1, 1e-3 * max(1.0, (rr.scale * D)))}
        if abs(min(rr.scale2.xy) - rr.scale) > 1e-9:
            ev["outcome"] = "scale_is_not_min_of_scale2"
    except OffLattice:
        ev["outcome"] = "scale_off_the_exact_lattice"
    except Exception as ex:  # noqa: BLE001
        ev["outcome"] = type(ex).__name__
    return ev


def _validate(ctx, events):
    return ctx.validate("warp/ReprojTrace.tla", events, "ReprojTrace.cfg", meta={"prop": "C03"}, batch=2500)


def run(ctx):
    q = ctx.quick()
    res, cases = ctx.model_check("warp/ReprojGen.tla", "MC_Reproj_quick.cfg" if q else "MC_Reproj_thorough.cfg", emit=True, timeout=3000)
    cases.sort(key=lambda c: json.dumps(c, sort_keys=True))
    total = len(cases)
    ax = [c for c in cases if "ns" in c]
    big = [c for c in cases if "den" in c or c.get("xcrs")]
    cases = [c for c in cases if "den" not in c and not c.get("xcrs")]
    rot = [c for c in cases if "A" in c and c["A"][1] != 0]
    st = [c for c in cases if "A" in c and c["A"][1] == 0]
    cases = ctx.subsample(st, 12000 if q else 250000) + ctx.subsample(rot, 1500 if q else 4000) + ctx.subsample(ax, 6000 if q else 10 ** 6) + big
    events = ctx.pmap(execute, cases)
    verdicts = _validate(ctx, events)
    for ev, v in zip(events, verdicts):
        c = ev["c"]
        if "ns" in c:
            ctx.record(c, v, op="axis_overlap", conformance=True, nontrivial=ev["o"][3] > ev["o"][2], sample={"case": c, "out": ev["o"]})
            continue
        ctx.record(c, v, op="large-rasters" if "den" in c else "rotated" if c["A"][1] else "scale+translation", conformance=True,
                   nontrivial=ev["o"]["roi_dst"][1] > ev["o"]["roi_dst"][0], sample={"case": c, "plan": ev["o"]})
    ctx.traces_validated = len(events)
    ctx.extra["same_crs_cases_total"] = total
    from . import c03_cross
    c03_cross.run_cross(ctx)
    ctx.rule = ("same-CRS cases = 11 scales (1,2,3,1/2,1/3,3/2,2/3,65/64, mirrored) x shifts k + {0,+-1/64,+-1/32,+-1/16,+-1/4,1/2} x second-axis variants x swapped axes x "
                "4 shape pairs x 5 padding/align options x 2 tolerances, plus 90deg / 3-4-5 rotations at scale 1 and 2; cross-CRS cases = small rasters in 6 CRS pairs x placements; "
                "non-trivial = the planned destination region is not empty; distinct by input")
    ctx.assumptions = ["for different CRSs the destination-to-source transform is tabulated with a fresh pyproj Transformer (environment table); TLC decides the plan given the table, not PROJ"]
    ctx.oracle_clauses = ["cross-CRS: pixel-to-pixel transform table from pyproj"]


def replay(ctx, obj):
    c = obj["case"]
    if "pair" in c:
        from . import c03_cross
        return c03_cross.replay(ctx, obj)
    ev = execute(c)
    v = _validate(ctx, [ev])[0]
    print(f"replay: {json.dumps(ev)[:1200]} verdict={v}")
    ctx.record(c, v, op=obj.get("op", ""))
    ctx.traces_validated = 1
