"""C08 - GeoBox built from a region covers it and is snapped as requested.
M+G: spec/geobox/FromBBoxGen.tla;  real code: GeoBox.from_bbox / from_geopolygon / zoom_to(resolution=);
V: spec/geobox/FromBBoxTrace.tla."""
import json

from .c16 import CRS_A, CRS_B

S = 128


class OffLattice(Exception):
    pass


def _lat(v, scale, tol=1e-6):
    x = float(v) * scale
    r = round(x)
    if abs(x - r) > tol:
        raise OffLattice(v)
    return int(r)


ANCHOR = {"edge": "edge", "center": "center", "quarter": 0.25, "floating": "floating"}


# regions in real CRSs: (source box l, b, r, t), base resolution in the requested CRS
REGION = {"4326>3035": ((5.0, 40.0, 25.0, 60.0), 20000.0), "4326>32633": ((12.0, 45.0, 18.0, 55.0), 5000.0), "3577>4326": ((-1500000.0, -4000000.0, 1000000.0, -1500000.0), 0.25),
          "3035>4326": ((3000000.0, 2000000.0, 5000000.0, 4000000.0), 0.25), "32633>3857": ((300000.0, 5000000.0, 700000.0, 6500000.0), 10000.0),
          "3035>4326edge": ((13.996, 50.003, 15.004, 50.997), 0.01), "32633>4326edge": ((14.004, 49.996, 14.997, 50.503), 0.004)}


def execute_region(c):
    """from_geopolygon(region in another, really different CRS): environment table = the region's vertices through fresh pyproj"""
    import math

    import pyproj
    import shapely.geometry as sg

    from odc.geo import geom as G
    from odc.geo.crs import CRS
    from odc.geo.geobox import GeoBox

    ev = {"c": c, "outcome": "ok", "crs_ok": True, "pos": [], "o": {"ny": 0, "nx": 0, "edge": [0, 0], "axis_aligned": True, "res_ok": True}}
    try:
        edge = c["pair"].endswith("edge")
        s, d = c["pair"][:-4].split(">") if edge else c["pair"].split(">")
        (l, b, r, t), res0 = REGION[c["pair"]]
        mx, my = (l + r) / 2, (b + t) / 2
        pts = {"diamond": [(mx, b), (r, my), (mx, t), (l, my)], "triangle": [(l, b), (r, b + (t - b) / 4), (mx, t)], "line": [(l, my), (mx, t), (r, b)],
               "box": [(l, b), (r, b), (r, t), (l, t)], "multipoint": [(l, my), (mx, b), (r, t)],
               "bowtie": [(l, b), (r, t), (r, b), (l, t)]}[c["geo"]]     # a ring that crosses itself (digitised in the wrong vertex order): still a region with an extent
        if edge:
            # the region's corners are chosen in the TARGET CRS, a few thousandths of a unit inside / outside whole numbers, and handed over in the source CRS
            inv = pyproj.Transformer.from_crs(int(d), int(s), always_xy=True)
            pts = [inv.transform(x, y) for x, y in pts]
        shp = {"line": sg.LineString, "multipoint": sg.MultiPoint}.get(c["geo"], sg.Polygon)(pts)
        res = res0 * c["resk"]
        anchor = {"edge": "edge", "center": "center", "floating": "floating"}[c["anchor"]]
        gb = GeoBox.from_geopolygon(G.Geometry(shp, f"epsg:{s}"), resolution=res, crs=f"epsg:{d}", tight=c["tight"], anchor=anchor, tol=c["tol"][0] / c["tol"][1])
        A = gb.affine
        ev["crs_ok"] = bool(gb.crs == CRS(f"epsg:{d}"))
        o = ev["o"]
        o["ny"], o["nx"] = int(gb.shape[0]), int(gb.shape[1])
        o["axis_aligned"] = bool(A.b == 0 and A.d == 0)
        o["res_ok"] = bool(abs(A.a - res) <= 1e-9 * res and abs(A.e + res) <= 1e-9 * res)
        o["edge"] = [int(round(((A.c / abs(A.a)) % 1.0) * 1024)) % 1024, int(round(((A.f / abs(A.e)) % 1.0) * 1024)) % 1024]
        tr = pyproj.Transformer.from_crs(int(s), int(d), always_xy=True)
        for x, y in pts:
            wx, wy = tr.transform(x, y)
            ev["pos"].append([int(math.floor((wx - A.c) / A.a * 1024)), int(math.floor((wy - A.f) / A.e * 1024))])
    except Exception as ex:  # noqa: BLE001
        ev["outcome"] = type(ex).__name__
    return ev


def execute(c):
    from affine import Affine

    from odc.geo import geom as G
    from odc.geo.geobox import GeoBox
    from odc.geo.types import resxy_, xy_

    if c["mode"] == "region":
        return execute_region(c)
    ev = {"c": c, "outcome": "ok", "crs_ok": True, "o": {}}
    try:
        mode = c["mode"]
        if c["route"] == "polygon_other_crs" and c.get("shift"):
            # the exact-translation CRS family is only exact near its central meridian: no far shifts on this route
            c = dict(c, shift=0)
            ev["c"] = c
        an = c.get("anchor", "edge")
        anchor = ANCHOR.get(an) if an in ANCHOR else (xy_(0.0, 0.5) if an == "xy" else xy_(0.75, 0.25))
        tol = c["tol"][0] / c["tol"][1]
        hsh = abs(c.get("l", 0)) + 3 * abs(c.get("b", 0)) + c.get("spx", c.get("nx", 0)) + (1 if c["tight"] else 0)
        if an in ("edge", "center", "floating") and hsh % 2 == 1:
            # the same anchors given as enumeration members instead of strings
            from odc.geo.types import AnchorEnum
            anchor = {"edge": AnchorEnum.EDGE, "center": AnchorEnum.CENTER, "floating": AnchorEnum.FLOATING}[an]
        kw = dict(tight=c["tight"], anchor=anchor, tol=tol)
        if mode == "res":
            rx, ry = c["rx"] / S, c["ry"] / S
            l, b, r, t = c["l"] / S, c["b"] / S, (c["l"] + c["spx"]) / S, (c["b"] + c["spy"]) / S
            kw["resolution"] = resxy_(rx, ry)
            # whole-pixel shift family: k * 2^20 pixels along both axes (exact in doubles)
            shx, shy = c["shift"] * abs(rx) * 2 ** 20, c["shift"] * abs(ry) * 2 ** 20
        elif mode == "shape":
            l, b = c["l"] / S, c["b"] / S
            r, t = l + c["nx"] * c["kx"] / S, b + c["ny"] * c["ky"] / S
            kw["shape"] = (c["ny"], c["nx"])
            shx = shy = 0
        else:
            l, b = c["l"] / S, c["b"] / S
            lng, oth = c["nlong"] * c["k"] / S, c["other"] / S
            r, t = (l + lng, b + oth) if c["wide"] else (l + oth, b + lng)
            kw["shape"] = c["nlong"]
            shx = shy = 0
        l, r, b, t = l + shx, r + shx, b + shy, t + shy
        route = c["route"]
        if route == "bbox":
            gb = GeoBox.from_bbox(G.BoundingBox(l, b, r, t, CRS_A), **kw)
        elif route == "tuple":
            gb = GeoBox.from_bbox((l, b, r, t), CRS_A, **kw)
        elif route == "polygon":
            poly = G.polygon([(l, b), (r, b), (r, t), (l, (b + t) / 2), (l, b)], CRS_A) if False else G.polygon([(l, b), (r, b), (r, t), (l, t), (l, b)], CRS_A)
            if mode == "res" and an in ("edge", "quarter", "xy", "xy2") and hsh % 3 == 0:
                # the deprecated spelling of the same request: align = anchor in CRS units
                fx, fy = {"edge": (0.0, 0.0), "quarter": (0.25, 0.25), "xy": (0.0, 0.5), "xy2": (0.75, 0.25)}[an]
                kw2 = dict(kw, align=xy_(fx * abs(rx), fy * abs(ry)))
                kw2.pop("anchor")
                gb = GeoBox.from_geopolygon(poly, **kw2)
            else:
                gb = GeoBox.from_geopolygon(poly, **kw)
        elif route == "polygon_other_crs":
            dx, dy = 1024, 2048
            poly = G.polygon([(l + dx, b + dy), (r + dx, b + dy), (r + dx, t + dy), (l + dx, t + dy), (l + dx, b + dy)], CRS_B)
            gb = GeoBox.from_geopolygon(poly, crs=CRS_A, **kw)
        elif route == "zoom_to":
            # a 1-pixel source geobox whose bounding box is the region; zoom_to(resolution=) implies tight
            src = GeoBox((1, 1), Affine(r - l, 0, l, 0, -(t - b), t), CRS_A)
            gb = src.zoom_to(resolution=kw["resolution"])
            c = dict(c, tight=True, tol=[1, 100])  # zoom_to has no tol parameter: from_bbox's default applies
            ev["c"] = c
        a = gb.affine
        ev["o"] = {"ny": int(gb.shape[0]), "nx": int(gb.shape[1]), "a": _lat(a.a, S), "b": _lat(a.b, S), "c": _lat(a.c - shx, S * S, 1e-3),
                   "d": _lat(a.d, S), "e": _lat(a.e, S), "f": _lat(a.f - shy, S * S, 1e-3)}
        ev["crs_ok"] = bool(gb.crs == CRS_A)
    except OffLattice:
        ev["outcome"] = "result_off_the_exact_lattice"
    except Exception as ex:  # noqa: BLE001
        ev["outcome"] = type(ex).__name__
    return ev


def _validate(ctx, events):
    return ctx.validate("geobox/FromBBoxTrace.tla", events, "FromBBoxTrace.cfg", batch=3000)


def run(ctx):
    q = ctx.quick()
    res, cases = ctx.model_check("geobox/FromBBoxGen.tla", "MC_FromBBox_quick.cfg" if q else "MC_FromBBox_thorough.cfg", emit=True, timeout=2400)
    cases.sort(key=lambda c: json.dumps(c, sort_keys=True))
    total = len(cases)
    if q:
        rc = [c for c in cases if c["mode"] == "res"]
        sc = [c for c in cases if c["mode"] not in ("res", "region")]
        cases = ctx.subsample(rc, 14000) + ctx.subsample(sc, 4000) + [c for c in cases if c["mode"] == "region"]
    else:
        cases = ctx.subsample(cases, 400000)
    events = ctx.pmap(execute, cases)
    verdicts = _validate(ctx, events)
    for ev, v in zip(events, verdicts):
        c = ev["c"]
        ctx.record(c, v, op=f"{c['mode']}:{c['route']}", conformance=c["mode"] != "ishape", nontrivial=True, sample={"case": c, "observed": ev["o"]})
    ctx.traces_validated = len(events)
    ctx.exhaustive = len(cases) == total
    ctx.extra["domain_cases_total"] = total
    ctx.rule = ("cases = regions on the 1/128 lattice (edges near and far from integers and pixel multiples, spans from 7/128 to 12 units) x resolutions +-{1/2,3/4,1,3/2,3} per axis x "
                "anchors {edge, centre, 1/4, per-axis, floating} x tight x tol {1/100,1/10} x route {BoundingBox, tuple+crs, polygon, polygon in an exact-translation CRS, zoom_to} "
                "x whole-pixel shifts of 2^20 and -3*2^20 pixels; shape-driven and single-number-shape construction; non-box regions (diamond, triangle, line, points) given in a really "
                "different CRS (5 EPSG pairs) against a fresh-pyproj vertex table; all non-trivial; distinct by input")
    ctx.assumptions = ["whole-pixel shift family: the shifted request is compared with the unshifted expectation after subtracting the shift (exact in doubles)"]


def replay(ctx, obj):
    ev = execute(obj["case"])
    v = _validate(ctx, [ev])[0]
    print(f"replay: {json.dumps(ev)[:1500]} verdict={v}")
    ctx.record(obj["case"], v, op=obj.get("op", ""))
    ctx.traces_validated = 1
