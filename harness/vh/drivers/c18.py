"""C18 - part writers: exactly-once initiation under every interleaving; sinks honour their contract.
M+G: spec/s3/MC_S3.tla (all interleavings of 2 writers + finaliser exhaustively, 3 writers by state space
+ simulation), spec/s3/SinkGen.tla (file sink / limits cases);
real code: DelayedS3Writer / MultiPartUpload on real threads driven by a baton scheduler through seams
(uploadId attribute, _dask_client, locks, distributed.Variable, S3 client calls), MPUFileSink in a scratch dir;
V: spec/s3/S3Trace.tla, spec/s3/SinkTrace.tla."""
import json
import os
import shutil
import tempfile
from unittest import mock

from ..baton import Baton
from ..core import MachineryError

_B = None  # the Baton of the replay in progress (one replay at a time per process)


def _yp(label, enabled=None):
    if _B is not None:
        _B.yield_point(label, enabled)


def _traced_mpu_class():
    from odc.geo.cog._s3 import MultiPartUpload

    class TracedMPU(MultiPartUpload):
        """The real MultiPartUpload with a seam at every read / write of the shared attribute."""

        @property
        def uploadId(self):
            _yp("get")
            return self.__dict__.get("_uid", "")

        @uploadId.setter
        def uploadId(self, v):
            _yp("set")
            self.__dict__["_uid"] = v

        def s3_client(self):
            return self._fake

    return TracedMPU


class FakeS3:
    def __init__(self):
        self.calls = []
        self.n = 0

    def _pid(self):
        return _B.tl.tid

    def create_multipart_upload(self, **kw):
        _yp("crt")
        self.n += 1
        self.calls.append(["crt", self._pid(), self.n])
        return {"UploadId": f"id{self.n}"}

    def upload_part(self, **kw):
        _yp("up")
        uid = kw["UploadId"]
        self.calls.append(["up", self._pid(), int(uid[2:]) if uid.startswith("id") and uid[2:].isdigit() else 0])
        return {"ETag": f"e{kw['PartNumber']}"}

    def complete_multipart_upload(self, **kw):
        _yp("complete")
        uid = kw["UploadId"]
        self.calls.append(["complete", self._pid(), int(uid[2:]) if uid.startswith("id") and uid[2:].isdigit() else 0])
        return {"ETag": "final"}


class FakeLock:
    """threading.Lock / distributed.Lock stand-in (context manager); all instances with one name share state."""
    holders = {}

    def __init__(self, name="local", client=None):
        self.name = name

    def __enter__(self):
        _yp("acq", enabled=lambda: FakeLock.holders.get(self.name) is None)
        if FakeLock.holders.get(self.name) is not None:
            raise MachineryError("lock acquired while held")
        FakeLock.holders[self.name] = _B.tl.tid if _B and _B.in_thread() else -1
        return self

    def __exit__(self, *a):
        _yp("rel")
        FakeLock.holders[self.name] = None
        return False

    acquire = __enter__

    def release(self):
        self.__exit__()


class TracedState(dict):
    """odc.geo.cog._s3._state with a seam at every access the code makes (the process-local lock table)"""

    def get(self, k, default=None):
        _yp("sget")
        return dict.get(self, k, default)

    def setdefault(self, k, default=None):
        _yp("ssd")
        return dict.setdefault(self, k, default)

    def __setitem__(self, k, v):
        _yp("sset")
        dict.__setitem__(self, k, v)

    def __getitem__(self, k):
        _yp("sget")
        return dict.__getitem__(self, k)


def _lock_factory():
    """threading.Lock stand-in: every call is a NEW lock object (its own name), as in the real module"""
    n = [0]

    def mk():
        n[0] += 1
        return FakeLock(f"local#{n[0]}")

    return mk


class FakeVariable:
    """distributed.Variable stand-in: get() of a never-set variable times out.  `stale`: what an earlier, abandoned attempt to write the
    same object left in the (same-named) Variable - returned for any name nobody has set in this run (spec/s3/S3Prep.tla)."""
    store = {}
    stale = None

    def __init__(self, name=None, client=None):
        self.name = name

    def get(self, timeout=None):
        _yp("vget")
        if self.name not in FakeVariable.store:
            if FakeVariable.stale is not None:
                return FakeVariable.stale
            raise TimeoutError()
        return FakeVariable.store[self.name]

    def set(self, v):
        _yp("vset")
        FakeVariable.store[self.name] = v

    def delete(self):
        _yp("vdel")
        FakeVariable.store.pop(self.name, None)


def _cell(mode, cells, p):
    if mode == "local":
        return 1
    if cells == "separate":
        return p + 1
    return 1 if p in (1, 2) else p + 1


def replay_schedule(case, explore=None):
    """Replay one TLC schedule on real threads (explore = None), or let a seeded explorer pick, at every seam, which of the
    really runnable threads goes next (explore = [seed, style]): the schedule then comes from the code, not from the model."""
    global _B
    import distributed
    import odc.geo.cog._s3 as S3

    mode, n, cells = case["mode"], case["n"], case["cells"]
    B = Baton()
    _B = B
    FakeLock.holders = {}
    FakeVariable.store = {}
    # history: every other cluster-coordinated run starts on a cluster where an earlier attempt at the same object died after initiating
    FakeVariable.stale = "upload-of-an-abandoned-attempt" if mode == "dist" and (len(case["sched"]) + n) % 2 == 0 else None
    fake = FakeS3()
    client = object() if mode == "dist" else None
    TracedMPU = _traced_mpu_class()
    saved_state = S3._state
    state = TracedState()
    if not case.get("first", False):
        dict.__setitem__(state, "mpu_lock", FakeLock("local#0"))

    def dask_client():
        _yp("cli")
        return client

    writers = {}
    try:
        with mock.patch.object(S3, "_dask_client", dask_client), \
                mock.patch.object(S3, "_state", state), \
                mock.patch.object(S3, "Lock", _lock_factory()), \
                mock.patch.object(distributed, "Lock", FakeLock), \
                mock.patch.object(distributed, "Variable", FakeVariable):
            for p in range(0, n + 1):
                c = _cell(mode, cells, p)
                if c not in writers:
                    mpu = TracedMPU("bkt", "key")
                    mpu._fake = fake
                    writers[c] = S3.DelayedS3Writer(mpu, {})
            if mode == "dist":
                # what MultiPartUpload.writer(kw, client=client) does on the submitting side
                writers[_cell(mode, cells, 0)].prep_client(client)

            def writer_fn(p):
                return lambda: writers[_cell(mode, cells, p)](p + 1, b"x" * 8)

            def fin_fn():
                B.yield_point("wait", enabled=lambda: all(B.state.get(w) == "done" for w in range(1, n + 1))
                              and all(B.results.get(w, ("?",))[0] == "ok" for w in range(1, n + 1)))
                return writers[_cell(mode, cells, 0)].finalise([{"PartNumber": i + 1, "ETag": f"e{i+1}"} for i in range(1, n + 1)])

            for p in range(1, n + 1):
                B.spawn(p, writer_fn(p))
            B.spawn(0, fin_fn)
            if explore is None:
                for p, _kind in case["sched"]:
                    B.step(p)
            else:
                import random
                rng = random.Random(explore[0])
                style, last = explore[1], None
                for _ in range(400):
                    en = [p for p in range(0, n + 1) if B.enabled(p)]
                    if not en:
                        break
                    if style == "sticky" and last in en and rng.random() < 0.7:
                        p = last
                    elif style == "switchy" and last in en and len(en) > 1 and rng.random() < 0.8:
                        p = rng.choice([x for x in en if x != last])
                    else:
                        p = rng.choice(en)
                    B.step(p)
                    last = p
            # drain: whatever the real code still has to do after the model's (maximal) schedule
            progress = True
            while progress:
                progress = False
                for p in range(0, n + 1):
                    if B.step(p):
                        progress = True
            writers_done = all(B.state.get(w) == "done" for w in range(1, n + 1))
            writers_ok = all(B.results.get(w, ("?",))[0] == "ok" for w in range(1, n + 1))
            deadlock = not writers_done or (writers_ok and B.state.get(0) != "done")
            B.finish()
    finally:
        _B = None
        FakeVariable.stale = None
        assert S3._state is saved_state
    outcomes = [[p, B.results.get(p, ("never_ran",))[0]] for p in range(0, n + 1) if B.results.get(p, ("x",))[0] != "aborted"]
    steps = [[p, k] for p, k in B.steps]
    ev = {"mode": mode, "n": n, "cells": cells, "first": bool(case.get("first", False)), "sched": case["sched"], "final": case["final"],
          "steps": steps, "calls": fake.calls, "outcomes": outcomes, "deadlock": bool(deadlock)}
    if explore is not None:
        # the schedule is the one the real threads took; S3Real.tla steps the model along it
        cnt = lambda k: sum(1 for c in fake.calls if c[0] == k)  # noqa: E731
        ev.update(explore=list(explore), sched=steps, final={"ncreated": cnt("crt"), "nparts": cnt("up"), "ncompleted": cnt("complete"), "nfailed": 0})
    return ev


# --------------------------------------------------------------------------- life cycle of one MultiPartUpload (beyond the listed properties)
class NoSuchUpload(Exception):
    pass


class LifeS3:
    """stateful stand-in for the service: uploads in progress per (key, id); listing by prefix; unknown (key, id) is refused"""

    def __init__(self):
        self.n = 0
        self.active = {}

    def start(self, key):
        self.n += 1
        self.active[self.n] = key
        return self.n

    def _find(self, kw):
        uid = kw["UploadId"]
        i = int(uid[2:]) if uid.startswith("id") and uid[2:].isdigit() else -1
        if self.active.get(i) != kw["Key"]:
            raise NoSuchUpload(uid)
        return i

    def create_multipart_upload(self, **kw):
        return {"UploadId": f"id{self.start(kw['Key'])}"}

    def upload_part(self, **kw):
        self._find(kw)
        return {"ETag": f"e{kw['PartNumber']}"}

    def complete_multipart_upload(self, **kw):
        del self.active[self._find(kw)]
        return {"ETag": "final"}

    def abort_multipart_upload(self, **kw):
        del self.active[self._find(kw)]
        return {}

    def list_multipart_uploads(self, **kw):
        ups = [{"UploadId": f"id{i}", "Key": k} for i, k in sorted(self.active.items()) if k.startswith(kw["Prefix"])]
        return {"Uploads": ups} if ups else {}


def run_life(case):
    from odc.geo.cog._s3 import MultiPartUpload

    svc = LifeS3()

    class M(MultiPartUpload):
        def s3_client(self):
            return svc

    mpu = M("bkt", "k")
    obs = []
    for st in case["steps"]:
        op, arg = st["op"], st["arg"]
        o = {"out": "ok", "listed": 0}
        try:
            if op == "initiate":
                mpu.initiate()
            elif op == "write_part":
                mpu.write_part(arg, b"x")
            elif op == "finalise":
                mpu.finalise([])
            elif op == "cancel":
                mpu.cancel()
            elif op == "cancel_other":
                mpu.cancel(f"id{arg}")
            elif op == "cancel_all":
                mpu.cancel("all")
            elif op == "list_active":
                o["listed"] = len(mpu.list_active())
            elif op == "foreign":
                svc.start("k" if arg == 0 else "k+")
        except Exception as ex:  # noqa: BLE001
            o["out"] = type(ex).__name__
        uid = mpu.uploadId
        o.update(uid=int(uid[2:]) if uid.startswith("id") else 0, started=bool(mpu.started), nactive=len(svc.active))
        obs.append(o)
    return {"steps": case["steps"], "obs": obs}


# --------------------------------------------------------------------------- file sink / limits
def run_sink_case(case):
    from odc.geo.cog._mpu_fs import MPUFileSink
    from odc.geo.cog._s3 import DelayedS3Writer, MultiPartUpload

    op = case["op"]
    if op == "limits":
        names = ("min_write_sz", "max_write_sz", "min_part", "max_part")
        kw = {k: (v[0] * 1024 if k.endswith("_sz") else v[0]) for k, v in zip(names, case["kw"]) if v}
        outcome, out = "ok", []
        try:
            rd = lambda x: [int(x.min_write_sz), int(x.max_write_sz), int(x.min_part), int(x.max_part)]  # noqa: E731
            ref, ref0 = None, None
            if case["cls"] == "file":
                # history: what a sink reports is a function of ITS OWN configuration - a default sink made before, and one made after, another sink was
                # given other limits report the same; nobody's report changes when a later sink is configured
                ref = MPUFileSink("/nonexistent/ref.bin")
                ref0 = rd(ref)
                MPUFileSink("/nonexistent/other.bin", min_write_sz=3 << 20, max_write_sz=7 << 20, min_part=2, max_part=77)
            if case["cls"] == "file":
                w = MPUFileSink("/nonexistent/x.bin", **kw)
            elif case["cls"] == "s3":
                w = MultiPartUpload("b", "k")
            else:
                w = DelayedS3Writer(MultiPartUpload("b", "k"), {})
            # sizes are reported in KiB (TLC integers are 32 bit; all values used are multiples of 1 KiB)
            out = [int(w.min_write_sz) // 1024, int(w.max_write_sz) // 1024, int(w.min_part), int(w.max_part)]
            if ref is not None and (rd(ref) != ref0 or rd(MPUFileSink("/nonexistent/ref2.bin")) != ref0):
                outcome = "limits_of_one_sink_changed_by_configuring_another"
        except Exception as ex:  # noqa: BLE001
            outcome = type(ex).__name__
        return {"c": case, "outcome": outcome, "out": out}
    # finalise: write parts (ids/sizes in the order given), finalise, read back
    td = tempfile.mkdtemp(prefix="vh_sink_")
    outcome, dst_bytes, parts_left, dst_exists = "ok", [], -1, False
    try:
        base = os.path.join(td, "elsewhere") if case["base"] == "elsewhere" else None
        if base:
            os.makedirs(base)
        dst = os.path.join(td, "out.bin")
        if case.get("pre") == "old":
            with open(dst, "wb") as f:       # the result of an earlier run: longer than anything written now, other bytes
                f.write(bytes([200, 201, 202]) * 40)
        sink = MPUFileSink(dst, parts_base=base)
        parts = []
        pos = 0
        # payload byte value = position in the expected output
        for pid, sz in zip(case["ids"], case["sizes"]):
            parts.append((pid, bytes(range(pos, pos + sz))))
            pos += sz
        written = {}
        for pid, data in sorted(parts, key=lambda x: case["write_order"].index(x[0])):
            written[pid] = sink(pid, data)
        sink.finalise([written[pid] for pid in case["ids"]], keep_parts=case["keep"])
        dst_exists = os.path.exists(dst)
        if dst_exists:
            dst_bytes = list(open(dst, "rb").read())
        pdir = sink._parts_dir
        parts_left = len(os.listdir(pdir)) if os.path.isdir(pdir) else -1
    except Exception as ex:  # noqa: BLE001
        outcome = type(ex).__name__
    finally:
        shutil.rmtree(td, ignore_errors=True)
    return {"c": case, "outcome": outcome, "out": {"dst": dst_bytes, "exists": dst_exists, "parts_left": parts_left}}


def _validate(ctx, events):
    return ctx.validate("s3/S3Trace.tla", events, "S3Trace.cfg", batch=2500)


REAL_CFGS = [{"mode": "local", "n": 2, "cells": "separate", "first": True}, {"mode": "local", "n": 2, "cells": "separate", "first": False},
             {"mode": "local", "n": 3, "cells": "separate", "first": True}, {"mode": "dist", "n": 2, "cells": "pair", "first": False},
             {"mode": "dist", "n": 2, "cells": "separate", "first": False}, {"mode": "dist", "n": 3, "cells": "pair", "first": False}]


def _explore_job(job):
    cfg, seed, style = job
    return replay_schedule(dict(cfg, sched=[], final={}), explore=[seed, style])


def _validate_real(ctx, cfg, events):
    """S3Real.tla: the model stepped along the schedules the real threads took (one TLC run per configuration)"""
    from .. import tlc as T

    if not events:
        return []
    name = f"S3Real_{cfg['mode']}{cfg['n']}_{cfg['cells']}_{int(cfg['first'])}"
    cfgp = os.path.join(ctx.scratch, name + ".cfg")
    with open(cfgp, "w") as f:
        f.write("SPECIFICATION RSpec\nCONSTANTS\n  NWriters = %d\n  Mode = \"%s\"\n  FirstUse = %s\n  Recheck = TRUE\n  TrackSched = FALSE\n  CellMap = \"%s\"\n"
                % (cfg["n"], cfg["mode"], "TRUE" if cfg["first"] else "FALSE", cfg["cells"]))
        f.write("INVARIANT AtMostOneInitiate\nINVARIANT PartsUnderTheOneId\nCHECK_DEADLOCK FALSE\n")
    tr = os.path.join(ctx.scratch, name + ".json")
    T.write_json(tr, {"events": [{"steps": e["steps"], "calls": e["calls"]} for e in events]})
    res = T.run_tlc("s3/S3Real.tla", cfgp, env={"TRACE_FILE": tr}, timeout=900, scratch=ctx.scratch)
    if res.timed_out or res.rc != 0 or not res.no_error:
        raise MachineryError(f"S3Real {name}: TLC rc={res.rc} {res.errors[:3]}\n" + "\n".join(res.stdout.splitlines()[-15:]))
    ctx.states += res.distinct
    ctx.transitions += res.generated
    ctx.m_runs.append({"model": f"S3Real ({name}: S3Init stepped along {len(events)} schedules taken by the real threads)", "distinct_states": res.distinct,
                       "states_generated": res.generated})
    out = {}
    for _, tid, v in res.printed("R"):
        out[tid] = v
    if len(out) != len(events):
        raise MachineryError(f"S3Real {name}: {len(out)} verdicts for {len(events)} traces")
    return [out[i + 1] for i in range(len(events))]


def _key(ev):
    k = {"mode": ev["mode"], "n": ev["n"], "cells": ev["cells"], "first": ev.get("first", False), "sched": ev["sched"], "final": ev["final"]}
    if ev.get("explore"):
        k["explore"] = ev["explore"]
    return k


def run(ctx):
    q = ctx.quick()
    cases = []
    res, cs = ctx.model_check("s3/MC_S3.tla", "MC_S3_local2.cfg", emit=True, timeout=900)
    cs.sort(key=lambda c: json.dumps(c, sort_keys=True))
    cases += ctx.subsample(cs, 4000) if q else cs
    for name in ("dist2_sep", "dist2_pair"):
        if q:
            # quick: exhaustive state space without the schedule history + simulated schedules
            ctx.model_check("s3/MC_S3.tla", f"MC_S3_{name}_ns.cfg", timeout=600)
            res, cs = ctx.model_check("s3/MC_S3.tla", f"MC_S3_{name}.cfg", emit=True, timeout=600, simulate="num=2500", depth=100,
                                      seed=ctx.seed, workers=1, label=f"MC_S3/{name} simulation")
            cases += cs
        else:
            res, cs = ctx.model_check("s3/MC_S3.tla", f"MC_S3_{name}.cfg", emit=True, timeout=1800)
            cs.sort(key=lambda c: json.dumps(c, sort_keys=True))
            cases += ctx.subsample(cs, 40000)
    for name in ("local3", "dist3_sep", "dist3_pair"):
        ctx.model_check("s3/MC_S3.tla", f"MC_S3_{name}.cfg", timeout=600, coverage=(name == "dist3_pair"))
        ctx.model_check("s3/MC_S3.tla", f"MC_S3_{name}_live.cfg", timeout=600, label=f"MC_S3/{name} liveness (EventuallyDone under WF)")
        res, cs = ctx.model_check("s3/MC_S3.tla", f"MC_S3_{name}_sim.cfg", emit=True, timeout=600,
                                  simulate=f"num={400 if q else 6000}", depth=100, seed=ctx.seed, workers=1,
                                  label=f"MC_S3/{name} simulation")
        cases += cs
    # attempts to write one object in sequence, some abandoned: prep_client must reset the shared Variable unconditionally
    ctx.model_check("s3/S3Prep.tla", "S3Prep.cfg", timeout=300, label="S3Prep (attempt history, unconditional reset)")
    ctx.model_check("s3/S3Prep.tla", "S3Prep_conditional.cfg", expect_violation="OwnUploadOnly", timeout=300,
                    label="S3Prep/conditional reset (counterexample expected: the model shows why the reset is load-bearing)")
    # ... and for ANY number of attempts: IndInv (spec/s3/S3PrepInd.tla) holds initially, is preserved by every step, and implies the properties
    ctx.apalache("s3/S3PrepInd.tla", init="IndInit", inv="IndInv", length=1, label="S3PrepInd inductive step (unbounded attempts)")
    if not q:
        ctx.apalache("s3/S3PrepInd.tla", init="Init", inv="IndInv", length=0, label="S3PrepInd base case")
        ctx.apalache("s3/S3PrepInd.tla", init="IndInit", inv="OwnUploadOnly", length=0, label="S3PrepInd invariant implies OwnUploadOnly")
        ctx.apalache("s3/S3PrepInd.tla", init="IndInit", inv="AtMostOnePerAttempt", length=0, label="S3PrepInd invariant implies AtMostOnePerAttempt")
    ctx.model_check("s3/MC_S3.tla", "MC_S3_local2_asfound.cfg", expect_violation="NoWriterFails", timeout=300,
                    label="MC_S3/local2 as found (no re-check under the lock)")
    events = ctx.pmap(replay_schedule, cases, procs=16)
    verdicts = _validate(ctx, events)
    for ev, v in zip(events, verdicts):
        ctx.record(_key(ev), v, op=f"{ev['mode']}{ev['n']}/{ev['cells']}", conformance=True,
                   nontrivial=len({p for p, _ in ev["sched"][:8]}) > 1,
                   sample={"mode": ev["mode"], "cells": ev["cells"], "schedule": "".join(str(p) for p, _ in ev["sched"]), "calls": ev["calls"], "outcomes": ev["outcomes"]})
    ctx.traces_validated = len(events)
    # ---- the other direction: schedules chosen on the real threads by a seeded explorer, validated against the model
    per = 400 if q else 6000
    nreal = 0
    for cfg in REAL_CFGS:
        jobs = [(cfg, ctx.seed * 1000003 + k, ("uniform", "sticky", "switchy")[k % 3]) for k in range(per)]
        revents = ctx.pmap(_explore_job, jobs, procs=16)
        seen, uniq = set(), []
        for ev in revents:
            key = json.dumps(ev["steps"])
            if key not in seen:
                seen.add(key)
                uniq.append(ev)
        pv = _validate(ctx, uniq)                 # property predicates on the observed calls / outcomes
        cv = _validate_real(ctx, cfg, uniq)       # the schedule is a behaviour of the model
        for ev, a, b in zip(uniq, pv, cv):
            v = a if a.startswith("reject") else (b if b != "ok" else a)
            ctx.record(_key(ev), v, op=f"real:{ev['mode']}{ev['n']}/{ev['cells']}/{'first' if ev['first'] else 'warm'}", conformance=True,
                       nontrivial=len({p for p, _ in ev["steps"][:8]}) > 1,
                       sample={"mode": ev["mode"], "cells": ev["cells"], "schedule": "".join(str(p) for p, _ in ev["steps"]), "calls": ev["calls"], "outcomes": ev["outcomes"]})
        nreal += len(uniq)
    ctx.traces_validated += nreal
    ctx.extra["real_thread_schedules_validated"] = nreal
    # ---- file sink and limits
    res, scases = ctx.model_check("s3/SinkGen.tla", "SinkGen.cfg", emit=True, timeout=600)
    scases.sort(key=lambda c: json.dumps(c, sort_keys=True))
    if q:
        lim = [c for c in scases if c["op"] == "limits"]
        fin = ctx.subsample([c for c in scases if c["op"] != "limits"], 1500)
        scases = lim + fin
    sevents = ctx.pmap(run_sink_case, scases)
    sverdicts = ctx.validate("s3/SinkTrace.tla", sevents, "SinkTrace.cfg", batch=3000)
    for ev, v in zip(sevents, sverdicts):
        ctx.record(ev["c"], v, op=ev["c"]["op"], conformance=True, sample=ev)
    ctx.traces_validated += len(sevents)
    # ---- life cycle of one MultiPartUpload object (initiate / write / finalise / cancel / list) against a stateful service: conformance only
    res, lcases = ctx.model_check("s3/MC_UploadLife.tla", "MC_UploadLife.cfg", emit=True, timeout=900)
    lcases.sort(key=lambda c: json.dumps(c, sort_keys=True))
    ctx.extra["life_cycle_behaviours_total"] = len(lcases)
    lcases = ctx.subsample(lcases, 6000 if q else 10 ** 6)
    levents = ctx.pmap(run_life, lcases)
    lverdicts = ctx.validate("s3/UploadLifeTrace.tla", levents, "UploadLifeTrace.cfg", batch=8000)
    for ev, v in zip(levents, lverdicts):
        ctx.record({"steps": [[s["op"], s["arg"]] for s in ev["steps"]]}, v, op="life-cycle", conformance=True, nontrivial=True,
                   sample={"calls": [[s["op"], s["arg"], s["out"]] for s in ev["steps"]]})
    ctx.traces_validated += len(levents)
    # cluster-coordinated use on a REAL in-process dask.distributed cluster (real Variable / Lock, the scheduler's own interleavings)
    cevents = _real_cluster_rounds(ctx, 40 if q else 400)
    cverdicts = _validate(ctx, cevents)
    for k, (ev, v) in enumerate(zip(cevents, cverdicts)):
        ctx.record({"round": k, "n": ev["n"], "seed": ctx.seed}, v, op="cluster:real-distributed", nontrivial=True,
                   sample={"n": ev["n"], "calls": ev["calls"], "outcomes": ev["outcomes"]})
    ctx.traces_validated += len(cevents)
    ctx.rule = ("schedules = every maximal interleaving of 2 writers + finaliser (local path all; distributed paths a seeded subset in the quick tier) and "
                "simulated interleavings of 3 writers, each replayed on real threads through seams; non-trivial = at least two processes interleave within the "
                "first 8 steps; plus schedules taken by the real threads under a seeded explorer (uniform / sticky / switchy) in 6 configurations, each checked to be a behaviour of the model; sink cases = part counts/sizes/orders/parts-dir placements and all subsets of limit keywords; distinct by schedule / case")
    ctx.assumptions = ["fake boto3 client; interleavings are explored with stand-ins for distributed.Variable/Lock (documented semantics) - a real in-process "
                       "dask.distributed cluster (Client(processes=False), real Variable/Lock) runs the same protocol under the scheduler's own interleavings",
                       "seams: every access to MultiPartUpload.uploadId (property on a harness subclass), _dask_client, lock enter/exit, Variable get/set/delete, client calls"]


def _real_cluster_rounds(ctx, rounds):
    """harness/vh/realcluster.py in a process of its own (a dask.distributed client + in-process workers); the child imports odc.geo from the
    same place as this process"""
    import subprocess
    import sys

    env = dict(os.environ)
    here = os.path.dirname(os.path.dirname(os.path.dirname(os.path.abspath(__file__))))
    env["PYTHONPATH"] = os.pathsep.join([here] + [p for p in env.get("PYTHONPATH", "").split(os.pathsep) if p])
    r = subprocess.run([sys.executable, "-m", "vh.realcluster", str(rounds), str(ctx.seed)], capture_output=True, text=True, env=env, timeout=900)
    line = next((ln for ln in r.stdout.splitlines() if ln.startswith("EVENTS ")), None)
    if line is None:
        raise MachineryError(f"real cluster rounds produced no events (rc={r.returncode}): {r.stderr[-600:]}")
    return json.loads(line[7:])


def replay(ctx, obj):
    c = obj["case"]
    if "round" in c:
        evs = _real_cluster_rounds(ctx, c["round"] + 1)
        ev = evs[c["round"]]
        v = _validate(ctx, [ev])[0]
        print(f"replay: calls={ev['calls']} outcomes={ev['outcomes']} verdict={v}")
        ctx.record(c, v, op="cluster:real-distributed")
        ctx.traces_validated = 1
        return
    if c.get("explore"):
        ev = replay_schedule(dict(c, sched=[], final={}), explore=c["explore"])
        a = _validate(ctx, [ev])[0]
        b = _validate_real(ctx, {k: c[k] for k in ("mode", "n", "cells", "first")}, [ev])[0]
        v = a if a.startswith("reject") else (b if b != "ok" else a)
        print(f"replay: steps={ev['steps']} calls={ev['calls']} outcomes={ev['outcomes']} deadlock={ev['deadlock']} verdict={v}")
    elif "sched" in c:
        ev = replay_schedule(c)
        v = _validate(ctx, [ev])[0]
        print(f"replay: steps={ev['steps']} calls={ev['calls']} outcomes={ev['outcomes']} deadlock={ev['deadlock']} verdict={v}")
    else:
        ev = run_sink_case(c)
        v = ctx.validate("s3/SinkTrace.tla", [ev], "SinkTrace.cfg")[0]
        print(f"replay: {ev} verdict={v}")
    ctx.record(c, v, op=obj.get("op", ""))
    ctx.traces_validated = 1
