"""C18 - part writers: exactly-once initiation under every interleaving; sinks honour their contract.
M+G: spec/s3/MC_S3.tla (all interleavings of 2 writers + finaliser exhaustively, 3 writers by state space
+ simulation), spec/s3/SinkGen.tla (file sink / limits cases);
real code: DelayedS3Writer / MultiPartUpload on real threads driven by a baton scheduler through seams
(uploadId attribute, _dask_client, locks, distributed.Variable, S3 client calls), MPUFileSink in a scratch dir;
V: spec/s3/S3Trace.tla, spec/s3/SinkTrace.tla."""
import json
import os
import shutil
import tempfile
from unittest import mock

from ..baton import Baton
from ..core import MachineryError

_B = None  # the Baton of the replay in progress (one replay at a time per process)


def _yp(label, enabled=None):
    if _B is not None:
        _B.yield_point(label, enabled)


def _traced_mpu_class():
    from odc.geo.cog._s3 import MultiPartUpload

    class TracedMPU(MultiPartUpload):
        """The real MultiPartUpload with a seam at every read / write of the shared attribute."""

        @property
        def uploadId(self):
            _yp("get")
            return self.__dict__.get("_uid", "")

        @uploadId.setter
        def uploadId(self, v):
            _yp("set")
            self.__dict__["_uid"] = v

        def s3_client(self):
            return self._fake

    return TracedMPU


class FakeS3:
    def __init__(self):
        self.calls = []
        self.n = 0

    def _pid(self):
        return _B.tl.tid

    def create_multipart_upload(self, **kw):
        _yp("crt")
        self.n += 1
        self.calls.append(["crt", self._pid(), self.n])
        return {"UploadId": f"id{self.n}"}

    def upload_part(self, **kw):
        _yp("up")
        uid = kw["UploadId"]
        self.calls.append(["up", self._pid(), int(uid[2:]) if uid.startswith("id") and uid[2:].isdigit() else 0])
        return {"ETag": f"e{kw['PartNumber']}"}

    def complete_multipart_upload(self, **kw):
        _yp("complete")
        uid = kw["UploadId"]
        self.calls.append(["complete", self._pid(), int(uid[2:]) if uid.startswith("id") and uid[2:].isdigit() else 0])
        return {"ETag": "final"}


class FakeLock:
    """threading.Lock / distributed.Lock stand-in (context manager); all instances with one name share state."""
    holders = {}

    def __init__(self, name="local", client=None):
        self.name = name

    def __enter__(self):
        _yp("acq", enabled=lambda: FakeLock.holders.get(self.name) is None)
        if FakeLock.holders.get(self.name) is not None:
            raise MachineryError("lock acquired while held")
        FakeLock.holders[self.name] = _B.tl.tid if _B and _B.in_thread() else -1
        return self

    def __exit__(self, *a):
        _yp("rel")
        FakeLock.holders[self.name] = None
        return False

    acquire = __enter__

    def release(self):
        self.__exit__()


class FakeVariable:
    """distributed.Variable stand-in: get() of a never-set variable times out."""
    store = {}

    def __init__(self, name=None, client=None):
        self.name = name

    def get(self, timeout=None):
        _yp("vget")
        if self.name not in FakeVariable.store:
            raise TimeoutError()
        return FakeVariable.store[self.name]

    def set(self, v):
        _yp("vset")
        FakeVariable.store[self.name] = v

    def delete(self):
        _yp("vdel")
        FakeVariable.store.pop(self.name, None)


def _cell(mode, cells, p):
    if mode == "local":
        return 1
    if cells == "separate":
        return p + 1
    return 1 if p in (1, 2) else p + 1


def replay_schedule(case):
    """Replay one TLC schedule on real threads."""
    global _B
    import distributed
    import odc.geo.cog._s3 as S3

    mode, n, cells = case["mode"], case["n"], case["cells"]
    B = Baton()
    _B = B
    FakeLock.holders = {}
    FakeVariable.store = {}
    fake = FakeS3()
    client = object() if mode == "dist" else None
    TracedMPU = _traced_mpu_class()
    saved_state = dict(S3._state)

    def dask_client():
        _yp("cli")
        return client

    writers = {}
    try:
        with mock.patch.object(S3, "_dask_client", dask_client), \
                mock.patch.object(distributed, "Lock", FakeLock), \
                mock.patch.object(distributed, "Variable", FakeVariable):
            S3._state["mpu_lock"] = FakeLock("local")
            for p in range(0, n + 1):
                c = _cell(mode, cells, p)
                if c not in writers:
                    mpu = TracedMPU("bkt", "key")
                    mpu._fake = fake
                    writers[c] = S3.DelayedS3Writer(mpu, {})
            if mode == "dist":
                # what MultiPartUpload.writer(kw, client=client) does on the submitting side
                writers[_cell(mode, cells, 0)].prep_client(client)

            def writer_fn(p):
                return lambda: writers[_cell(mode, cells, p)](p + 1, b"x" * 8)

            def fin_fn():
                B.yield_point("wait", enabled=lambda: all(B.state.get(w) == "done" for w in range(1, n + 1))
                              and all(B.results.get(w, ("?",))[0] == "ok" for w in range(1, n + 1)))
                return writers[_cell(mode, cells, 0)].finalise([{"PartNumber": i + 1, "ETag": f"e{i+1}"} for i in range(1, n + 1)])

            for p in range(1, n + 1):
                B.spawn(p, writer_fn(p))
            B.spawn(0, fin_fn)
            for p, _kind in case["sched"]:
                B.step(p)
            # drain: whatever the real code still has to do after the model's (maximal) schedule
            progress = True
            while progress:
                progress = False
                for p in range(0, n + 1):
                    if B.step(p):
                        progress = True
            writers_done = all(B.state.get(w) == "done" for w in range(1, n + 1))
            writers_ok = all(B.results.get(w, ("?",))[0] == "ok" for w in range(1, n + 1))
            deadlock = not writers_done or (writers_ok and B.state.get(0) != "done")
            B.finish()
    finally:
        _B = None
        S3._state.clear()
        S3._state.update(saved_state)
    outcomes = [[p, B.results.get(p, ("never_ran",))[0]] for p in range(0, n + 1) if B.results.get(p, ("x",))[0] != "aborted"]
    return {"mode": mode, "n": n, "cells": cells, "sched": case["sched"], "final": case["final"],
            "steps": [[p, k] for p, k in B.steps], "calls": fake.calls, "outcomes": outcomes, "deadlock": bool(deadlock)}


# --------------------------------------------------------------------------- file sink / limits
def run_sink_case(case):
    from odc.geo.cog._mpu_fs import MPUFileSink
    from odc.geo.cog._s3 import DelayedS3Writer, MultiPartUpload

    op = case["op"]
    if op == "limits":
        names = ("min_write_sz", "max_write_sz", "min_part", "max_part")
        kw = {k: (v[0] * 1024 if k.endswith("_sz") else v[0]) for k, v in zip(names, case["kw"]) if v}
        outcome, out = "ok", []
        try:
            if case["cls"] == "file":
                w = MPUFileSink("/nonexistent/x.bin", **kw)
            elif case["cls"] == "s3":
                w = MultiPartUpload("b", "k")
            else:
                w = DelayedS3Writer(MultiPartUpload("b", "k"), {})
            # sizes are reported in KiB (TLC integers are 32 bit; all values used are multiples of 1 KiB)
            out = [int(w.min_write_sz) // 1024, int(w.max_write_sz) // 1024, int(w.min_part), int(w.max_part)]
        except Exception as ex:  # noqa: BLE001
            outcome = type(ex).__name__
        return {"c": case, "outcome": outcome, "out": out}
    # finalise: write parts (ids/sizes in the order given), finalise, read back
    td = tempfile.mkdtemp(prefix="vh_sink_")
    outcome, dst_bytes, parts_left, dst_exists = "ok", [], -1, False
    try:
        base = os.path.join(td, "elsewhere") if case["base"] == "elsewhere" else None
        if base:
            os.makedirs(base)
        dst = os.path.join(td, "out.bin")
        sink = MPUFileSink(dst, parts_base=base)
        parts = []
        pos = 0
        # payload byte value = position in the expected output
        for pid, sz in zip(case["ids"], case["sizes"]):
            parts.append((pid, bytes(range(pos, pos + sz))))
            pos += sz
        written = {}
        for pid, data in sorted(parts, key=lambda x: case["write_order"].index(x[0])):
            written[pid] = sink(pid, data)
        sink.finalise([written[pid] for pid in case["ids"]], keep_parts=case["keep"])
        dst_exists = os.path.exists(dst)
        if dst_exists:
            dst_bytes = list(open(dst, "rb").read())
        pdir = sink._parts_dir
        parts_left = len(os.listdir(pdir)) if os.path.isdir(pdir) else -1
    except Exception as ex:  # noqa: BLE001
        outcome = type(ex).__name__
    finally:
        shutil.rmtree(td, ignore_errors=True)
    return {"c": case, "outcome": outcome, "out": {"dst": dst_bytes, "exists": dst_exists, "parts_left": parts_left}}


def _validate(ctx, events):
    return ctx.validate("s3/S3Trace.tla", events, "S3Trace.cfg", batch=2500)


def _key(ev):
    return {"mode": ev["mode"], "n": ev["n"], "cells": ev["cells"], "sched": ev["sched"], "final": ev["final"]}


def run(ctx):
    q = ctx.quick()
    cases = []
    res, cs = ctx.model_check("s3/MC_S3.tla", "MC_S3_local2.cfg", emit=True, timeout=900)
    cs.sort(key=lambda c: json.dumps(c, sort_keys=True))
    cases += ctx.subsample(cs, 4000) if q else cs
    for name in ("dist2_sep", "dist2_pair"):
        if q:
            # quick: exhaustive state space without the schedule history + simulated schedules
            ctx.model_check("s3/MC_S3.tla", f"MC_S3_{name}_ns.cfg", timeout=600)
            res, cs = ctx.model_check("s3/MC_S3.tla", f"MC_S3_{name}.cfg", emit=True, timeout=600, simulate="num=2500", depth=100,
                                      seed=ctx.seed, workers=1, label=f"MC_S3/{name} simulation")
            cases += cs
        else:
            res, cs = ctx.model_check("s3/MC_S3.tla", f"MC_S3_{name}.cfg", emit=True, timeout=1800)
            cs.sort(key=lambda c: json.dumps(c, sort_keys=True))
            cases += ctx.subsample(cs, 40000)
    for name in ("local3", "dist3_sep", "dist3_pair"):
        ctx.model_check("s3/MC_S3.tla", f"MC_S3_{name}.cfg", timeout=600, coverage=(name == "dist3_pair"))
        ctx.model_check("s3/MC_S3.tla", f"MC_S3_{name}_live.cfg", timeout=600, label=f"MC_S3/{name} liveness (EventuallyDone under WF)")
        res, cs = ctx.model_check("s3/MC_S3.tla", f"MC_S3_{name}_sim.cfg", emit=True, timeout=600,
                                  simulate=f"num={400 if q else 6000}", depth=100, seed=ctx.seed, workers=1,
                                  label=f"MC_S3/{name} simulation")
        cases += cs
    ctx.model_check("s3/MC_S3.tla", "MC_S3_local2_asfound.cfg", expect_violation="NoWriterFails", timeout=300,
                    label="MC_S3/local2 as found (no re-check under the lock)")
    events = ctx.pmap(replay_schedule, cases, procs=16)
    verdicts = _validate(ctx, events)
    for ev, v in zip(events, verdicts):
        ctx.record(_key(ev), v, op=f"{ev['mode']}{ev['n']}/{ev['cells']}", conformance=True,
                   nontrivial=len({p for p, _ in ev["sched"][:8]}) > 1,
                   sample={"mode": ev["mode"], "cells": ev["cells"], "schedule": "".join(str(p) for p, _ in ev["sched"]), "calls": ev["calls"], "outcomes": ev["outcomes"]})
    ctx.traces_validated = len(events)
    # ---- file sink and limits
    res, scases = ctx.model_check("s3/SinkGen.tla", "SinkGen.cfg", emit=True, timeout=600)
    scases.sort(key=lambda c: json.dumps(c, sort_keys=True))
    if q:
        lim = [c for c in scases if c["op"] == "limits"]
        fin = ctx.subsample([c for c in scases if c["op"] != "limits"], 1500)
        scases = lim + fin
    sevents = ctx.pmap(run_sink_case, scases)
    sverdicts = ctx.validate("s3/SinkTrace.tla", sevents, "SinkTrace.cfg", batch=3000)
    for ev, v in zip(sevents, sverdicts):
        ctx.record(ev["c"], v, op=ev["c"]["op"], conformance=True, sample=ev)
    ctx.traces_validated += len(sevents)
    ctx.rule = ("schedules = every maximal interleaving of 2 writers + finaliser (local path all; distributed paths a seeded subset in the quick tier) and "
                "simulated interleavings of 3 writers, each replayed on real threads through seams; non-trivial = at least two processes interleave within the "
                "first 8 steps; sink cases = part counts/sizes/orders/parts-dir placements and all subsets of limit keywords; distinct by schedule / case")
    ctx.assumptions = ["fake boto3 client, fake distributed.Variable/Lock with the documented semantics (no cluster in the sandbox)",
                       "seams: every access to MultiPartUpload.uploadId (property on a harness subclass), _dask_client, lock enter/exit, Variable get/set/delete, client calls"]


def replay(ctx, obj):
    c = obj["case"]
    if "sched" in c:
        ev = replay_schedule(c)
        v = _validate(ctx, [ev])[0]
        print(f"replay: steps={ev['steps']} calls={ev['calls']} outcomes={ev['outcomes']} deadlock={ev['deadlock']} verdict={v}")
    else:
        ev = run_sink_case(c)
        v = ctx.validate("s3/SinkTrace.tla", [ev], "SinkTrace.cfg")[0]
        print(f"replay: {ev} verdict={v}")
    ctx.record(c, v, op=obj.get("op", ""))
    ctx.traces_validated = 1
