"""C01 - operations never silently mix coordinate reference systems.
M: spec/crsmix/CrsPool.tla (pool state machine, NoMixedLineage; the unchecked variant must produce a counterexample);
G: spec/crsmix/CrsMixGen.tla over the operations found in the code by introspection joined with the spec's classification table;
real code: Geometry / BoundingBox / GeoBox combining operations;  V: spec/crsmix/CrsMixTrace.tla (shapely on the raw shapes is the stated oracle)."""
import json
import os

import numpy as np

GEO, PROJ = 4326, 3857


LAEA = {"L1": "+proj=laea +lat_0=52 +lon_0=10 +x_0=0 +y_0=0 +ellps=GRS80 +units=m +no_defs",
        "L2": "+proj=laea +lat_0=40 +lon_0=-5 +x_0=0 +y_0=0 +ellps=GRS80 +units=m +no_defs"}


AUTH = {"A1": "EPSG:4812", "A2": "ESRI:4812", "A3": "IAU_2015:30165", "A4": "EPSG:30165"}


def _crs(tag, warm=False):
    """a NEW CRS object per operand; warm: its lazy EPSG lookup has already happened (as xr_coords / assign_crs do)"""
    from odc.geo.crs import CRS

    crs = _crs0(tag)
    if warm and crs is not None:
        _ = crs.epsg
    return crs


def _crs0(tag):
    import pyproj

    from odc.geo.crs import CRS

    cls, sp = tag
    if cls == "none":
        return None
    if cls in LAEA:
        return CRS(LAEA[cls])
    if cls in AUTH:
        return CRS(AUTH[cls])
    code = GEO if cls == "G" else PROJ
    return CRS(f"epsg:{code}") if sp == "epsg" else CRS(pyproj.CRS.from_epsg(code).to_wkt())


def _shape(kind, v):
    """two overlapping shapes per kind (v = 0, 1), small coordinates valid in both CRSs"""
    import shapely.geometry as sg

    d = 0.5 * v
    if kind == "point":
        return sg.Point(1 + d, 1 + d)
    if kind == "line":
        return sg.LineString([(0 + d, 0), (3 + d, 3)]) if v == 0 else sg.LineString([(0, 3), (3, 0)])
    if kind == "ring":
        return sg.LinearRing([(0 + d, 0 + d), (2 + d, 0 + d), (2 + d, 2 + d), (0 + d, 2 + d)])
    if kind == "polygon":
        return sg.box(0 + d, 0 + d, 3 + d, 3 + d)
    if kind == "polyhole":
        return sg.Polygon([(0 + d, 0), (6 + d, 0), (6 + d, 6), (0 + d, 6)], [[(2, 2), (4, 2), (4, 4), (2, 4)]])
    if kind == "multipoint":
        return sg.MultiPoint([(1 + d, 1), (2, 2 + d)])
    if kind == "multiline":
        return sg.MultiLineString([[(0 + d, 0), (2, 2)], [(0, 2 + d), (2, 0)]])
    if kind == "multipolygon":
        return sg.MultiPolygon([sg.box(0 + d, 0, 1 + d, 1), sg.box(2, 2 + d, 3, 3 + d)])
    if kind == "multipolygon_overlap":
        return sg.MultiPolygon([sg.box(0 + d, 0, 2 + d, 2), sg.box(1, 1 + d, 3, 3 + d)])
    if kind == "multiline_cross":
        return sg.MultiLineString([[(0 + d, 0), (2 + d, 2)], [(0, 2), (2, 0)]])
    if kind == "collection":
        return sg.GeometryCollection([sg.Point(1 + d, 1), sg.LineString([(0, 0), (2 + d, 2)])])
    raise KeyError(kind)


BIN = {"op_and": lambda a, b: a & b, "op_or": lambda a, b: a | b, "op_xor": lambda a, b: a ^ b, "op_sub": lambda a, b: a - b}


def find_ops():
    """combining operations present in the code (introspection)"""
    from odc.geo import geobox as GB
    from odc.geo import geom as G

    names = []
    for n in dir(G.Geometry):
        f = getattr(G.Geometry, n, None)
        if callable(f) and getattr(f, "__qualname__", "").startswith("wrap_shapely.<locals>"):
            names.append({"__and__": "op_and", "__or__": "op_or", "__xor__": "op_xor", "__sub__": "op_sub"}.get(n, n))
    # every operation the specification classifies is exercised whenever it still exists, whether or not it is (still) decorated:
    # an operation that lost its check must not disappear from the domain
    spec_method = {"op_and": "__and__", "op_or": "__or__", "op_xor": "__xor__", "op_sub": "__sub__"}
    for n in _table_names():
        if hasattr(G.Geometry, spec_method.get(n, n)) and n not in ("split", "overlap_roi", "snap_to"):
            names.append(n)
    names.append("split")
    for n in ("multigeom", "unary_union", "unary_intersection", "common_crs", "bbox_union", "bbox_intersection"):
        if hasattr(G, n):
            names.append(n)
    if hasattr(G, "intersects"):
        names.append("fn_intersects")
    names += ["bbox_or", "bbox_and", "geobox_or", "geobox_and"]
    for n in ("overlap_roi", "snap_to"):
        if hasattr(GB.GeoBox, n):
            names.append(n)
    for n in ("geobox_union_conservative", "geobox_intersection_conservative"):
        if hasattr(GB, n):
            names.append(n)
    return sorted(set(names))


def _eq(a, b):
    import shapely

    if isinstance(a, (bool, np.bool_)) or isinstance(b, (bool, np.bool_)):
        return bool(a) == bool(b)
    return bool(shapely.equals_exact(a, b, 0.0) or (a.is_empty and b.is_empty)) and a.geom_type == b.geom_type


def _run_geom(op, gs, shp):
    """returns (odc result, shapely result on the raw shapes) as callables"""
    import shapely.ops as sops
    from shapely.geometry import GeometryCollection

    from odc.geo import geom as G

    if op in BIN:
        return (lambda: BIN[op](gs[0], gs[1])), (lambda: BIN[op](shp[0], shp[1]))
    if op == "fn_intersects":
        return (lambda: G.intersects(gs[0], gs[1])), (lambda: shp[0].intersects(shp[1]) and not shp[0].touches(shp[1]))
    if op == "split":
        return (lambda: list(gs[0].split(gs[1]))), (lambda: list(sops.split(shp[0], shp[1]).geoms))
    if op == "multigeom":
        return (lambda: G.multigeom(gs)), (lambda: G._multigeom(list(shp)))
    if op == "unary_union":
        return (lambda: G.unary_union(gs)), (lambda: sops.unary_union(list(shp)))
    if op == "unary_intersection":
        import functools
        return (lambda: G.unary_intersection(gs)), (lambda: functools.reduce(lambda a, b: a.intersection(b), shp))
    if op == "common_crs":
        return (lambda: G.common_crs(gs)), (lambda: "crs")
    return (lambda: getattr(gs[0], op)(*gs[1:])), (lambda: getattr(shp[0], op)(*shp[1:]))


def _outcome(fn):
    try:
        return "ok", fn()
    except Exception as ex:  # noqa: BLE001
        return type(ex).__name__, ex


def execute(c):
    from affine import Affine

    from odc.geo import geom as G
    from odc.geo.geobox import GeoBox, geobox_intersection_conservative, geobox_union_conservative

    op, tags, kinds = c["op"], c["tags"], c["kinds"]
    crss = [_crs(t, c.get("warm", False)) for t in tags]
    ev = {"c": c, "tags": tags, "shp": "ok", "odc": {"oc": "ok", "crs_ok": True, "same": True, "is_value_error": False}}

    def finish(oc, val, soc, sval, first_crs, check_crs=True):
        ev["shp"] = soc
        o = ev["odc"]
        o["oc"] = oc
        if oc != "ok":
            o["is_value_error"] = isinstance(val, ValueError)
            return ev
        if soc == "ok":
            if isinstance(val, list):
                o["same"] = len(val) == len(sval) and all(_eq(a.geom, b) for a, b in zip(val, sval))
                o["crs_ok"] = all(a.crs == first_crs and (a.crs is None) == (first_crs is None) for a in val)
            elif isinstance(val, G.Geometry):
                o["same"] = _eq(val.geom, sval)
                o["crs_ok"] = val.crs == first_crs and (val.crs is None) == (first_crs is None)
            elif check_crs and hasattr(val, "crs"):
                o["same"] = bool(sval(val)) if callable(sval) else True
                o["crs_ok"] = val.crs == first_crs and (val.crs is None) == (first_crs is None)
            elif callable(sval):
                o["same"] = bool(sval(val))
            elif op == "common_crs":
                o["same"] = True
                o["crs_ok"] = val == first_crs and (val is None) == (first_crs is None)
            else:
                o["same"] = _eq(val, sval)
        return ev

    try:
        if kinds[0] == "box":
            fam_geobox = op.startswith("geobox") or op in ("overlap_roi", "snap_to")
            if fam_geobox:
                sh = 0 if c.get("sg") else 1
                boxes = [GeoBox((3, 4), Affine(1, 0, i * sh, 0, -1, 5 + i * sh), crs) for i, crs in enumerate(crss)]
                raw = [GeoBox(b.shape, b.affine, None) for b in boxes]
                fns = {"geobox_or": lambda b: b[0] | b[1], "geobox_and": lambda b: b[0] & b[1], "overlap_roi": lambda b: b[0].overlap_roi(b[1]),
                       "snap_to": lambda b: b[0].snap_to(b[1]), "geobox_union_conservative": geobox_union_conservative,
                       "geobox_intersection_conservative": geobox_intersection_conservative}
                oc, val = _outcome(lambda: fns[op](boxes))
                soc, sval = _outcome(lambda: fns[op](raw))
                if oc == "ok" and soc == "ok" and isinstance(val, GeoBox):
                    same = val.shape == sval.shape and val.affine == sval.affine
                    return finish(oc, val, soc, (lambda v: same), crss[0])
                if oc == "ok" and soc == "ok":
                    ev["odc"]["same"] = val == sval
                    ev["shp"] = soc
                    return ev
                return finish(oc, val, soc, sval, crss[0])
            sh = 0 if c.get("sg") else 1
            bbs = [G.BoundingBox(i * sh, i * sh, 4 + i * sh, 5 + i * sh, crs) for i, crs in enumerate(crss)]
            raw = [G.BoundingBox(*b.bbox, None) for b in bbs]
            fns = {"bbox_union": G.bbox_union, "bbox_intersection": G.bbox_intersection, "bbox_or": lambda b: b[0] | b[1], "bbox_and": lambda b: b[0] & b[1]}
            oc, val = _outcome(lambda: fns[op](bbs))
            soc, sval = _outcome(lambda: fns[op](raw))
            if oc == "ok" and soc == "ok":
                same = tuple(val.bbox) == tuple(sval.bbox)
                return finish(oc, val, soc, (lambda v: same), crss[0])
            return finish(oc, val, soc, sval, crss[0])
        shp = [_shape(k, i % 2) for i, k in enumerate(kinds)]
        gs = [G.Geometry(s, crs) for s, crs in zip(shp, crss)]
        if c["form"] == "chain":
            f1, s1 = _run_geom(op, gs[:2], shp[:2])
            oc1, r1 = _outcome(f1)
            soc1, sr1 = _outcome(s1)
            if oc1 != "ok" or soc1 != "ok" or not isinstance(r1, G.Geometry):
                ev["shp"] = "chain_first_step_" + oc1
                ev["odc"]["oc"] = "chain_first_step_" + oc1
                return ev
            # second step: the result (class of the first two operands) combined with the third operand
            f2, s2 = _run_geom(c["op2"], [r1, gs[2]], [sr1, shp[2]])
            oc, val = _outcome(f2)
            soc, sval = _outcome(s2)
            ev["tags"] = [tags[0], tags[2]]
            return finish(oc, val, soc, sval, crss[0])
        f, s = _run_geom(op, gs, shp)
        oc, val = _outcome(f)
        soc, sval = _outcome(s)
        return finish(oc, val, soc, sval, crss[0])
    except Exception as ex:  # noqa: BLE001
        ev["odc"]["oc"] = "harness_" + type(ex).__name__
        ev["shp"] = "harness"
        return ev


def _validate(ctx, events):
    return ctx.validate("crsmix/CrsMixTrace.tla", events, "CrsMixTrace.cfg", batch=4000)


def run(ctx):
    from ..core import MachineryError

    q = ctx.quick()
    ctx.model_check("crsmix/CrsPool.tla", "MC_CrsPool.cfg", timeout=300)
    ctx.model_check("crsmix/CrsPool.tla", "MC_CrsPool_unchecked.cfg", expect_violation="NoMixedLineage", timeout=300,
                    label="CrsPool/unchecked (an operation without the CRS check WOULD mix lineages)")
    ops = find_ops()
    path = os.path.join(ctx.scratch, "ops.json")
    json.dump({"ops": ops}, open(path, "w"))
    res, cases = ctx.model_check("crsmix/CrsMixGen.tla", "CrsMixGen.cfg" if q else "CrsMixGen_thorough.cfg", env={"OPS_FILE": path}, emit=True, timeout=1200)
    known = json.loads(json.dumps(list(_table_names())))
    unmodelled = [o for o in ops if o not in known]
    for o in unmodelled:
        print(f"UNMODELLED-OP property=C01 {o} (exercised under the generic rule)")
    ctx.extra["operations_found"] = ops
    ctx.extra["unmodelled_operations"] = unmodelled
    cases.sort(key=lambda c: json.dumps(c, sort_keys=True))
    total = len(cases)
    cases = ctx.subsample_by(cases, lambda c: (c["op"], c["form"], len(c["tags"]), c["tags"][0][1] == "auth"), 400) if q else cases
    events = ctx.pmap(execute, cases)
    bad = [e for e in events if e["odc"]["oc"].startswith("harness_")]
    if bad:
        raise MachineryError(f"harness exception in C01 executor: {bad[0]}")
    verdicts = _validate(ctx, events)
    for ev, v in zip(events, verdicts):
        c = ev["c"]
        ctx.record(c, v, op=(c["op"] if c["form"] == "call" else f"chain:{c['op']}>{c['op2']}"), nontrivial=True,
                   sample={"case": c, "odc": ev["odc"], "shapely": ev["shp"]})
    ctx.traces_validated = len(events)
    ctx.exhaustive = len(cases) == total
    ctx.extra["domain_cases_total"] = total
    ctx.rule = ("cases = every combining operation found in the code by introspection x ordered CRS tag tuples over {none, geographic, geographic as WKT, projected, projected as WKT} x "
                "geometry kinds (9 kinds; reduced second-kind set in the quick tier), n-ary operations with 3 operands, bounding-box and GeoBox operations, and depth-2 chains (result of a "
                "set operation fed into a further operation); skipped = mismatch cases where shapely itself refuses the kind pair; all others non-trivial; distinct by input")
    ctx.assumptions = ["shapely on the raw shapes is the oracle the property names (results compared with equals_exact / ==)"]
    ctx.oracle_clauses = ["equal-CRS results equal shapely's result on the raw shapes"]


def _table_names():
    return ["contains", "covers", "crosses", "disjoint", "intersects", "touches", "within", "overlaps", "fn_intersects", "difference", "intersection",
            "symmetric_difference", "union", "op_and", "op_or", "op_xor", "op_sub", "split", "multigeom", "unary_union", "unary_intersection", "common_crs",
            "bbox_union", "bbox_intersection", "bbox_or", "bbox_and", "geobox_or", "geobox_and", "overlap_roi", "snap_to", "geobox_union_conservative",
            "geobox_intersection_conservative"]


def replay(ctx, obj):
    ev = execute(obj["case"])
    v = _validate(ctx, [ev])[0]
    print(f"replay: {json.dumps(ev)[:1500]} verdict={v}")
    ctx.record(obj["case"], v, op=obj.get("op", ""))
    ctx.traces_validated = 1
