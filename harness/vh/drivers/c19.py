"""C19 - value objects: equality, hashing, pickling, tokens and caches are coherent.
M+G: spec/crs/MC_CrsCache.tla (history model of the CRS / transformer caches: exhaustive state space, the
known StrStable counterexample, the hypothetical-eviction counterexample, simulated histories),
spec/crs/ValueGen.tla (families of near-identical values);  real code: odc.geo value types, histories replayed in
fresh interpreters;  V: spec/crs/CrsTrace.tla, spec/crs/ValueTrace.tla."""
import copy
import json
import os
import pickle
import subprocess
import sys

from ..core import MachineryError

EPSG = {"A": 4326, "B": 3857, "C": 3577}
CUSTOM = {"D": "+proj=laea +lat_0=52 +lon_0=10 +x_0=0 +y_0=0 +ellps=GRS80 +units=m +no_defs",
          "E": "+proj=sinu +lon_0=0 +x_0=0 +y_0=0 +R=6371007.181 +units=m +no_defs",
          "F": "+proj=laea +lat_0=40 +lon_0=-5 +x_0=0 +y_0=0 +ellps=GRS80 +units=m +no_defs"}
HERE = os.path.dirname(os.path.dirname(os.path.dirname(os.path.abspath(__file__))))


# ------------------------------------------------------------------ building real objects from descriptors
def _crs(tag, memo):
    from odc.geo.crs import CRS
    import pyproj

    cls, sp = tag
    if cls == "none":
        return None
    if cls in CUSTOM:                    # systems without an EPSG code: the lazy code lookup answers "none" for each of them
        p = CUSTOM[cls]
        return {"proj": lambda: CRS(p), "pyproj": lambda: CRS(pyproj.CRS(p)), "wkt": lambda: CRS(pyproj.CRS(p).to_wkt()),
                "crsobj": lambda: CRS(CRS(p)), "pickle": lambda: pickle.loads(pickle.dumps(CRS(p)))}[sp]()
    code = EPSG[cls]
    if sp == "int":
        return CRS(code)
    if sp == "epsg":
        return CRS(f"epsg:{code}")
    if sp == "epsgup":
        return CRS(f"EPSG:{code}")
    if sp == "wkt":
        return CRS(pyproj.CRS.from_epsg(code).to_wkt())
    if sp == "dict":
        return CRS(pyproj.CRS.from_epsg(code).to_json_dict())
    if sp == "pyproj":
        return CRS(pyproj.CRS.from_epsg(code))
    if sp == "crsobj":
        return CRS(CRS(f"epsg:{code}"))
    if sp == "pickle":
        return pickle.loads(pickle.dumps(CRS(f"epsg:{code}")))
    raise KeyError(sp)


def _affine(name):
    from affine import Affine

    return {"northup": Affine(10, 0, 100, 0, -10, 200), "shifted": Affine(10, 0, 110, 0, -10, 200),
            "scaled": Affine(20, 0, 100, 0, -20, 200), "rotated": Affine.translation(100, 200) * Affine.rotation(30) * Affine.scale(10, -10),
            "flipped": Affine(10, 0, 100, 0, 10, 200), "id": Affine.identity(), "shift": Affine.translation(1, 0),
            "tiny_a": Affine(10.004, 0, 100, 0, -10, 200), "tiny_b": Affine(10, 0.004, 100, 0, -10, 200), "tiny_c": Affine(10, 0, 100.004, 0, -10, 200),
            "tiny_d": Affine(10, 0, 100, 0.004, -10, 200), "tiny_e": Affine(10, 0, 100, 0, -10.004, 200), "tiny_f": Affine(10, 0, 100, 0, -10, 200.004),
            "deg_fine": Affine(0.00025, 0, 10, 0, -0.00025, 50), "deg_fine2": Affine(0.0003, 0, 10, 0, -0.0003, 50),
            "deg_fine_shift": Affine(0.00025, 0, 10.001, 0, -0.00025, 50),
            "eps_c1": Affine(10, 0, 100.000006, 0, -10, 200), "eps_c2": Affine(10, 0, 100.000012, 0, -10, 200), "eps_c3": Affine(10, 0, 100.000018, 0, -10, 200)}[name]


def build(d, memo):
    import numpy as np
    import shapely.geometry as sg

    from odc.geo import geom as G
    from odc.geo.gcp import GCPGeoBox, GCPMapping
    from odc.geo.geobox import GeoBox, GeoboxTiles
    from odc.geo.gridspec import GridSpec
    from odc.geo.roi import Tiles, VariableSizedTiles
    from odc.geo.types import ixy_, resxy_, wh_, xy_

    t = d["t"]
    if t == "crs":
        return _crs(d["crs"], memo)
    if t == "bbox":
        return G.BoundingBox(*[v + (1e-7 if d.get("nudge", 0) == i + 1 else 0) for i, v in enumerate(d["box"])], crs=_crs(d["crs"], memo))
    if t == "geobox":
        return GeoBox(tuple(d["shape"]), _affine(d["aff"]), _crs(d["crs"], memo))
    if t == "geom":
        v, crs = d["v"], _crs(d["crs"], memo)
        k = d["kind"]
        if k == "point":
            return G.point(1 + v, 2, crs)
        if k == "line":
            return G.line([(0, 0), (1 + v, 1)], crs)
        if k == "polygon":
            return G.box(0, 0, 2 + v, 2, crs)
        if k == "polyhole":
            return G.polygon([(0, 0), (10, 0), (10, 10), (0, 10), (0, 0)], crs, [(2, 2), (4 + v, 2), (4 + v, 4), (2, 4), (2, 2)])
        if k == "multipoint":
            return G.multipoint([(0, 0), (1 + v, 1)], crs)
        if k == "multipolygon":
            return G.multipolygon([[[(0, 0), (1 + v, 0), (1 + v, 1), (0, 1), (0, 0)]], [[(5, 5), (6, 5), (6, 6), (5, 6), (5, 5)]]], crs)
        if k == "collection":
            return G.Geometry(sg.GeometryCollection([sg.Point(1 + v, 2), sg.LineString([(0, 0), (1, 1)])]), crs)
    if t == "tiles":
        return Tiles(tuple(d["base"]), tuple(d["tile"]))
    if t == "vtiles":
        return VariableSizedTiles((tuple(d["cy"]), tuple(d["cx"])))
    if t == "gbvtiles":
        return GeoboxTiles(GeoBox((6, 6), _affine(d["aff"]), _crs(d["crs"], memo)), (tuple(d["cy"]), tuple(d["cx"])))
    if t == "gbtiles":
        return GeoboxTiles(GeoBox(tuple(d["shape"]), _affine(d["aff"]), _crs(d["crs"], memo)), tuple(d["tile"]))
    if t == "xy":
        return xy_(d["x"], d["y"])
    if t == "index2d":
        return ixy_(d["x"], d["y"])
    if t == "shape2d":
        return wh_(d["x"], d["y"])
    if t == "resolution":
        return resxy_(float(d["x"]), float(d["y"]))
    if t == "gridspec":
        res = d["res"]
        if d.get("rsign", "default") != "default":
            sg = d["rsign"]
            res = resxy_(float(res) * (1 if sg[1] == "+" else -1), float(res) * (1 if sg[3] == "+" else -1))
        return GridSpec(_crs(d["crs"], memo), tuple(d["tile"]), res, origin=xy_(float(d["origin"][0]), float(d["origin"][1])),
                        flipx=d["flip"][0], flipy=d["flip"][1])
    if t == "gcp":
        key = ("gcpmap", d["pts"], tuple(d["crs"]))
        if key not in memo:
            pix = np.array([[0, 0], [4, 0], [4, 4], [0, 4], [2, 2]], dtype="float64")
            k = 10.0 if d["pts"] == "m1" else 20.0
            wld = pix * k + 100
            memo[key] = GCPMapping(pix, wld, _crs(d["crs"], memo))
        return GCPGeoBox(tuple(d["shape"]), memo[key], _affine(d["aff"]))
    raise KeyError(t)


def _crs_forms_differ(di, dj):
    a, b = di.get("crs"), dj.get("crs")
    return a is not None and b is not None and a[0] == b[0] and a[0] != "none" and a[1] != b[1]


def _use(o):
    """read every view / derived attribute the object offers (properties and a few cheap queries): fills whatever the object caches"""
    for name in dir(type(o)):
        if name.startswith("_") or not isinstance(getattr(type(o), name, None), property):
            continue
        try:
            getattr(o, name)
        except Exception:  # noqa: BLE001 - a view that does not exist for this value (e.g. geographic extent without CRS)
            pass
    for fn in (lambda: o.pix2wld(0.5, 0.5), lambda: o.wld2pix(*o.pix2wld(0.5, 0.5)), lambda: o.footprint("epsg:4326"), lambda: repr(o), lambda: str(o),
               lambda: o[0, 0], lambda: o.tile_geobox((0, 0)), lambda: o.transformer_to_crs("epsg:4326"), lambda: o.json, lambda: o.boundary(4),
               lambda: o.to_crs("epsg:4326"), lambda: o.svg(), lambda: o.chunk_shape((0, 0)), lambda: o.locate((0, 0)), lambda: o.proj.to_wkt()):
        try:
            fn()
        except Exception:  # noqa: BLE001
            pass


def family_events(case):
    from dask.base import tokenize

    from odc.geo import crs as C

    C._crs_cache.clear()
    C._make_crs_transform.cache.clear()
    memo = {}
    objs, events = [], []
    descs = case["objs"]
    for i, d in enumerate(descs):
        ev = {"kind": "obj", "fam": case["fam"], "d": d, "outcome": "ok", "refl": True, "pickle": "ok", "pickle_eq": True,
              "pickle_tok": True, "copy_tok": True, "hash_stable": True, "used_eq": True, "used_tok": True, "used_hash": True, "used_pickle": "ok",
              "used_pickle_eq": True, "used_pickle_tok": True}
        try:
            o = build(d, memo)
        except Exception as ex:  # noqa: BLE001
            ev["outcome"] = type(ex).__name__
            objs.append(None)
            events.append(ev)
            continue
        objs.append(o)
        try:
            ev["refl"] = bool(o == o) and not bool(o != o)
            tok = tokenize(o)
            try:
                h = hash(o)
            except TypeError:
                h = None
            try:
                cl = pickle.loads(pickle.dumps(o))
                ev["pickle_eq"] = bool(cl == o) and bool(o == cl)
                ev["pickle_tok"] = tokenize(cl) == tok
                if h is not None:
                    ev["hash_stable"] = hash(cl) == h
            except Exception as ex:  # noqa: BLE001
                ev["pickle"] = type(ex).__name__
            try:
                cp = copy.copy(o)
                ev["copy_tok"] = tokenize(cp) == tok and bool(cp == o)
            except Exception as ex:  # noqa: BLE001
                ev["pickle"] = ev["pickle"] if ev["pickle"] != "ok" else "copy_" + type(ex).__name__
            # ---- after use: a second, independently built instance is used, then compared with the untouched one
            try:
                u = build(d, {})
                _use(u)
                ev["used_eq"] = bool(u == o) and bool(o == u)
                ev["used_tok"] = tokenize(u) == tok
                if h is not None:
                    ev["used_hash"] = hash(u) == h
                try:
                    cl2 = pickle.loads(pickle.dumps(u))
                    ev["used_pickle_eq"] = bool(cl2 == o) and bool(cl2 == u)
                    ev["used_pickle_tok"] = tokenize(cl2) == tok
                except Exception as ex:  # noqa: BLE001
                    ev["used_pickle"] = type(ex).__name__
            except Exception as ex:  # noqa: BLE001
                ev["used_pickle"] = "use_" + type(ex).__name__
        except Exception as ex:  # noqa: BLE001
            ev["outcome"] = type(ex).__name__
        events.append(ev)
    from dask.base import tokenize as tk
    toks, hashes = [], []
    for o in objs:
        toks.append(tk(o) if o is not None else None)
        try:
            hashes.append(hash(o) if o is not None else None)
        except TypeError:
            hashes.append(None)
    n = len(objs)
    eq = [[False] * n for _ in range(n)]
    for i in range(n):
        for j in range(n):
            if objs[i] is None or objs[j] is None or i == j:
                eq[i][j] = i == j
                continue
            ev = {"kind": "pair", "fam": case["fam"], "_ij": (i, j), "di": descs[i], "dj": descs[j], "outcome": "ok", "eq_ij": False, "eq_ji": False,
                  "ne_ij": True, "hashable": hashes[i] is not None and hashes[j] is not None, "hash_eq": False, "tok_eq": False}
            try:
                ev["eq_ij"] = bool(objs[i] == objs[j])
                ev["eq_ji"] = bool(objs[j] == objs[i])
                ev["ne_ij"] = bool(objs[i] != objs[j])
                ev["hash_eq"] = hashes[i] == hashes[j]
                ev["tok_eq"] = toks[i] == toks[j]
            except Exception as ex:  # noqa: BLE001
                ev["outcome"] = type(ex).__name__
            eq[i][j] = ev["eq_ij"]
            if i < j or ev["eq_ij"] != eq[j][i]:
                events.append(ev)
    events.append({"kind": "trans", "fam": case["fam"], "eq": eq})
    # ---- the same matrix once every object has been used (views read, lazy lookups done): a pair is as equal as it was before anybody looked
    for o in objs:
        if o is not None:
            _use(o)
    ueq = [[i == j for j in range(n)] for i in range(n)]
    for i in range(n):
        for j in range(n):
            if objs[i] is None or objs[j] is None or i == j:
                continue
            try:
                ueq[i][j] = bool(objs[i] == objs[j])
            except Exception:  # noqa: BLE001
                ueq[i][j] = "raised"
    for ev in events:
        if ev["kind"] == "pair":
            i, j = ev.pop("_ij")
            ev["ueq_ij"], ev["ueq_ji"] = ueq[i][j], ueq[j][i]
            try:
                ev["uhash_eq"] = (hash(objs[i]) == hash(objs[j])) if ev["hashable"] else True
            except Exception:  # noqa: BLE001
                ev["uhash_eq"] = False
    return events


def _ev_case(ev):
    if ev["kind"] == "pair":
        return {"kind": "pair", "di": ev["di"], "dj": ev["dj"]}
    if ev["kind"] == "obj":
        return {"kind": "obj", "d": ev["d"]}
    return {"kind": "trans", "fam": ev["fam"]}


def _ev_tags(ev):
    t = set()
    if ev["kind"] == "pair":
        if _crs_forms_differ(ev["di"], ev["dj"]):
            t.add("crs_spelling_differs")
        t.add("type:" + ev["di"]["t"])
    elif ev["kind"] == "obj":
        t.add("type:" + ev["d"]["t"])
        if ev["d"].get("kind") == "collection":
            t.add("geometrycollection")
    return t


# ------------------------------------------------------------------ histories in fresh interpreters
def _run_worker(args):
    hists, scratch, idx = args
    inp, out = os.path.join(scratch, f"h_in_{idx}.json"), os.path.join(scratch, f"h_out_{idx}.json")
    json.dump({"hists": hists}, open(inp, "w"))
    env = dict(os.environ, PYTHONPATH=os.pathsep.join([HERE] + [p for p in os.environ.get("PYTHONPATH", "").split(os.pathsep) if p]), PYTHONHASHSEED="0")
    p = subprocess.run([sys.executable, os.path.join(HERE, "vh", "crs_worker.py"), inp, out], env=env, capture_output=True, text=True)
    if p.returncode != 0:
        return "crs_worker failed: " + p.stderr[-1500:]
    ev = json.load(open(out))["events"]
    os.unlink(inp)
    os.unlink(out)
    return ev


def run(ctx):
    q = ctx.quick()
    # environment table: which specs share a cache key under pyproj's hash/eq
    p = subprocess.run([sys.executable, os.path.join(HERE, "vh", "crs_keytable.py")], env=dict(os.environ, PYTHONHASHSEED="0"),
                       capture_output=True, text=True)
    if p.returncode != 0:
        raise MachineryError("crs_keytable failed: " + p.stderr[-800:])
    kt = os.path.join(ctx.scratch, "keytable.json")
    open(kt, "w").write(p.stdout)
    ctx.extra["key_table"] = json.loads(p.stdout)
    env = {"KEY_TABLE": kt}
    ctx.model_check("crs/MC_CrsCache.tla", "MC_CrsCache_state.cfg" if q else "MC_CrsCache_state3.cfg", env=env, timeout=3000)
    ctx.model_check("crs/MC_CrsCache.tla", "MC_CrsCache_evict.cfg", env=env, expect_violation="TransformerMatchesRequest", timeout=600,
                    label="MC_CrsCache/evict (a bounded cache WOULD hand out stale transformers: the cache is load bearing)")
    ctx.model_check("crs/MC_CrsCache.tla", "MC_CrsCache_strstable.cfg", env=env, expect_violation="StrStable", timeout=600,
                    label="MC_CrsCache/strstable (known finding C19-F1: string form depends on history)")
    res, hists = ctx.model_check("crs/MC_CrsCache.tla", "MC_CrsCache_sim.cfg", env=env, emit=True, timeout=900,
                                 simulate=f"num={60 if q else 1500}", depth=9, seed=ctx.seed, workers=1, label="MC_CrsCache/simulated histories")
    hists.sort(key=lambda c: json.dumps(c, sort_keys=True))
    hists = ctx.subsample(hists, 1000 if q else 30000)
    # long histories over many CRS classes (cache pressure) and directed what-if histories from the evicting model
    for cfgname, num, depth, cap in (("stress", 20 if q else 600, 19, 200 if q else 6000), ("whatif", 300 if q else 60000, 12, 400 if q else 8000)):
        res, hs = ctx.model_check("crs/MC_CrsCache.tla", f"MC_CrsCache_{cfgname}.cfg", env=env, emit=True, timeout=900,
                                  simulate=f"num={num}", depth=depth, seed=ctx.seed, workers=1, label=f"MC_CrsCache/{cfgname} histories")
        hs.sort(key=lambda c: json.dumps(c, sort_keys=True))
        hists += ctx.subsample(hs, cap)
        ctx.extra[f"histories_{cfgname}"] = min(len(hs), cap)
    res, hs = ctx.model_check("crs/CrsChurn.tla", "CrsChurn.cfg", emit=True, timeout=600)
    hs.sort(key=lambda c: json.dumps(c, sort_keys=True))
    by = {}
    for h in hs:
        by.setdefault((h.get("rt"), h.get("mode")), []).append(h)
    hs = [h for k in sorted(by) for h in ctx.subsample(by[k], 5 if q else 40)]      # balanced over (route, churn mode)
    ctx.extra["histories_churn"] = len(hs)
    hists += hs
    nb = 16
    jobs = [(hists[i::nb], ctx.scratch, i) for i in range(nb) if hists[i::nb]]
    outs = ctx.pmap(_run_worker, jobs, procs=16) if len(jobs) >= 64 else None
    if outs is None:
        import multiprocessing as mp
        with mp.get_context("fork").Pool(len(jobs)) as pool:
            outs = pool.map(_run_worker, jobs)
    events = []
    for o in outs:
        if isinstance(o, str):
            raise MachineryError(o)
        events.extend(o)
    verdicts = ctx.validate("crs/CrsTrace.tla", events, "CrsTrace.cfg", batch=6000)
    for ev, v in zip(events, verdicts):
        st = ev["st"]
        tags = set()
        if st["op"] in ("make", "pickle") and st["route"] not in ("int", "epsgstr", "authstr"):
            tags.add("spec_is_wkt_json_or_pyproj_object")
        # a pickle carries the source's string form, and unpickling re-runs CRS(<that text>): the finding's input is WKT / PROJJSON TEXT - decided
        # by what was observed to travel, not only by the route the model expected (the two differ where the model's key table and pyproj disagree)
        if st["op"] == "pickle" and ev["ob"].get("payload") == "text":
            tags.add("spec_is_wkt_json_or_pyproj_object")
        ctx.record({"st": st, "tid": ev["tid"], "k": ev["k"]}, v, op="history:" + st["op"], tags=tags, conformance=True,
                   nontrivial=st["op"] in ("make", "copy", "pickle", "transform"), sample={"step": st, "observed": ev["ob"]})
    ctx.traces_validated = len(hists)
    # ---- value laws
    res, fams = ctx.model_check("crs/ValueGen.tla", "ValueGen.cfg", emit=True, timeout=600)
    fams.sort(key=lambda c: c["fam"])
    vevents = []
    for f in fams:
        vevents.extend(family_events(f))
    vverdicts = ctx.validate("crs/ValueTrace.tla", vevents, "ValueTrace.cfg", batch=4000)
    for ev, v in zip(vevents, vverdicts):
        ctx.record(_ev_case(ev), v, op=f"{ev['kind']}:{ev['fam']}", tags=_ev_tags(ev), conformance=ev["kind"] == "pair",
                   sample={k: ev[k] for k in ev if k != "eq"})
    ctx.traces_validated += len(fams)
    ctx.rule = ("history events = steps of TLC-simulated construction/copy/pickle/drop/transformer histories (3 client variables, 2 CRS classes, 8 construction "
                "routes) replayed in fresh interpreters; value events = every ordered pair, every object and the transitivity matrix of 13 families of "
                "near-identical values; non-trivial = constructing / transformer steps and all value events; distinct by step or descriptor pair")
    ctx.assumptions = ["clearing odc.geo.crs caches between histories is equivalent to a fresh interpreter",
                       "which specs share a cache key is tabulated from pyproj's own hash/eq (environment table)",
                       "transformer correctness is judged against a freshly built pyproj.Transformer on one probe point per class"]
    ctx.oracle_clauses = ["transformer output compared with pyproj.Transformer.from_crs (fresh)"]


def replay(ctx, obj):
    c = obj["case"]
    if "kind" in c:
        fams = ctx.model_check("crs/ValueGen.tla", "ValueGen.cfg", emit=True, timeout=600)[1]
        t = (c.get("di") or c.get("d") or {}).get("t")
        for f in fams:
            if c["kind"] == "trans" and f["fam"] != c["fam"]:
                continue
            evs = family_events(f)
            for ev in evs:
                if _ev_case(ev) == c:
                    v = ctx.validate("crs/ValueTrace.tla", [ev], "ValueTrace.cfg")[0]
                    print(f"replay: {json.dumps({k: ev[k] for k in ev if k != 'eq'})} verdict={v}")
                    ctx.record(c, v, op=obj.get("op", ""), tags=_ev_tags(ev))
                    return
        raise MachineryError("case not found in the families")
    raise MachineryError("history steps are replayed by re-running the check with the same VERIF_SEED")
