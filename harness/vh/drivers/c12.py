"""C12 - tile queries and tile dependency graphs are complete.
M+G: spec/warp/TileGen.tla (tilings x query polygons x bases; pairs of tiled boxes related by rational maps or the exact-translation CRS;
the transcribed linear path is checked complete by TLC);  real code: GeoboxTiles.tiles / range_from_bbox / grid_intersect;
V: spec/warp/TileTrace.tla (exact separating-axis test; first-principles Needs)."""
import json

from ..core import idx
from ..reproj_common import D, boxes
from .c16 import CRS_A, CRS_B


def _query(c):
    from affine import Affine

    from odc.geo import geom as G
    from odc.geo.geobox import GeoBox, GeoboxTiles

    B = Affine(*[float(v) for v in c["B"]])
    H, W = sum(c["chy"]), sum(c["chx"])
    gbt = GeoboxTiles(GeoBox((H, W), B, CRS_A), (tuple(c["chy"]), tuple(c["chx"])))
    wpts = [B * (float(x), float(y)) for x, y in c["pq"]]
    q = [[int(round(x)), int(round(y))] for x, y in wpts]
    how = c["how"]
    ev = {"op": "query", "c": c, "B": c["B"], "chy": c["chy"], "chx": c["chx"], "q": q, "exact": how != "range", "outcome": "ok", "out": []}
    try:
        if how == "geom":
            out = list(gbt.tiles(G.polygon(wpts + [wpts[0]], CRS_A)))
        elif how == "line":
            ev["q"] = q[:2]
            out = list(gbt.tiles(G.line(wpts[:2], CRS_A)))
        elif how == "geom_other_crs":
            pts = [(x + 1024, y + 2048) for x, y in wpts]
            out = list(gbt.tiles(G.polygon(pts + [pts[0]], CRS_B)))
        else:
            xs, ys = [p[0] for p in wpts], [p[1] for p in wpts]
            bb = G.BoundingBox(min(xs), min(ys), max(xs), max(ys), CRS_A)
            ev["q"] = [[int(round(x)), int(round(y))] for x, y in ((bb.left, bb.bottom), (bb.right, bb.bottom), (bb.right, bb.top), (bb.left, bb.top))]
            if how == "bbox":
                out = list(gbt.tiles(bb))
            else:
                yy, xx = gbt.range_from_bbox(bb)
                out = [(y, x) for y in yy for x in xx]
        ev["out"] = [[idx(a), idx(b)] for a, b in out]
    except Exception as ex:  # noqa: BLE001
        ev["outcome"] = type(ex).__name__
    return ev


def _tspec(chy, chx, salt):
    """the tiling as the API takes it: chunk tuples, or - when the chunks are those of a regular tiling (equal sizes, a smaller or equal remainder
    last) - for every other case the plain tile shape (regular Tiles instead of VariableSizedTiles)"""
    def regular(ch):
        return all(v == ch[0] for v in ch[:-1]) and ch[-1] <= ch[0]
    if regular(chy) and regular(chx) and (salt // 60) % 2 == 0:
        return (chy[0], chx[0])
    return (tuple(chy), tuple(chx))


def _pair(c):
    from affine import Affine

    from odc.geo.geobox import GeoBox, GeoboxTiles

    ev = {"op": "pair", "c": c, "sy": c["sy"], "sx": c["sx"], "dy": c["dy"], "dx": c["dx"], "outcome": "ok", "deps": []}
    try:
        src, dst = boxes(c)
        # put both rasters near the origin of the exact tmerc family
        src = GeoBox(src.shape, src.affine, CRS_A)
        if c["crs"] == "other":
            a = dst.affine
            dst = GeoBox(dst.shape, Affine(a.a, a.b, a.c + 1024, a.d, a.e, a.f + 2048), CRS_B)
        else:
            dst = GeoBox(dst.shape, dst.affine, CRS_A)
        gs = GeoboxTiles(src, _tspec(c["sy"], c["sx"], c["A"][2]))
        gd = GeoboxTiles(dst, _tspec(c["dy"], c["dx"], c["A"][5]))
        deps = gd.grid_intersect(gs)
        ev["deps"] = [{"d": [idx(k[0]), idx(k[1])], "s": [[idx(a), idx(b)] for a, b in v]} for k, v in sorted(deps.items())]
    except Exception as ex:  # noqa: BLE001
        ev["outcome"] = type(ex).__name__
    return ev


RSRC = {"32633": ((400000.0, 5500000.0, 1000000.0, 6100000.0), 60), "4326": ((5.0, 40.0, 25.0, 60.0), 60), "3035": ((3000000.0, 2000000.0, 5000000.0, 4000000.0), 60),
        "3577": ((-1500000.0, -4000000.0, 1000000.0, -1500000.0), 60), "3575": ((-3000000.0, -4000000.0, 1000000.0, -500000.0), 60)}


def _rpair(c):
    """tiled pair in really different CRSs; environment table (fresh pyproj): which (dst tile, src tile) pairs overlap beyond doubt"""
    import numpy as np
    import pyproj

    from odc.geo.geobox import GeoBox, GeoboxTiles
    from odc.geo.geom import BoundingBox

    sy, sx = c["st"]
    dy, dx = c["dt"]
    ev = {"op": "rpair", "c": c, "sy": sy, "sx": sx, "dy": dy, "dx": dx, "outcome": "ok", "deps": [], "need": [], "apart": False}
    try:
        s, d = c["pair"].split(">")
        glob = s.endswith("G")
        if glob:
            s = s[:-1]
            box = (-180.0, -90.0, 180.0, 90.0) if s == "4326" else (-20037508.342789244, -20037508.342789244, 20037508.342789244, 20037508.342789244)
        else:
            box, n = RSRC[s]
        src = GeoBox.from_bbox(box, f"epsg:{s}", shape=(sum(sy), sum(sx)), tight=True)
        # footprint of the source in the destination CRS from fresh pyproj (dense boundary)
        tr = pyproj.Transformer.from_crs(int(s), int(d), always_xy=True)
        if glob:
            # the destination is the regional raster of its CRS; nothing is derived from the (degenerate) projected source footprint
            dst = GeoBox.from_bbox(BoundingBox(*RSRC[d][0], f"epsg:{d}"), shape=(sum(dy), sum(dx)), tight=True)
        t = np.linspace(0, 1, 201)
        bx = np.concatenate([box[0] + (box[2] - box[0]) * t, np.full(201, box[2]), box[2] - (box[2] - box[0]) * t, np.full(201, box[0])])
        by = np.concatenate([np.full(201, box[1]), box[1] + (box[3] - box[1]) * t, np.full(201, box[3]), box[3] - (box[3] - box[1]) * t])
        fx, fy = tr.transform(bx, by)
        l, r, b, tp = float(np.min(fx)), float(np.max(fx)), float(np.min(fy)), float(np.max(fy))
        w, h = r - l, tp - b
        k = 1.0 if c["zoom"] == "same" else 1.6
        x0, y0 = l + c["dx"] / 10 * w, b + c["dy"] / 10 * h
        if glob:
            pass
        elif d == "4326" and not (-180 <= x0 and x0 + 0.8 * w * k <= 180 and -89 <= y0 and y0 + 0.8 * h * k <= 89):
            ev["outcome"] = "skip_destination_outside_the_valid_area_of_its_crs"
            return ev
        if not glob:
            dst = GeoBox.from_bbox(BoundingBox(x0, y0, x0 + 0.8 * w * k, y0 + 0.8 * h * k, f"epsg:{d}"), shape=(sum(dy), sum(dx)), tight=True)
        gs, gd = GeoboxTiles(src, (tuple(sy), tuple(sx))), GeoboxTiles(dst, (tuple(dy), tuple(dx)))
        deps = gd.grid_intersect(gs)
        ev["deps"] = [{"d": [idx(kk[0]), idx(kk[1])], "s": [[idx(a), idx(bb)] for a, bb in v]} for kk, v in sorted(deps.items())]
        # environment table: destination pixel centres -> source pixel coordinates
        back = pyproj.Transformer.from_crs(int(d), int(s), always_xy=True)
        hd, wd = dst.shape
        qq, rr = np.meshgrid(np.arange(wd) + 0.5, np.arange(hd) + 0.5)
        A = dst.affine
        wx, wy = back.transform(A.a * qq + A.b * rr + A.c, A.d * qq + A.e * rr + A.f)
        B = ~src.affine
        px, py = B.a * wx + B.b * wy + B.c, B.d * wx + B.e * wy + B.f
        ey, ex = np.cumsum([0] + list(sy)), np.cumsum([0] + list(sx))
        dey, dex = np.cumsum([0] + list(dy)), np.cumsum([0] + list(dx))
        need = []
        for i in range(len(dy)):
            for j in range(len(dx)):
                tx, ty = px[dey[i]:dey[i + 1], dex[j]:dex[j + 1]], py[dey[i]:dey[i + 1], dex[j]:dex[j + 1]]
                for a in range(len(sy)):
                    for bb in range(len(sx)):
                        m = 1.0 if (sy[a] > 2 and sx[bb] > 2) else 0.25
                        inside = np.isfinite(tx) & (tx > ex[bb] + m) & (tx < ex[bb + 1] - m) & (ty > ey[a] + m) & (ty < ey[a + 1] - m)
                        if int(inside.sum()) >= 3:
                            need.append([i, j, a, bb])
        ev["need"] = need
        fin = np.isfinite(px) & np.isfinite(py)
        ev["apart"] = bool(not (fin & (px > -3) & (px < src.shape[1] + 3) & (py > -3) & (py < src.shape[0] + 3)).any()
                           and (c["dx"] >= 20 or c["dx"] <= -20))
    except Exception as ex:  # noqa: BLE001
        ev["outcome"] = type(ex).__name__
    return ev


def _wpair(c):
    """destination tiles tens of degrees wide (lon/lat) over a polar-projection source cut into small tiles along the destination's low-latitude edge:
    that edge is a strongly curved arc in the source CRS.  Environment table (fresh pyproj, source -> destination): a source tile with three or more
    pixel centres well inside a destination tile's lon/lat rectangle overlaps it beyond doubt."""
    import numpy as np
    import pyproj
    from affine import Affine

    from odc.geo.geobox import GeoBox, GeoboxTiles

    sy, sx = c["st"]
    dy, dx = c["dt"]
    ev = {"op": "rpair", "c": c, "sy": sy, "sx": sx, "dy": dy, "dx": dx, "outcome": "ok", "deps": [], "need": [], "apart": False}
    try:
        s = c["pair"].split(">")[0]
        south = s == "3031"
        lat_edge = -50.0 if south else 50.0
        fwd = pyproj.Transformer.from_crs(int(s), 4326, always_xy=True)
        cx, cy = pyproj.Transformer.from_crs(4326, int(s), always_xy=True).transform(0.0 if south else -45.0 if s == "3413" else 10.0, lat_edge)
        # the source: 2 km pixels, centred on the point where the destination's edge (lat +-50) crosses its middle meridian
        px = 2000.0
        h, w = sum(sy), sum(sx)
        src = GeoBox((h, w), Affine(px, 0, round(cx) - w * px / 2, 0, -px, round(cy) + h * px / 2), f"epsg:{s}")
        lon0 = fwd.transform(cx, cy)[0]
        # the destination: one row of lon/lat tiles 30 / 60 / 30 degrees wide, 8 degrees tall, 1 degree pixels, its low-latitude edge at +-50
        top = lat_edge if not south else lat_edge
        dst = GeoBox((sum(dy), sum(dx)), Affine(1.0, 0, lon0 - sum(dx) / 2, 0, -1.0, (lat_edge + sum(dy)) if not south else lat_edge), "epsg:4326")
        gs, gd = GeoboxTiles(src, (tuple(sy), tuple(sx))), GeoboxTiles(dst, (tuple(dy), tuple(dx)))
        deps = gd.grid_intersect(gs)
        ev["deps"] = [{"d": [idx(kk[0]), idx(kk[1])], "s": [[idx(a), idx(bb)] for a, bb in v]} for kk, v in sorted(deps.items())]
        qq, rr = np.meshgrid(np.arange(w) + 0.5, np.arange(h) + 0.5)
        A = src.affine
        lo, la = fwd.transform(A.a * qq + A.c, A.e * rr + A.f)
        B = ~dst.affine
        dpx, dpy = B.a * lo + B.c, B.e * la + B.f                     # destination pixel coordinates of every source pixel centre
        ey, ex = np.cumsum([0] + list(sy)), np.cumsum([0] + list(sx))
        dey, dex = np.cumsum([0] + list(dy)), np.cumsum([0] + list(dx))
        m = 0.05                                                      # margin: 1/20 destination pixel (~ 3 source pixels)
        need = []
        for i in range(len(dy)):
            for j in range(len(dx)):
                inside = (dpx > dex[j] + m) & (dpx < dex[j + 1] - m) & (dpy > dey[i] + m) & (dpy < dey[i + 1] - m)
                for a in range(len(sy)):
                    for bb in range(len(sx)):
                        if int(inside[ey[a]:ey[a + 1], ex[bb]:ex[bb + 1]].sum()) >= 3:
                            need.append([i, j, a, bb])
        ev["need"] = need
    except Exception as ex:  # noqa: BLE001
        ev["outcome"] = type(ex).__name__
    return ev


RGRID = {"3575": (-3000000.0, -4000000.0, 1000000.0, -500000.0), "3035": (3000000.0, 2000000.0, 5000000.0, 4000000.0), "32633": (400000.0, 5500000.0, 1000000.0, 6100000.0)}
RQ_CENTRE = {"3575": (10.0, 0.0), "3035": (0.0, 0.0), "32633": (4.0, 2.0)}      # offsets (degrees) that put the family of centres over each grid


def _rquery(c):
    """ellipse in lon/lat against a tiled grid in a really different CRS; environment table from fresh pyproj"""
    import numpy as np
    import pyproj

    from odc.geo import geom as G
    from odc.geo.geobox import GeoBox, GeoboxTiles

    chy, chx = c["tiling"]
    ev = {"op": "rquery", "c": c, "outcome": "ok", "out": [], "need": [], "far": []}
    try:
        gb = GeoBox.from_bbox(RGRID[c["grid"]], f"epsg:{c['grid']}", shape=(sum(chy), sum(chx)), tight=True)
        gbt = GeoboxTiles(gb, (tuple(chy), tuple(chx)))
        # centre: the grid's own centre in lon/lat, moved by the case's offsets
        ll = pyproj.Transformer.from_crs(int(c["grid"]), 4326, always_xy=True)
        bx = RGRID[c["grid"]]
        lon0, lat0 = ll.transform((bx[0] + bx[2]) / 2, (bx[1] + bx[3]) / 2)
        lon0 += (c["lon"] - 150) / 10 / 4
        lat0 = min(84.0, max(-84.0, lat0 + (c["lat"] - 550) / 10 / 4))
        a, b = c["a"] / 10, c["b"] / 10
        t = np.linspace(0, 2 * np.pi, 181)[:-1]
        ring = [(lon0 + a * np.cos(u), lat0 + b * np.sin(u)) for u in t]
        if any(abs(y) > 89 or abs(x) > 179 for x, y in ring):
            ev["outcome"] = "skip_destination_outside_the_valid_area_of_its_crs"
            return ev
        poly = G.polygon(ring + ring[:1], "epsg:4326")
        ev["out"] = [[idx(r_), idx(c_)] for r_, c_ in gbt.tiles(poly)]
        # environment: a polar grid of sample points strictly inside the ellipse -> pixel coordinates of the grid
        rr, uu = np.meshgrid(np.linspace(0.02, 0.97, 40), np.linspace(0, 2 * np.pi, 145)[:-1])
        sx, sy = lon0 + a * rr * np.cos(uu), lat0 + b * rr * np.sin(uu)
        fw = pyproj.Transformer.from_crs(4326, int(c["grid"]), always_xy=True)
        wx, wy = fw.transform(sx.ravel(), sy.ravel())
        B = ~gb.affine
        px, py = B.a * wx + B.b * wy + B.c, B.d * wx + B.e * wy + B.f
        ok = np.isfinite(px) & np.isfinite(py)
        px, py = px[ok], py[ok]
        ey, ex = np.cumsum([0] + list(chy)), np.cumsum([0] + list(chx))
        for i in range(len(chy)):
            for j in range(len(chx)):
                inside = (px > ex[j] + 0.25) & (px < ex[j + 1] - 0.25) & (py > ey[i] + 0.25) & (py < ey[i + 1] - 0.25)
                if int(inside.sum()) >= 3:
                    ev["need"].append([i, j])
                # far: no sample point (nor the dense outline) within 3 pixels of the tile
        ox, oy = fw.transform(np.array([p[0] for p in ring]), np.array([p[1] for p in ring]))
        qx, qy = B.a * ox + B.b * oy + B.c, B.d * ox + B.e * oy + B.f
        ax, ay = np.concatenate([px, qx]), np.concatenate([py, qy])
        for i in range(len(chy)):
            for j in range(len(chx)):
                near = (ax > ex[j] - 3) & (ax < ex[j + 1] + 3) & (ay > ey[i] - 3) & (ay < ey[i + 1] + 3)
                if not near.any() and not (qx.min() < ex[j] and qx.max() > ex[j + 1] and qy.min() < ey[i] and qy.max() > ey[i + 1]):
                    ev["far"].append([i, j])
    except Exception as ex:  # noqa: BLE001
        ev["outcome"] = type(ex).__name__
    return ev


def execute(c):
    if c["op"] == "rquery":
        return _rquery(c)
    if c["op"] == "rpair" and c["zoom"] == "wide":
        return _wpair(c)
    return _query(c) if c["op"] == "query" else (_rpair(c) if c["op"] == "rpair" else _pair(c))


def _validate(ctx, events):
    return ctx.validate("warp/TileTrace.tla", events, "TileTrace.cfg", batch=1200)


def run(ctx):
    q = ctx.quick()
    res, cases = ctx.model_check("warp/TileGen.tla", "MC_Tile_quick.cfg" if q else "MC_Tile_thorough.cfg", emit=True, timeout=3000)
    cases.sort(key=lambda c: json.dumps(c, sort_keys=True))
    total = len(cases)
    qs = [c for c in cases if c["op"] == "query"]
    ps = [c for c in cases if c["op"] == "pair"]
    ident = lambda c: c["A"] == [960, 0, 0, 0, 960, 0] and c["crs"] == "same" and (c["hs"], c["ws"]) == (c["hd"], c["wd"])  # noqa: E731
    same = [c for c in ps if ident(c)]                                   # one grid tiled twice: all kept
    ps = [c for c in ps if not ident(c)]
    same += [c for c in cases if c["op"] == "rquery"]
    rs = [c for c in cases if c["op"] == "rpair" and c["zoom"] not in ("global", "wide")]
    same += [c for c in cases if c["op"] == "rpair" and c["zoom"] in ("global", "wide")]        # sources wrapping the globe: all kept
    cases = ctx.subsample(qs, 6000 if q else 10 ** 6) + ctx.subsample(ps, 2500 if q else 10 ** 6) + same + ctx.subsample(rs, 400 if q else 10 ** 6)
    events = ctx.pmap(execute, cases)
    verdicts = _validate(ctx, events)
    for ev, v in zip(events, verdicts):
        c = ev["c"]
        if c["op"] == "query":
            ctx.record(c, v, op="query:" + c["how"], nontrivial=len(ev["out"]) > 0, sample={"case": c, "query": ev["q"], "tiles": ev["out"]})
        elif c["op"] == "rquery":
            ctx.record(c, v, op="query:real-crs:" + c["grid"], nontrivial=len(ev["need"]) > 0, sample={"case": c, "tiles": ev["out"], "must": ev["need"], "far": len(ev["far"])})
        elif c["op"] == "rpair":
            ctx.record(c, v, op="graph:real-crs:" + c["pair"], nontrivial=len(ev["need"]) > 0, sample={"case": c, "deps": ev["deps"][:4], "needed_pairs": len(ev["need"]), "apart": ev["apart"]})
        else:
            ctx.record(c, v, op="graph:" + ("general" if (c["crs"] == "other" or c["A"][1] != 0) else "linear"),
                       nontrivial=any(d["s"] for d in ev["deps"]), sample={"case": c, "deps": ev["deps"][:4]})
    ctx.traces_validated = len(events)
    ctx.exhaustive = len(cases) == total
    ctx.extra["domain_cases_total"] = total
    ctx.rule = ("query cases = 5 base grids (north-up, mirrored, flipped, 90deg, Pythagorean) x 4 tilings (regular, variable, single tile) x boxes / triangles / diamonds inside, straddling, "
                "outside and larger than the raster x {geometry, geometry in the exact-translation CRS, bounding box, range_from_bbox}; graph cases = tiled pairs related by scales "
                "{1,-1,2,1/2,3/2}, shifts with residues {0,+-1/16,1/2}, 90deg and 3-4-5 rotations, from overlapping to disjoint, in the same CRS (linear / general path) and in the "
                "exact-translation CRS (general path); plus tiled pairs in 6 really different CRS pairs (curved footprints, placements from inside to far apart, regular / variable / 1-pixel tiles) against a "
                "fresh-pyproj table of the tile pairs that overlap beyond doubt; non-trivial = something returned; distinct by input")
    ctx.assumptions = ["zero-area contacts between a query and a tile are neither required nor forbidden", "shapely predicates are not used as an oracle (exact integer separating-axis test in TLA+)",
                       "exact tmerc CRS family for cross-CRS cases"]


def replay(ctx, obj):
    ev = execute(obj["case"])
    v = _validate(ctx, [ev])[0]
    print(f"replay: {json.dumps(ev)[:1500]} verdict={v}")
    ctx.record(obj["case"], v, op=obj.get("op", ""))
    ctx.traces_validated = 1
