"""C04 - tilings are exact partitions and blocks reassemble the mosaic.
M+G: spec/tiles/TilingGen.tla (1-d tiling model, all small axes / chunk tuples / crops), spec/tiles/BlocksGen.tla
(layouts x all subsets of present blocks x all windows);  real code: Tiles, VariableSizedTiles, clip_tiles,
GeoboxTiles, BlockAssembler;  V: spec/tiles/TilingTrace.tla."""
import json

import numpy as np

from ..core import MachineryError, idx


def _lat(v):
    r = round(v)
    if abs(v - r) > 1e-9:
        raise OffLattice(v)
    return int(r)


class OffLattice(Exception):
    pass


class TileAddressedByAnIndexObjectDiffers(Exception):
    pass


def _reg(roi):
    ry, rx = roi
    return [idx(ry.start), idx(ry.stop), idx(rx.start), idx(rx.stop)]


def _tables(gbt, d, crops, parent):
    """Log every answer of the real tiling object (and of the GeoboxTiles wrapping it)."""
    t = gbt.roi
    ny, nx = (idx(v) for v in t.shape.yx)
    NY, NX = (idx(v) for v in t.base.yx)
    chunks = [[idx(v) for v in ch] for ch in t.chunks]
    regions = [[_reg(t[r, c]) for c in range(nx)] for r in range(ny)]
    neg = [[_reg(t[r - ny, c - nx]) for c in range(nx)] for r in range(ny)]
    # a tile may be addressed by a (row, col) tuple or by an index OBJECT (iyx_(row, col), ixy_(col, row)): same tile, same answers
    from odc.geo.types import ixy_, iyx_
    for r in range(ny):
        for c in range(nx):
            for ix in (iyx_(r, c), ixy_(c, r)):
                if _reg(t[ix]) != regions[r][c] or tuple(t.tile_shape(ix).yx) != tuple(t.tile_shape((r, c)).yx) \
                        or tuple(gbt.chunk_shape(ix).yx) != tuple(gbt.chunk_shape((r, c)).yx) or gbt[ix] != gbt[r, c]:
                    raise TileAddressedByAnIndexObjectDiffers(f"{ix}")
    tshape = [[[idx(v) for v in t.tile_shape((r, c)).yx] for c in range(nx)] for r in range(ny)]
    cshape = [[[idx(v) for v in gbt.chunk_shape((r, c)).yx] for c in range(nx)] for r in range(ny)]
    if cshape != tshape or [list(map(idx, ch)) for ch in gbt.chunks] != chunks or tuple(gbt.shape.yx) != (ny, nx):
        tshape = [[[-1, -1]] * nx] * ny  # GeoboxTiles disagrees with its own ROI tiling: rejected by the table verdict
    locate = [[[idx(v) for v in t.locate((y, x))] for x in range(NX)] for y in range(NY)]
    oob = []
    # (a variable-sized tiling answers an index below -n with an inverted slice instead of refusing it; the statement is about indices of
    #  the tiling, so that probe is made on regular tilings only - noted in DESIGN.md)
    below = [(-ny - 1, 0), (0, -nx - 1)] if d["kind"] == "reg" else []
    for kind, fn, probes in (("tile", lambda i: t[i], [(ny, 0), (0, nx), (ny + 3, nx + 3)] + below),
                             ("tile_shape", t.tile_shape, [(ny, 0), (0, nx)]),
                             ("pixel", t.locate, [(NY, 0), (0, NX), (-1, 0), (0, -1), (NY + 5, NX + 5)])):
        for pr in probes:
            try:
                fn(pr)
                oob.append([kind, int(pr[0]), int(pr[1])])
            except IndexError:
                pass
    rois = []
    for r0 in range(ny):
        for r1 in range(r0 + 1, ny + 1):
            for c0 in range(nx):
                for c1 in range(c0 + 1, nx + 1):
                    rois.append({"q": [r0, r1, c0, c1], "out": _reg(t[r0:r1, c0:c1])})
    a = gbt.base.affine
    gb = [_lat(v) for v in (a.a, a.b, a.c, a.d, a.e, a.f)]
    tgb = []
    for r in range(ny):
        row = []
        for c in range(nx):
            g = gbt[r, c]
            ga = g.affine
            row.append([idx(g.shape[0]), idx(g.shape[1])] + [_lat(v) for v in (ga.a, ga.b, ga.c, ga.d, ga.e, ga.f)])
        tgb.append(row)
    return {"kind": "tiling", "d": d, "crops": crops, "outcome": "ok", "t": [ny, nx], "base": [NY, NX], "chunks": chunks,
            "regions": regions, "neg": neg, "oob": oob, "tshape": tshape, "locate": locate, "rois": rois, "gb": gb, "tgb": tgb,
            "parent": parent}


def run_tiling(case):
    from affine import Affine

    from odc.geo.geobox import GeoBox, GeoboxTiles

    d, crops = case["d"], case["crops"]
    try:
        if d["kind"] == "reg":
            shape, how = tuple(d["base"]), tuple(d["tile"])
        else:
            shape, how = (sum(d["cy"]), sum(d["cx"])), (tuple(d["cy"]), tuple(d["cx"]))
        gbox = GeoBox(shape, Affine(*d["aff"]), "epsg:3857")
        gbt = GeoboxTiles(gbox, how)
        parent = []
        for k, q in enumerate(crops):
            ptab = _tables(gbt, d, crops[:k], [])
            # the same block of tiles spelled the way users write it: open ends, negative stops / starts, a bare index for one row / column
            ty, tx = (idx(v) for v in gbt.shape.yx) if hasattr(gbt.shape, "yx") else tuple(gbt.shape)
            style = (sum(q) + 3 * k + d.get("base", [0])[0]) % 5

            def spell(a, b, n, st):
                if st == 1:
                    return slice(None if a == 0 else a, None if b == n else b)
                if st == 2:
                    return slice(a - n if a > 0 else a, b - n if b < n else None)
                if st == 4 and a == 0:
                    # "the last n + 2": a negative start reaching beyond the first tile is the first tile, as for any sequence
                    return slice(-(n + 2), b)
                if st == 3 and b - a == 1:
                    return a if a < n - 1 else -1
                return slice(a, b)

            roi = (spell(q[0], q[1], ty, style), spell(q[2], q[3], tx, style))
            if (k + q[1] + q[3]) % 2 == 0:
                nxt = gbt.crop[roi]
            else:
                # the same crop through clip(): any selection of tiles whose bounding block (Tiling!BlockOf) is q -
                # main-diagonal corners, anti-diagonal corners, or an L-shaped / unordered pick, in either order
                y0, y1, x0, x1 = q[0], q[1] - 1, q[2], q[3] - 1
                sel = [[(y0, x0), (y1, x1)], [(y0, x1), (y1, x0)], [(y1, x0), ((y0 + y1) // 2, (x0 + x1 + 1) // 2), (y0, x1)],
                       [(y1, x1), (y0, x0)]][(sum(q) + len(crops) + d.get("base", [0])[0]) % 4]
                nxt, new_idx = gbt.clip(sel)
                if [tuple(i) for i in new_idx] != [(y - y0, x - x0) for y, x in sel]:
                    return {"kind": "tiling", "d": d, "crops": crops, "outcome": "clip_indices_not_rebased"}
            parent = [{"q": q, "preg": ptab["regions"], "pgb": ptab["gb"]}]
            gbt = nxt
        return _tables(gbt, d, crops, parent)
    except OffLattice:
        return {"kind": "tiling", "d": d, "crops": crops, "outcome": "off_lattice_affine"}
    except Exception as ex:  # noqa: BLE001
        return {"kind": "tiling", "d": d, "crops": crops, "outcome": type(ex).__name__}


def _fill_in(ev):
    """events that failed before the tables exist still need every field the spec reads lazily"""
    return ev


def run_blocks(case):
    from odc.geo._blocks import BlockAssembler
    from odc.geo.roi import VariableSizedTiles

    e = dict(case)
    e["kind"] = "blocks"
    chy, chx = case["chy"], case["chx"]
    H, W = sum(chy), sum(chx)
    pre, post, axis = case["pre"], case["post"], case["axis"]
    if not case["present"]:
        # with no block at all the assembler cannot know about extra axes: plain 2-d
        pre, post, axis = 0, 0, 0
        e["pick"] = []
        case = dict(case, pick=[])
    prefix = (pre,) if axis == 1 else ()
    postfix = (post,) if post else ()
    nplanes = int(np.prod(prefix + postfix)) if prefix + postfix else 1
    dtype = np.dtype(case["dtype"])
    e["nplanes"] = nplanes
    e["vk"] = "parity" if dtype == np.bool_ else "id"
    # full mosaic of ids, planes flattened in C order over (prefix, postfix)
    ids = np.zeros(prefix + (H, W) + postfix, dtype="int64")
    for p, idx in enumerate(np.ndindex(prefix + postfix)):
        plane = 1 + np.arange(W)[None, :] + W * (np.arange(H)[:, None] + H * p)
        sel = idx[:len(prefix)] + (slice(None), slice(None)) + idx[len(prefix):]
        ids[sel] = plane
    vals = (ids % 2 == 1) if dtype == np.bool_ else ids.astype(dtype)
    tiles = VariableSizedTiles((tuple(chy), tuple(chx)))
    blocks = {}
    mixed = case.get("mixed")
    for k, (r, c) in enumerate(case["present"]):
        ry, rx = tiles[r, c]
        sel = (slice(None),) * len(prefix) + (ry, rx) + (slice(None),) * len(postfix)
        if mixed and k == 0:
            blocks[(r, c)] = vals[sel].astype(mixed)            # ids are small: they fit the narrow type
        elif mixed:
            blocks[(r, c)] = (vals[sel] + 1000).astype(dtype)   # values only the wide type can hold (mapped back to ids below)
        else:
            blocks[(r, c)] = vals[sel].copy()
    if mixed and len(case["present"]) < 2:
        dtype = np.dtype(mixed) if case["present"] else dtype
    w = case["win"]
    try:
        asm = BlockAssembler(blocks, (tuple(chy), tuple(chx)), axis=axis)
        kw = {}
        if case["fillarg"]:
            kw["fill_value"] = case["fillarg"][0]
        if not blocks:
            # with no block at all the assembler cannot know the dtype: the caller names one that can hold the fill value
            kw["dtype"] = np.result_type(dtype, np.min_scalar_type(case["fillarg"][0])) if case["fillarg"] else dtype
            dtype = np.dtype(kw["dtype"])
        yx = (slice(w[0], w[1]), slice(w[2], w[3]))
        # the assembler's own description of the mosaic, and its other ways of naming a window, agree with the plain extract
        if blocks and tuple(asm.shape) != prefix + (H, W) + postfix:
            return dict(e, outcome="assembler_shape_is_not_the_mosaic_shape", out=[])
        if blocks and not mixed and asm.dtype != dtype:
            return dict(e, outcome="assembler_dtype_is_not_the_block_dtype", out=[])
        if blocks and (w[0] + w[2] + len(case["present"])) % 3 == 0:
            full = asm.extract(**kw)                                     # roi=None: everything
            planes = list(asm.planes_yx())
            if len(planes) != nplanes or full.shape != tuple(asm.shape):
                return dict(e, outcome="planes_yx_does_not_enumerate_the_planes", out=[])
            for pr in planes:
                a, b = asm.extract(roi=pr, **kw), full[pr]
                if a.shape != b.shape or not np.array_equal(a, b, equal_nan=True):
                    return dict(e, outcome="plane_window_differs_from_the_full_extract", out=[])
            if prefix and not np.array_equal(asm.extract(roi=(0,), **kw), full[0], equal_nan=True):
                return dict(e, outcome="short_roi_is_not_completed_with_full_slices", out=[])
            if not np.array_equal(asm.extract(roi=yx, **kw), full[(slice(None),) * len(prefix) + yx], equal_nan=True):
                return dict(e, outcome="window_differs_from_the_full_extract", out=[])
        # History: Extract is a function of (blocks, window) alone.  For every other case the measured extraction is preceded by the same
        # extraction whose RESULT the caller then overwrites (it owns it), and the input blocks are compared with their copies afterwards:
        # a result that aliases the assembler's blocks (or the caller's inputs) shows up in the measured window / as modified inputs.
        scribble = blocks and (w[1] + w[3] + len(case["present"]) + nplanes) % 2 == 0
        keep = {k: v.copy() for k, v in blocks.items()} if scribble else {}
        if scribble:
            for roi0 in (yx, None):
                r0 = asm.extract(roi=roi0, **kw) if roi0 is not None or kw else asm.extract()
                try:
                    r0[...] = np.array(1, dtype=r0.dtype) if r0.dtype == np.bool_ else np.array(77, dtype=r0.dtype)
                except ValueError:
                    pass          # a read-only result cannot be scribbled on
        if case["pick"]:
            p = case["pick"][0]
            idx = np.unravel_index(p, prefix + postfix)
            roi = tuple(int(i) for i in idx[:len(prefix)]) + yx + tuple(int(i) for i in idx[len(prefix):])
            out = asm.extract(roi=roi, **kw) if kw else asm[roi]
            out = out.reshape((1,) + out.shape)
            if out.ndim != 3:
                return dict(e, outcome="picked_plane_not_squeezed", out=[])
        else:
            out = asm.extract(roi=yx, **kw)
            # -> planes first
            out = np.moveaxis(out.reshape(prefix + (w[1] - w[0], w[3] - w[2]) + postfix), [len(prefix), len(prefix) + 1], [-2, -1])
            out = out.reshape((nplanes, w[1] - w[0], w[3] - w[2]))
        if scribble and any(not np.array_equal(blocks[k], keep[k], equal_nan=True) for k in keep):
            return dict(e, outcome="input_blocks_were_modified_through_an_earlier_result", out=[])
        if out.dtype != dtype and not (case["fillarg"] and np.can_cast(dtype, out.dtype)):
            return dict(e, outcome=f"dtype_changed_to_{out.dtype}", out=[])
        if np.issubdtype(out.dtype, np.floating):
            out = np.where(np.isnan(out), -1, out)
        if mixed:
            out = np.where(out.astype("int64") > 500, out.astype("int64") - 1000, out.astype("int64"))
        e["out"] = [[[int(v) for v in row] for row in plane] for plane in out]
        e["outcome"] = "ok"
    except Exception as ex:  # noqa: BLE001
        e["out"] = []
        e["outcome"] = type(ex).__name__
    return e


_T_DEFAULT = {"oob": [], "t": [0, 0], "base": [0, 0], "chunks": [[], []], "regions": [], "neg": [], "tshape": [], "locate": [], "rois": [],
              "gb": [], "tgb": [], "parent": []}


def _validate(ctx, events):
    evs = []
    for e in events:
        if e["kind"] == "tiling" and e["outcome"] != "ok":
            e = dict(_T_DEFAULT, **e)
        evs.append(e)
    return ctx.validate("tiles/TilingTrace.tla", evs, "TilingTrace.cfg", batch=1500)


def run(ctx):
    q = ctx.quick()
    res, tcases = ctx.model_check("tiles/TilingGen.tla", "MC_Tiling_quick.cfg" if q else "MC_Tiling_thorough.cfg", emit=True, timeout=2400)
    # unbounded in N and n (Apalache): the regular-tiling rule is an exact partition for every axis length and tile size
    ctx.apalache("tiles/TilingInd.tla", init="IndInit", inv="IndInv", length=1, label="TilingInd inductive step (any N, n)")
    ctx.apalache("tiles/TilingInd.tla", init="Init", inv="IndInv", length=0, label="TilingInd base case")
    for prop in ("Abut", "NonEmpty", "SizeAgrees", "Complete") if not q else ("Abut", "Complete"):
        ctx.apalache("tiles/TilingInd.tla", init="IndInit", inv=prop, length=0, label=f"TilingInd invariant implies {prop}")
    ctx.apalache("tiles/TilingInd.tla", init="IndInit", inv="AllNominal", length=0, label="TilingInd AllNominal is refuted", expect_error=True)
    res, bcases = ctx.model_check("tiles/BlocksGen.tla", "MC_Blocks_quick.cfg" if q else "MC_Blocks_thorough.cfg", emit=True, timeout=2400)
    for cs in (tcases, bcases):
        for c in cs:
            c.pop("op", None)
        cs.sort(key=lambda c: json.dumps(c, sort_keys=True))
    ttotal, btotal = len(tcases), len(bcases)
    tcases = ctx.subsample(tcases, 5000 if q else 120000)
    bcases = ctx.subsample(bcases, 4000 if q else 120000)
    tev = ctx.pmap(run_tiling, tcases)
    bev = ctx.pmap(run_blocks, bcases)
    tv = _validate(ctx, tev)
    bv = _validate(ctx, bev)
    for ev, v in zip(tev, tv):
        ctx.record({"d": ev["d"], "crops": ev["crops"]}, v, op=f"tiling:{ev['d']['kind']}/crops{len(ev['crops'])}", conformance=True,
                   nontrivial=ev.get("t", [0, 0])[0] * ev.get("t", [0, 0])[1] > 1,
                   sample={"d": ev["d"], "crops": ev["crops"], "chunks": ev.get("chunks"), "regions": ev.get("regions")})
    for case, ev, v in zip(bcases, bev, bv):
        ctx.record(case, v, op=f"blocks:{case['dtype']}/axis{case['axis']}", nontrivial=0 < len(case["present"]),
                   sample={"case": case, "out": ev.get("out")})
    ctx.traces_validated = len(tev) + len(bev)
    ctx.extra.update(tiling_cases_total=ttotal, block_cases_total=btotal)
    ctx.exhaustive = len(tcases) == ttotal and len(bcases) == btotal
    ctx.rule = ("tiling cases = regular tilings (all base sizes <= MaxN, tile sizes <= MaxTile incl. larger than the image, 3 parent grids) and variable "
                "tilings (all compositions into <= 4 chunks, some empty chunks) x all single crops and a set of double crops, each queried completely "
                "(every tile, negative indices, every pixel, every tile-index slice); block cases = 6-9 layouts x ALL subsets of present blocks x ALL windows "
                "with dtype / axis / fill variants; non-trivial = more than one tile resp. at least one present block; distinct by input")


def replay(ctx, obj):
    c = obj["case"]
    ev = run_blocks(c) if "present" in c else run_tiling(c)
    v = _validate(ctx, [ev])[0]
    print(f"replay: {json.dumps(ev)[:1500]} verdict={v}")
    ctx.record(c, v, op=obj.get("op", ""))
    ctx.traces_validated = 1
