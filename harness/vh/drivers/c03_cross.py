"""C03, different CRSs: plan checked against a pyproj-tabulated pixel-to-pixel transform (environment table)."""
import json
import math

import numpy as np

LONLAT = (14.0, 50.0, 14.8, 50.6)


def build(c):
    from odc.geo.geobox import GeoBox
    from odc.geo.geom import BoundingBox

    if c["pair"].endswith("polar"):
        import pyproj

        s, d = c["pair"][:-5].split(">")
        south = d == "3031"
        lat0, lat1 = (-89.5, -78.0) if south else (78.0, 89.5)
        src = GeoBox.from_bbox((-90, lat0, 90, lat1), "epsg:4326", shape=(46, 90), tight=True)
        # tile centre: on the meridian 10E at 87 degrees, moved by dx / dy tile widths (1 km pixels; stays poleward of ~84 degrees)
        cx, cy = pyproj.Transformer.from_crs(4326, int(d), always_xy=True).transform(10.0, -87.0 if south else 87.0)
        n, px = {"same": (40, 1000.0), "coarser": (24, 4000.0)}[c["zoom"]]
        x0, y0 = cx + c["dx"] * 30000.0, cy + c["dy"] * 30000.0
        dst = GeoBox.from_bbox(BoundingBox(x0, y0, x0 + n * px, y0 + n * px, f"epsg:{d}"), resolution=px, tight=True)
        return src, dst
    if c["pair"].endswith("cap"):
        from affine import Affine

        s, d = c["pair"][:-3].split(">")
        south = d == "3031"
        off = {0: 0.0, 1: 35000.0, 2: 155000.0}[c["dx"]]
        dst = GeoBox((80, 80), Affine(10000.0, 0, -400000.0 + off, 0, -10000.0, 400000.0 + off), f"epsg:{d}")
        hi = 90 - c["dy"]
        src = GeoBox.from_bbox((-180, -hi, 180, -80) if south else (-180, 80, 180, hi), "epsg:4326", shape=(5 * (hi - 80), 360), tight=True)
        return src, dst
    if c["pair"].endswith("pole"):
        from affine import Affine

        s, d = c["pair"][:-4].split(">")
        south = s == "3031"
        src = GeoBox((80, 80), Affine(10000.0, 0, -400000.0, 0, -10000.0, 400000.0), f"epsg:{s}")        # 800 km square centred on the pole (to ~86.4 degrees)
        n, px = {"same": (24, 0.05), "coarser": (12, 0.2)}[c["zoom"]]
        top = 89.9 - 0.6 * c["dy"]                                                                       # lon/lat window: 40 .. 96 longitudes wide, next to the pole
        lat_top = -(top - n * px) if south else top
        dst = GeoBox((n, 2 * n), Affine(px * 1.0, 0, -170.0 + 90.0 * (c["dx"] + 1), 0, -px, lat_top), "epsg:4326")
        return src, dst
    if c["pair"].endswith("big"):
        s, d = c["pair"][:-3].split(">")
        sbox, sshape = ((-3000000, -4000000, 1000000, -500000), (90, 90)) if s == "3575" else ((-20, 35, 40, 70), (70, 120))
        src = GeoBox.from_bbox(sbox, f"epsg:{s}", shape=sshape, tight=True)
        fp = src.footprint(f"epsg:{d}").boundingbox
        x0, y0 = fp.left + 0.1 * c["dx"] * fp.span_x, fp.bottom + 0.1 * c["dy"] * fp.span_y
        n = {"same": (50, 80), "coarser": (30, 40), "finer": (70, 90)}[c["zoom"]]
        dst = GeoBox.from_bbox(BoundingBox(x0, y0, x0 + 0.7 * fp.span_x, y0 + 0.5 * fp.span_y, f"epsg:{d}"), shape=n, tight=True)
        return src, dst
    s, d = c["pair"].split(">")
    src_crs, dst_crs = f"epsg:{s}", f"epsg:{d}"
    sb = BoundingBox(*LONLAT, "epsg:4326").to_crs(src_crs)
    src = GeoBox.from_bbox(sb, shape=(8, 10), tight=True)
    fp = src.footprint(dst_crs).boundingbox
    n = {"same": 9, "coarser": 5, "finer": 12}[c["zoom"]]
    w, h = fp.span_x, fp.span_y
    x0, y0 = fp.left + c["dx"] * w / 2, fp.bottom + c["dy"] * h / 2
    dst = GeoBox.from_bbox(BoundingBox(x0, y0, x0 + w, y0 + h, dst_crs), shape=(n, n + 1), tight=True)
    return src, dst


def table(src, dst):
    """where the centre of every destination pixel falls in source pixel coordinates (fresh pyproj, no odc-geo caches)"""
    import pyproj

    hd, wd = dst.shape
    qq, rr = np.meshgrid(np.arange(wd) + 0.5, np.arange(hd) + 0.5)
    A = dst.affine
    wx, wy = A.a * qq + A.b * rr + A.c, A.d * qq + A.e * rr + A.f
    tr = pyproj.Transformer.from_crs(dst.crs.epsg, src.crs.epsg, always_xy=True)
    sx, sy = tr.transform(wx, wy)
    B = ~src.affine
    px, py = B.a * sx + B.b * sy + B.c, B.d * sx + B.e * sy + B.f
    T = []
    for r in range(hd):
        row = []
        for q in range(wd):
            x, y = px[r, q], py[r, q]
            if math.isfinite(x) and math.isfinite(y) and abs(x) < 1e6 and abs(y) < 1e6:
                row.append([int(math.floor(x * 64)), int(math.floor(y * 64))])
            else:
                row.append([])
        T.append(row)
    return T


def _pix_map(a, b):
    """pixel plane of `a` -> pixel plane of `b` through fresh pyproj (no odc-geo code involved)"""
    import pyproj

    tr = pyproj.Transformer.from_crs(a.crs.epsg, b.crs.epsg, always_xy=True)
    A, B = a.affine, ~b.affine

    def f(q, r):
        wx, wy = A.a * q + A.b * r + A.c, A.d * q + A.e * r + A.f
        sx, sy = tr.transform(wx, wy)
        return B.a * sx + B.b * sy + B.c, B.d * sx + B.e * sy + B.f

    return f


def _envelope(f, rect, n):
    """(xmin, xmax, ymin, ymax) of the image under f of n points per side of rect=(r0, r1, q0, q1)"""
    r0, r1, q0, q1 = rect
    qs, rs = np.linspace(q0, q1, n), np.linspace(r0, r1, n)
    q = np.concatenate([qs, qs, np.full(n, q0), np.full(n, q1)])
    r = np.concatenate([np.full(n, r0), np.full(n, r1), rs, rs])
    x, y = f(q, r)
    ok = np.isfinite(x) & np.isfinite(y)
    if not ok.any():
        return None
    return float(x[ok].min()), float(x[ok].max()), float(y[ok].min()), float(y[ok].max())


def _pixel_box(env, pad, w, h):
    x0, x1, y0, y1 = env
    return (max(0, math.floor(x0) - pad), min(w, math.ceil(x1) + pad), max(0, math.floor(y0) - pad), min(h, math.ceil(y1) + pad))


def _covers(have, need):
    return have[0] <= need[0] and have[1] >= need[1] and have[2] <= need[2] and have[3] >= need[3]


def bulge_tags(src, dst, pad, roi_src):
    """Environment facts for finding C03-K1 (fresh pyproj only): is the image of a rectangle edge so curved that
    its extremum between the 5 sample points per side lies outside the sampled envelope (+ padding), in whole pixels?"""
    tags = []
    hs, ws = src.shape
    hd, wd = dst.shape
    if src.crs.geographic and not dst.crs.geographic:
        # environment fact for C03-K3 / K4: a pole of the lon/lat source lies inside the destination image (at its very centre: K4)
        import pyproj

        tr = pyproj.Transformer.from_crs(4326, dst.crs.epsg, always_xy=True)
        for lat in (90.0, -90.0):
            x, y = tr.transform(0.0, lat)
            if math.isfinite(x) and math.isfinite(y):
                q, r = (~dst.affine) * (x, y)
                if 0 < q < wd and 0 < r < hd:
                    tags.append("dst_contains_a_pole_of_the_geographic_source")
                    if abs(q - wd / 2) < 1e-6 and abs(r - hd / 2) < 1e-6:
                        tags.append("dst_centre_is_the_pole")
    back = _pix_map(dst, src)
    sparse, dense = _envelope(back, (0, hd, 0, wd), 5), _envelope(back, (0, hd, 0, wd), 1025)
    if sparse and dense and not _covers(_pixel_box(sparse, pad, ws, hs), _pixel_box(dense, 0, ws, hs)):
        tags.append("dst_edge_image_bulges_past_5pt_envelope_plus_padding")
    if roi_src[1] > roi_src[0] and roi_src[3] > roi_src[2]:
        fwd = _pix_map(src, dst)
        sparse, dense = _envelope(fwd, tuple(roi_src), 5), _envelope(fwd, tuple(roi_src), 1025)
        if sparse and dense and not _covers(_pixel_box(sparse, 0, wd, hd), _pixel_box(dense, 0, wd, hd)):
            tags.append("src_region_edge_image_bulges_past_5pt_envelope")
    return tags


def execute(c):
    from odc.geo.overlap import compute_reproject_roi

    from ..reproj_common import roi4

    ev = {"c": c, "tags": [], "outcome": "ok", "hs": 0, "ws": 0, "hd": 0, "wd": 0, "T": [], "paste_ok": False,
          "o": {"roi_src": [0, 0, 0, 0], "roi_dst": [0, 0, 0, 0], "shrink": 1, "scale64": 0}}
    try:
        src, dst = build(c)
        ev.update(hs=int(src.shape[0]), ws=int(src.shape[1]), hd=int(dst.shape[0]), wd=int(dst.shape[1]), T=table(src, dst))
        kw = {}
        if c["pad"]:
            kw["padding"] = c["pad"][0]
        if c["align"]:
            kw["align"] = c["align"][0]
        if (c["dx"] + 2 * c["dy"] + len(c["pair"])) % 2 == 0:
            # history: earlier in the process somebody asked for the AUTHORITY-axis-order transformers of this pair (the transformer cache is keyed
            # by pair and axis-order flag; planning must get the x,y-ordered ones whatever was requested before)
            src.crs.transformer_to_crs(dst.crs, always_xy=False)
            dst.crs.transformer_to_crs(src.crs, always_xy=False)
        try:
            rr = compute_reproject_roi(src, dst, **kw)
        except Exception:
            ev["tags"] = bulge_tags(src, dst, c["pad"][0] if c["pad"] else 1, [0, 0, 0, 0])
            raise
        ev["paste_ok"] = bool(rr.paste_ok)
        ev["o"] = {"roi_src": roi4(rr.roi_src), "roi_dst": roi4(rr.roi_dst), "shrink": int(rr.read_shrink) if float(rr.read_shrink).is_integer() else -1,
                   "scale64": int(round(rr.scale * 64))}
        ev["tags"] = bulge_tags(src, dst, c["pad"][0] if c["pad"] else 1, ev["o"]["roi_src"])
    except Exception as ex:  # noqa: BLE001
        ev["outcome"] = type(ex).__name__
    return ev


def _validate(ctx, events):
    return ctx.validate("warp/CrossTrace.tla", events, "CrossTrace.cfg", batch=200)


def run_cross(ctx):
    res, cases = ctx.model_check("warp/CrossGen.tla", "CrossGen.cfg", emit=True, timeout=600)
    cases.sort(key=lambda c: json.dumps(c, sort_keys=True))
    ctx.extra["cross_crs_cases_total"] = len(cases)
    big = [c for c in cases if c["pair"].endswith(("big", "polar", "pole", "cap"))]
    cases = ctx.subsample([c for c in cases if not c["pair"].endswith(("big", "polar", "pole", "cap"))], 600 if ctx.quick() else 10 ** 6) + big
    events = ctx.pmap(execute, cases)
    verdicts = _validate(ctx, events)
    for ev, v in zip(events, verdicts):
        ctx.record(ev["c"], v, op="cross-crs:" + ev["c"]["pair"], tags=ev["tags"], nontrivial=ev["o"]["roi_dst"][1] > ev["o"]["roi_dst"][0],
                   sample={"case": ev["c"], "plan": ev["o"], "shapes": [ev["hs"], ev["ws"], ev["hd"], ev["wd"]]})
    ctx.traces_validated += len(events)


def replay(ctx, obj):
    ev = execute(obj["case"])
    v = _validate(ctx, [ev])[0]
    print(f"replay: {json.dumps(ev)[:1500]} verdict={v}")
    ctx.record(obj["case"], v, op=obj.get("op", ""), tags=ev["tags"])
    ctx.traces_validated = 1
