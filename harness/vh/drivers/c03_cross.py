"""C03, different CRSs: plan checked against a pyproj-tabulated pixel-to-pixel transform (environment table)."""
import json
import math

import numpy as np

LONLAT = (14.0, 50.0, 14.8, 50.6)


def build(c):
    from odc.geo.geobox import GeoBox
    from odc.geo.geom import BoundingBox

    s, d = c["pair"].split(">")
    src_crs, dst_crs = f"epsg:{s}", f"epsg:{d}"
    sb = BoundingBox(*LONLAT, "epsg:4326").to_crs(src_crs)
    src = GeoBox.from_bbox(sb, shape=(8, 10), tight=True)
    fp = src.footprint(dst_crs).boundingbox
    n = {"same": 9, "coarser": 5, "finer": 12}[c["zoom"]]
    w, h = fp.span_x, fp.span_y
    x0, y0 = fp.left + c["dx"] * w / 2, fp.bottom + c["dy"] * h / 2
    dst = GeoBox.from_bbox(BoundingBox(x0, y0, x0 + w, y0 + h, dst_crs), shape=(n, n + 1), tight=True)
    return src, dst


def table(src, dst):
    """where the centre of every destination pixel falls in source pixel coordinates (fresh pyproj, no odc-geo caches)"""
    import pyproj

    hd, wd = dst.shape
    qq, rr = np.meshgrid(np.arange(wd) + 0.5, np.arange(hd) + 0.5)
    A = dst.affine
    wx, wy = A.a * qq + A.b * rr + A.c, A.d * qq + A.e * rr + A.f
    tr = pyproj.Transformer.from_crs(dst.crs.epsg, src.crs.epsg, always_xy=True)
    sx, sy = tr.transform(wx, wy)
    B = ~src.affine
    px, py = B.a * sx + B.b * sy + B.c, B.d * sx + B.e * sy + B.f
    T = []
    for r in range(hd):
        row = []
        for q in range(wd):
            x, y = px[r, q], py[r, q]
            if math.isfinite(x) and math.isfinite(y) and abs(x) < 1e6 and abs(y) < 1e6:
                row.append([int(math.floor(x * 64)), int(math.floor(y * 64))])
            else:
                row.append([])
        T.append(row)
    return T


def execute(c):
    from odc.geo.overlap import compute_reproject_roi

    from ..reproj_common import roi4

    ev = {"c": c, "outcome": "ok", "hs": 0, "ws": 0, "hd": 0, "wd": 0, "T": [], "paste_ok": False,
          "o": {"roi_src": [0, 0, 0, 0], "roi_dst": [0, 0, 0, 0], "shrink": 1, "scale64": 0}}
    try:
        src, dst = build(c)
        ev.update(hs=int(src.shape[0]), ws=int(src.shape[1]), hd=int(dst.shape[0]), wd=int(dst.shape[1]), T=table(src, dst))
        kw = {}
        if c["pad"]:
            kw["padding"] = c["pad"][0]
        if c["align"]:
            kw["align"] = c["align"][0]
        rr = compute_reproject_roi(src, dst, **kw)
        ev["paste_ok"] = bool(rr.paste_ok)
        ev["o"] = {"roi_src": roi4(rr.roi_src), "roi_dst": roi4(rr.roi_dst), "shrink": int(rr.read_shrink) if float(rr.read_shrink).is_integer() else -1,
                   "scale64": int(round(rr.scale * 64))}
    except Exception as ex:  # noqa: BLE001
        ev["outcome"] = type(ex).__name__
    return ev


def _validate(ctx, events):
    return ctx.validate("warp/CrossTrace.tla", events, "CrossTrace.cfg", batch=800)


def run_cross(ctx):
    res, cases = ctx.model_check("warp/CrossGen.tla", "CrossGen.cfg", emit=True, timeout=600)
    cases.sort(key=lambda c: json.dumps(c, sort_keys=True))
    ctx.extra["cross_crs_cases_total"] = len(cases)
    cases = ctx.subsample(cases, 600 if ctx.quick() else 10 ** 6)
    events = ctx.pmap(execute, cases)
    verdicts = _validate(ctx, events)
    for ev, v in zip(events, verdicts):
        ctx.record(ev["c"], v, op="cross-crs:" + ev["c"]["pair"], nontrivial=ev["o"]["roi_dst"][1] > ev["o"]["roi_dst"][0],
                   sample={"case": ev["c"], "plan": ev["o"], "shapes": [ev["hs"], ev["ws"], ev["hd"], ev["wd"]]})
    ctx.traces_validated += len(events)


def replay(ctx, obj):
    ev = execute(obj["case"])
    v = _validate(ctx, [ev])[0]
    print(f"replay: {json.dumps(ev)[:1500]} verdict={v}")
    ctx.record(obj["case"], v, op=obj.get("op", ""))
    ctx.traces_validated = 1
