"""Schedules: export real dask graphs, let TLC (spec/sched/TaskGraph.tla) choose execution orders,
execute the real tasks in exactly that order."""
from __future__ import annotations

import os
import time

from . import tlc as T
from .tlc import MachineryError


class TaskFailed(Exception):
    """A task of the real graph raised: carries the original exception (a fact about the code under test)."""

    def __init__(self, orig):
        super().__init__(repr(orig))
        self.orig = orig


class RealGraph:
    """The task graph of a dask collection with keys renamed 1..n (sorted by key text)."""

    def __init__(self, collection):
        from dask._task_spec import convert_legacy_graph

        self.collection = collection
        dsk = dict(collection.__dask_graph__())
        nodes = convert_legacy_graph(dsk)
        # cull: keep only what the output keys need (dask does the same before executing)
        need, stack = set(), []

        def flat(x):
            if isinstance(x, list):
                for y in x:
                    flat(y)
            else:
                stack.append(x)

        flat(collection.__dask_keys__())
        while stack:
            k = stack.pop()
            if k in need:
                continue
            need.add(k)
            stack.extend(nodes[k].dependencies)
        self.nodes = {k: v for k, v in nodes.items() if k in need}
        # canonical numbering that does not depend on the random uuids / tokens inside dask key names:
        # label = hash(name with hex tokens stripped, labels of the dependencies)
        import hashlib
        import re

        strip = re.compile(r"[0-9a-f]{32}")
        memo = {}

        def label(k):
            if k not in memo:
                memo[k] = None  # cycle guard
                deps = sorted(label(d) for d in self.nodes[k].dependencies)
                memo[k] = hashlib.sha1((strip.sub("#", str(k)) + "|" + ",".join(deps)).encode()).hexdigest()
            return memo[k]

        self.keys = sorted(self.nodes, key=lambda k: (label(k), str(k)))
        self.ids = {k: i + 1 for i, k in enumerate(self.keys)}
        self.deps = [sorted(self.ids[d] for d in self.nodes[k].dependencies) for k in self.keys]
        self.n = len(self.keys)

    def shape(self):
        """canonical description (for grouping identical graphs)"""
        return (self.n, tuple(tuple(d) for d in self.deps))

    def as_json(self):
        return {"n": self.n, "deps": self.deps}

    def execute(self, order):
        """Run every task once, in the given order (ids); returns the value(s) of the output key(s)."""
        if sorted(order) != list(range(1, self.n + 1)):
            raise MachineryError("schedule is not a permutation of the tasks")
        cache = {}
        for t in order:
            k = self.keys[t - 1]
            node = self.nodes[k]
            try:
                args = {d: cache[d] for d in node.dependencies}
            except KeyError as ex:
                raise MachineryError(f"schedule runs task {t} before its dependency {ex}")
            try:
                cache[k] = node(args)
            except Exception as ex:  # noqa: BLE001
                raise TaskFailed(ex)
        out = self.collection.__dask_keys__()

        def pick(x):
            if isinstance(x, list):
                return [pick(y) for y in x]
            return cache[x]

        return pick(out)


def tlc_orders(graphs, scratch, *, per_graph=3, seed=0, exhaustive_upto=0, timeout=600):
    """Ask TLC for schedules of each graph: {graph index (0-based): [order, ...]}.
    Graphs with n <= exhaustive_upto are enumerated completely (all linear extensions)."""
    if not graphs:
        return {}, {"generated": 0, "distinct": 0}
    out = {i: [] for i in range(len(graphs))}
    stats = {"generated": 0, "distinct": 0}
    small = [i for i, g in enumerate(graphs) if g["n"] <= exhaustive_upto]
    large = [i for i, g in enumerate(graphs) if g["n"] > exhaustive_upto]
    rounds = [(small, "bfs", 0), (large, "sampled", 0)]
    for idxs, mode, rnd in rounds:
        if not idxs:
            continue
        path = os.path.join(scratch, f"graphs_{time.time_ns()}.json")
        T.write_json(path, {"graphs": [graphs[i] for i in idxs]})
        cfg = os.path.join(scratch, f"TaskGraph_{mode}_{time.time_ns()}.cfg")
        with open(cfg, "w") as f:
            if mode == "bfs":
                f.write("SPECIFICATION Spec\nCONSTANT K = 1\nCONSTANT Seed = 0\n")
            else:
                # SpecSampled: one admissible schedule per (graph, k), drawn reproducibly from the seed
                f.write(f"SPECIFICATION SpecSampled\nCONSTANT K = {per_graph}\nCONSTANT Seed = {abs(int(seed)) % 65521}\n")
            f.write("INVARIANT DepClosed\nINVARIANT OrderOK\nINVARIANT NoStuck\nCHECK_DEADLOCK FALSE\n")
        kw = {}
        res = T.run_tlc("sched/TaskGraph.tla", cfg, env={"GRAPH_FILE": path}, timeout=timeout, scratch=scratch, **kw)
        os.unlink(path)
        os.unlink(cfg)
        if res.timed_out or res.rc != 0:
            raise MachineryError(f"TaskGraph ({mode}): TLC rc={res.rc} {res.errors[:2]}\n" + "\n".join(res.stdout.splitlines()[-20:]))
        stats["generated"] += res.generated
        stats["distinct"] += res.distinct
        for _, gi, order in res.printed("O"):
            lst = out[idxs[gi - 1]]
            if order not in lst:
                lst.append(order)
    for i in out:
        out[i].sort()      # TLC workers print in any order: make the result a function of (graphs, seed)
        if graphs[i]["n"] > exhaustive_upto:
            out[i] = out[i][:per_graph]
    for i, lst in out.items():
        if not lst:
            raise MachineryError(f"TLC produced no schedule for graph {i} (n={graphs[i]['n']})")
    return out, stats
