"""Run TLC (always under a timeout) and parse what it printed."""
from __future__ import annotations

import json
import os
import re
import shutil
import subprocess
import tempfile
import time
from dataclasses import dataclass, field
from pathlib import Path

from . import tlaval

VERIF = Path(__file__).resolve().parents[2]
SPEC = VERIF / "spec"
JAR = "/opt/veriftools/tla/tla2tools.jar"
DEPS = "/opt/veriftools/tla/CommunityModules-deps.jar"


class MachineryError(Exception):
    """Something in the verification machinery failed (never a verdict)."""


def lib_path() -> str:
    dirs = [str(p) for p in sorted(SPEC.iterdir()) if p.is_dir()]
    return os.pathsep.join(dirs)


@dataclass
class TLCResult:
    rc: int
    stdout: str
    wall: float
    generated: int = 0
    distinct: int = 0
    depth: int = 0
    no_error: bool = False
    violated: list = field(default_factory=list)  # names of violated invariants / properties
    errors: list = field(default_factory=list)
    timed_out: bool = False
    coverage: dict = field(default_factory=dict)

    def printed(self, tag: str):
        """All PrintT'ed tuples whose first element is the string `tag` (bracket matched, so
        safe with multi-line values)."""
        out = []
        s = self.stdout
        rx = re.compile(r'^<< ?"%s"' % re.escape(tag), re.M)
        i = 0
        while True:
            m = rx.search(s, i)
            if not m:
                break
            try:
                v, e = tlaval.parse_prefix(s, m.start())
            except tlaval.TlaParseError as ex:  # pragma: no cover
                raise MachineryError(f"cannot parse TLC output at {m.start()}: {ex}")
            out.append(v)
            i = e
        return out


_RE_STATES = re.compile(r"(\d+) states generated, (\d+) distinct states found")
_RE_DEPTH = re.compile(r"The depth of the complete state graph search is (\d+)")
_RE_INV = re.compile(r"Error: Invariant (\S+) is violated")
_RE_PROP = re.compile(r"Error: (?:Temporal properties were violated|Action property (\S+) is violated)")
_RE_SIMSTATES = re.compile(r"The number of states generated: (\d+)")


def run_tlc(
    module: str | Path,
    cfg: str | Path | None = None,
    *,
    env: dict | None = None,
    workers: int | str = "auto",
    timeout: float = 600,
    simulate: str | None = None,
    depth: int | None = None,
    seed: int | None = None,
    extra: tuple = (),
    coverage: bool = False,
    dump: str | None = None,
    scratch: str | None = None,
    deadlock: bool = False,
    heap: str = "4g",
    dfs_queue: bool = False,
) -> TLCResult:
    module = Path(module)
    if not module.is_absolute():
        module = SPEC / module
    if cfg is None:
        cfg = module.with_suffix(".cfg")
    cfg = Path(cfg)
    if not cfg.is_absolute():
        cfg = module.parent / cfg
    own_scratch = scratch is None
    sdir = tempfile.mkdtemp(prefix="vh_tlc_") if own_scratch else scratch
    meta = tempfile.mkdtemp(prefix="meta_", dir=sdir)
    cmd = ["java", "-XX:+UseParallelGC", f"-Xmx{heap}", "-Xss32m", f"-DTLA-Library={lib_path()}"]
    if dfs_queue:
        cmd.append("-Dtlc2.tool.queue.IStateQueue=StateDeque")
    cmd += ["-cp", f"{JAR}:{DEPS}", "tlc2.TLC", "-metadir", meta, "-noGenerateSpecTE",
            "-workers", str(workers), "-config", str(cfg)]
    if not deadlock:
        cmd.append("-deadlock")  # -deadlock DISABLES deadlock checking
    if simulate is not None:
        cmd += ["-simulate", simulate]
    if depth is not None:
        cmd += ["-depth", str(depth)]
    if seed is not None:
        cmd += ["-seed", str(seed)]
    if coverage:
        cmd += ["-coverage", "1"]
    if dump is not None:
        cmd += ["-dump", dump]
    cmd += list(extra)
    cmd.append(str(module))
    e = dict(os.environ)
    e.pop("JAVA_TOOL_OPTIONS", None)
    if env:
        e.update({k: str(v) for k, v in env.items()})
    t0 = time.time()
    timed_out = False
    try:
        p = subprocess.run(cmd, cwd=str(module.parent), env=e, stdout=subprocess.PIPE,
                           stderr=subprocess.STDOUT, timeout=timeout, text=True, errors="replace")
        out, rc = p.stdout, p.returncode
    except subprocess.TimeoutExpired as ex:
        timed_out = True
        out = ex.stdout if isinstance(ex.stdout, str) else (ex.stdout or b"").decode(errors="replace")
        rc = -9
    finally:
        shutil.rmtree(meta, ignore_errors=True)
        if own_scratch:
            shutil.rmtree(sdir, ignore_errors=True)
    res = TLCResult(rc=rc, stdout=out, wall=time.time() - t0, timed_out=timed_out)
    ms = _RE_STATES.findall(out)
    if ms:
        res.generated, res.distinct = int(ms[-1][0]), int(ms[-1][1])
    else:
        m = _RE_SIMSTATES.search(out)
        if m:
            res.generated = res.distinct = int(m.group(1))
    m = _RE_DEPTH.search(out)
    if m:
        res.depth = int(m.group(1))
    res.no_error = "No error has been found" in out or (simulate is not None and rc == 0)
    res.violated = _RE_INV.findall(out) + [x or "temporal" for x in _RE_PROP.findall(out)]
    res.errors = [ln for ln in out.splitlines() if ln.startswith("Error:")]
    if coverage:
        res.coverage = parse_coverage(out)
    return res


_RE_COV = re.compile(r"^<(\w+) line (\d+), col (\d+) to line (\d+), col (\d+) of module (\w+)>: (\d+):(\d+)", re.M)


def parse_coverage(out: str) -> dict:
    """action name -> [distinct, generated] from the last coverage block."""
    cov = {}
    for m in _RE_COV.finditer(out):
        cov[f"{m.group(6)}.{m.group(1)}"] = [int(m.group(7)), int(m.group(8))]
    return cov


def emitted_cases(stdout: str) -> list:
    """Cases printed by CaseIO!Emit: lines `<<"C", "<json, TLA+-escaped>">>` (one println each)."""
    out = []
    pre, suf = '<<"C", "', '">>'
    for ln in stdout.splitlines():
        if ln.startswith(pre) and ln.endswith(suf):
            try:
                out.append(json.loads(json.loads('"' + ln[len(pre):-len(suf)] + '"')))
            except ValueError as ex:
                raise MachineryError(f"cannot parse emitted case line: {ln[:200]} ({ex})")
    return out


def require_ok(res: TLCResult, what: str) -> TLCResult:
    """Machinery-level check: TLC terminated normally without any error."""
    if res.timed_out:
        raise MachineryError(f"{what}: TLC timed out after {res.wall:.0f}s")
    if res.rc != 0 or not res.no_error:
        tail = "\n".join(res.stdout.splitlines()[-40:])
        raise MachineryError(f"{what}: TLC rc={res.rc} errors={res.errors[:3]}\n{tail}")
    return res


def sany(module: str | Path) -> None:
    module = Path(module)
    if not module.is_absolute():
        module = SPEC / module
    cmd = ["java", f"-DTLA-Library={lib_path()}", "-cp", f"{JAR}:{DEPS}", "tla2sany.SANY", str(module)]
    p = subprocess.run(cmd, cwd=str(module.parent), stdout=subprocess.PIPE, stderr=subprocess.STDOUT, text=True)
    if p.returncode != 0 or "Semantic errors" in p.stdout or "***Parse Error***" in p.stdout \
            or "Fatal errors" in p.stdout or "Could not" in p.stdout:
        raise MachineryError(f"SANY failed for {module}:\n{p.stdout[-3000:]}")


INT_MAX = 2**31 - 1


def check_ints(v, path="$"):
    """TLC integers are 32 bit and its JSON reader mangles bigger ones: refuse them early."""
    if isinstance(v, bool):
        return
    if isinstance(v, int):
        if not -INT_MAX <= v <= INT_MAX:
            raise MachineryError(f"integer out of TLC range at {path}: {v}")
    elif isinstance(v, float):
        raise MachineryError(f"float in trace at {path}: {v}")
    elif v is None:
        raise MachineryError(f"null in trace at {path}")
    elif isinstance(v, dict):
        for k, x in v.items():
            check_ints(x, f"{path}.{k}")
    elif isinstance(v, (list, tuple)):
        for i, x in enumerate(v):
            check_ints(x, f"{path}[{i}]")


def write_json(path, obj):
    check_ints(obj)
    with open(path, "w") as f:
        json.dump(obj, f, separators=(",", ":"))
