-------------------------------- MODULE MathGen --------------------------------
(* C20 - case domains, design-level check of the transcriptions against the contracts, emission. *)
EXTENDS MathHelpers, CaseIO
CONSTANTS Tier      \* "quick" | "thorough" : size of the grid-snapping and near-integer domains

Tols == {<<1, 100>>, <<1, 1000>>}
Ks == {0, 1, -1, 8, -8, 11, -11, 16, -16, 500, -511, 512, -512, 513}
NearNs == {b * 1024 + k : b \in {-3, -1, 0, 1, 2, 7}, k \in Ks}
ScaleNs == {b * 1024 + k : b \in {1, 2, 3, 5, -2}, k \in {0, 1, -1, 8, -8, 16, -16}}
AlignXs == (-20..70) \cup {255, 256, 257, 1023, 1024, 1025, 4095, 4096, 4097}
SG == IF Tier = "quick" THEN [x0 |-> {-40, -33, -5, 0, 7, 31, 385, 383, 388}, sp |-> {16, 128, 224, 464, 767, 769, 7}, r |-> {128, 96, 192, -128, -64, -384}, o |-> {-1, 0, 64, 32}]
      ELSE [x0 |-> (-40..40) \cup {385, 383, 388, 380}, sp |-> {16, 64, 128, 224, 384, 464, 767, 769, 7}, r |-> {128, 64, 96, 192, 384, -128, -64, -96, -192, -384}, o |-> {-1, 0, 64, 32, 96}]
Rots == {<<65, 0, 0, 65>>, <<0, -65, 65, 0>>, <<39, -52, 52, 39>>, <<25, -60, 60, 25>>, <<-65, 0, 0, -65>>, <<52, 39, -39, 52>>}   \* over 65
AffInts == {<<2, 0, 5, 0, -3, 7>>, <<1, 2, -4, 3, 1, 0>>, <<0, 4, 1, -4, 0, 2>>, <<3, -1, 0, 2, 5, -6>>}
PtSets == {<<<<0, 0>>, <<4, 0>>, <<0, 3>>>>, <<<<1, 1>>, <<5, 2>>, <<2, 6>>, <<7, 7>>>>, <<<<-3, 0>>, <<0, 5>>, <<4, -2>>, <<1, 1>>, <<6, 6>>>>}
FitPts(kind, nn) == CASE kind = "affine" -> (IF nn = 3 THEN <<<<0, 0>>, <<4, 0>>, <<0, 3>>>> ELSE Grid(3, 2))
                      [] kind = "bilinear" -> (IF nn = 4 THEN Grid(2, 2) ELSE Grid(4, 2))
                      [] kind = "biquad" -> (IF nn = 9 THEN Grid(3, 3) ELSE Grid(4, 3))

Mags == {0, -14, -22, 12}
CasesFor(k) ==
  CASE k = "split" -> {[op |-> "split", n |-> n] : n \in -40..40}
    [] k = "nearint" -> {[op |-> "nearint", n |-> n, tol |-> t] : n \in NearNs, t \in Tols}
    [] k = "snapscale" -> {[op |-> "snapscale", small |-> sm, n |-> n, tol |-> t] : sm \in BOOLEAN, n \in ScaleNs, t \in Tols}
    \* values over 1024 around zero on both sides of each tolerance; clamp of lattice values into lattice intervals
    [] k = "zeroclamp" -> {[op |-> "maybezero", n |-> n, tol |-> t] : n \in {-2048, -12, -11, -10, -9, -2, -1, 0, 1, 2, 9, 10, 11, 12, 512, 3000}, t \in Tols}
                          \cup {[op |-> "clamp", n |-> n, lo |-> lo, hi |-> lo + w] : n \in -6..6, lo \in {-5, -1, 0, 2}, w \in {0, 1, 4}}
    \* values a power of two away from an integer on either side of the DEFAULT tolerances; spell: tolerances left to their defaults / passed explicitly
    [] k = "snapfine" -> {[op |-> "snapfine", f |-> f, n |-> n, sg |-> sg, es |-> es, et |-> et, ew |-> ew, spell |-> sp] :
                            f \in {"scale", "scale_inv", "affine"}, n \in {1, 2, 3, -2, 4096}, sg \in {1, -1}, es \in {0, 10, 12, 17, 19, 21, 23}, et \in {0, 7, 9, 11, 13}, ew \in {0, 24, 25, 28, 30},
                            sp \in {"default", "explicit"}}
    [] k = "align" -> {[op |-> "align", x |-> x] : x \in AlignXs}
    [] k = "snapgrid" -> {[op |-> "snapgrid", x0 |-> x0, sp |-> sp, r |-> r, o |-> o, tol |-> t] : x0 \in SG.x0, sp \in SG.sp, r \in SG.r, o \in SG.o, t \in {<<1, 100>>}}
    [] k = "snapaffine" -> {[op |-> "snapaffine", sx |-> sx, tx |-> tx, sy |-> sy, ty |-> ty, rot |-> rot, tol |-> t, stol |-> st] :
                              sx \in {1024, 2049, 3064, -1016}, tx \in {5120, 5121, 5130, -3073, 700}, sy \in {-1024, -1025, 2040}, ty \in {0, 9, -1, 40},
                              rot \in {0, 16}, t \in Tols, st \in Tols}      \* tol: translation tolerance, stol: scale tolerance (independent)
    \* mag: the WORLD side of the mapping is multiplied by 2^mag (exact in binary floating point) and the answers divided back: the contracts are about
    \* mappings, not about the size of their numbers (degrees per pixel ~ 2^-14 ... thousands of metres per pixel)
    [] k = "rws" -> {[op |-> "rws", R |-> R, w2 |-> w, sx2 |-> sx, sy2 |-> sy, mag |-> m] : R \in Rots, w \in {0, 1, -1, 2, -2}, sx \in {2, -2, 1, 4}, sy \in {2, -2, -1, 6}, m \in Mags}
    [] k = "affpts" -> {[op |-> "affpts", A |-> A, X |-> X, mag |-> m] : A \in AffInts, X \in PtSets, m \in Mags}
    \* fb: the fallback resolution handed over - the true spacing, or (for the axes that HAVE two or more labels, where it must be ignored) a wrong one
    \* of the other sign, or none at all when no axis needs it
    [] k = "axis" -> {[op |-> "axis", x0 |-> x0, rx |-> rx, nx |-> nx, y0 |-> 3, ry |-> ry, ny |-> ny, fb |-> fb] :
                        x0 \in {0, -5, 7}, rx \in {2, -2, 1, 5}, nx \in {1, 2, 5}, ry \in {-2, 3}, ny \in {1, 3}, fb \in {"true", "wrong", "none"}}
    \* sz in quarter units; 196 / 300 / 412 = 49 / 75 / 103 units: sizes whose reciprocal is not exact in binary (x / sz and x * (1 / sz) differ on bin edges)
    [] k = "bin1d" -> {[op |-> "bin1d", sz |-> sz, o |-> o, dir |-> d, idx |-> i] : sz \in {4, 6, 1, 196, 300, 412}, o \in {0, -6, 2}, d \in {1, -1}, i \in {-2, 0, 3}}
    [] k = "poly" -> {[op |-> "poly", kind |-> kd, nn |-> nn, T |-> T, mag |-> (((T[1] + 2 * T[2] + 3 * T[4] + T[5] + 6) % 3) * 13) - 14] : kd \in {"affine", "bilinear", "biquad"}, nn \in {3, 4, 6, 8, 9, 12},
                        \* input transforms: every invertible integer matrix with entries in -1..2 (scales, mirrors, rotations, shears in the x row only,
                        \* in the y row only, in both), two translations
                        T \in {<<a, b, t[1], d, e, t[2]>> : a \in -1..2, b \in -1..2, d \in -1..2, e \in -1..2, t \in {<<0, 0>>, <<2, 1>>}} \ {x \in [1..6 -> -1..2] : x[1] * x[5] - x[2] * x[4] = 0}}
Kinds == {"zeroclamp", "split", "nearint", "snapscale", "snapfine", "align", "snapgrid", "snapaffine", "rws", "affpts", "axis", "bin1d", "poly"}
PolyValid(c) == (c.kind = "affine" /\ c.nn \in {3, 6}) \/ (c.kind = "bilinear" /\ c.nn \in {4, 8}) \/ (c.kind = "biquad" /\ c.nn \in {9, 12})

VARIABLE c
Init == c \in {[op |-> "chunk", k |-> k] : k \in Kinds}
Next == c.op = "chunk" /\ c' \in {x \in CasesFor(c.k) : x.op # "poly" \/ PolyValid(x)} /\ Emit(c')
Spec == Init /\ [][Next]_c

\* design-level: transcriptions meet their contracts
ModelOK ==
  /\ c.op = "split" => SplitOK(c.n, 16, Whole(c.n, 16), FracNum(c.n, 16)) = "ok"
  /\ c.op = "nearint" => NearIntOK(c.n, 1024, c.tol[1], c.tol[2], MaybeIntModel(c.n, 1024, c.tol[1], c.tol[2]), AlmostInt(c.n, 1024, c.tol[1], c.tol[2])) = "ok"
  /\ c.op = "snapgrid" => SnapGridOK(128, c.x0, c.x0 + c.sp, c.r, c.o, c.tol[1], c.tol[2], SnapGridModel(128, c.x0, c.x0 + c.sp, c.r, c.o, c.tol[1], c.tol[2])) = "ok"
  /\ c.op = "align" => (\A a \in 1..17 : AlignOK(c.x, a, AlignDown(c.x, a), AlignUp(c.x, a)) = "ok")
                       /\ (c.x >= 1 => Pow2OK(c.x, Pow2Up(c.x), Pow2Down(c.x)) = "ok")
  /\ c.op = "rws" => LET W == <<2, c.w2, 0, 2>> Sm == <<c.sx2, 0, 0, c.sy2>> A == MMul(MMul(c.R, W), Sm) IN RwsOK(A, 260, c.R, 65, W, 2, Sm, 2) = "ok"
=============================================================================
