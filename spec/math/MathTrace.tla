------------------------------- MODULE MathTrace -------------------------------
(* C20 - verdicts on values logged from the real odc.geo.math functions (see MathGen for the cases). *)
EXTENDS MathHelpers, TraceIO

RECURSIVE First(_)
First(vs) == IF vs = <<>> THEN "ok" ELSE IF Head(vs) # "ok" THEN Head(vs) ELSE First(Tail(vs))
R(v) == IF v = "ok" THEN "ok" ELSE "reject:" \o v
D(cond, name) == IF cond THEN "ok" ELSE "drift:" \o name

SnapAffV(e) ==
  LET c == e.c o == e.o
      Near(n, tl) == Dist(n, 1024) * tl[2] < tl[1] * 1024
      Exp(n, tl) == IF Near(n, tl) THEN Whole(n, 1024) * 1024 ELSE n IN
  IF ~o.idem THEN "snap_affine_not_idempotent"
  ELSE IF c.rot # 0 THEN (IF o.terms # <<c.sx, c.rot, c.tx, -c.rot, c.sy, c.ty>> THEN "rotated_transform_changed" ELSE "ok")
  ELSE IF o.terms[2] # 0 \/ o.terms[4] # 0 THEN "off_diagonal_terms_appeared"
  ELSE IF \E p \in {<<1, c.sx, c.stol>>, <<3, c.tx, c.tol>>, <<5, c.sy, c.stol>>, <<6, c.ty, c.tol>>} : o.terms[p[1]] # Exp(p[2], p[3]) THEN "term_not_snapped_exactly_within_its_own_tolerance"
  ELSE "ok"
RwsV(e) ==
  LET c == e.c W == <<2, c.w2, 0, 2>> Sm == <<c.sx2, 0, 0, c.sy2>> A == MMul(MMul(c.R, W), Sm) o == e.o
      v == RwsOK(A, 260, o.R, 65, o.W, 2, o.S, 2) IN
  IF v # "ok" THEN v
  ELSE IF Abs(o.res[1] * o.res[2]) * 260 * 260 # 4 * Abs(MDet(A)) THEN "resolution_product_is_not_the_pixel_area"
  ELSE IF c.w2 = 0 /\ ~(Abs(o.res[1]) = Abs(c.sx2) /\ Abs(o.res[2]) = Abs(c.sy2)) THEN "resolution_is_not_the_pixel_size"
  ELSE IF c.w2 = 0 /\ c.R = <<65, 0, 0, 65>> /\ o.res # <<c.sx2, c.sy2>> THEN "resolution_of_unrotated_transform_lost_its_sign"
  ELSE "ok"
AxisV(e) ==
  LET c == e.c A == e.o.A IN        \* A over 4; labels over 4: centre i maps to A*(i + 1/2)
  IF \E i \in 0..(c.nx - 1) : A[1] * (2 * i + 1) + 2 * A[3] # 2 * (4 * c.x0 + c.rx * (2 * i + 1)) THEN "x_labels_not_reproduced"
  ELSE IF \E j \in 0..(c.ny - 1) : A[5] * (2 * j + 1) + 2 * A[6] # 2 * (4 * c.y0 + c.ry * (2 * j + 1)) THEN "y_labels_not_reproduced"
  ELSE IF A[2] # 0 \/ A[4] # 0 THEN "axis_affine_not_axis_aligned" ELSE "ok"
BinV(e) ==
  LET c == e.c o == e.o IN
  IF \E k \in DOMAIN o.pts : LET p == o.pts[k] IN ~(p.lo <= p.x /\ p.x < p.hi /\ p.hi - p.lo = c.sz) THEN "point_not_in_the_interval_of_its_bin"
  ELSE IF \E k \in DOMAIN o.pts : o.pts[k].b2 # o.pts[k].b THEN "binning_rebuilt_from_sample_bin_differs"
  ELSE IF \E k \in DOMAIN o.pts : o.pts[k].b # (IF c.dir = 1 THEN 1 ELSE -1) * FloorDiv(o.pts[k].x - c.o, c.sz) THEN "drift"
  ELSE "ok"
PolyV(e) ==
  LET c == e.c cc == CC(c.kind) IN
  IF \E k \in DOMAIN Probes : e.o.direct[k] # <<PolyVal(cc[1], Probes[k][1], Probes[k][2]), PolyVal(cc[2], Probes[k][1], Probes[k][2])>> THEN "fit_does_not_reproduce_exactly_representable_mapping"
  ELSE IF \E k \in DOMAIN Probes : LET q == AffApply(c.T, Probes[k]) IN e.o.chained[k] # <<PolyVal(cc[1], q[1], q[2]), PolyVal(cc[2], q[1], q[2])>> THEN "input_transform_not_composed_correctly"
  ELSE "ok"

Verdict(e) ==
  LET c == e.c o == e.o IN
  IF e.outcome # "ok" THEN "reject:raised_" \o e.outcome
  ELSE CASE c.op = "split" -> (LET v == SplitOK(c.n, 16, o.w, o.f) IN IF v # "ok" THEN R(v) ELSE D(o.w = Whole(c.n, 16), "split_differs_from_model"))
    \* maybe_zero: exactly zero inside the tolerance, the value itself outside (tolerance tn / td, value n / 1024)
    [] c.op = "maybezero" -> R(IF Abs(c.n) * c.tol[2] < c.tol[1] * 1024 THEN (IF o.v = 0 THEN "ok" ELSE "near_zero_value_not_turned_into_zero")
                              ELSE IF o.v = c.n THEN "ok" ELSE "value_outside_the_tolerance_was_changed")
    [] c.op = "clamp" -> R(IF o.v = (IF c.n < c.lo THEN c.lo ELSE IF c.n > c.hi THEN c.hi ELSE c.n) THEN "ok" ELSE "clamp_result_not_the_nearest_value_of_the_interval")
    [] c.op = "nearint" -> (LET v == NearIntOK(c.n, 1024, c.tol[1], c.tol[2], o.mi, o.ai) IN IF v # "ok" THEN R(v) ELSE D(o.mi = MaybeIntModel(c.n, 1024, c.tol[1], c.tol[2]), "maybe_int_differs_from_model"))
    [] c.op = "snapscale" -> R(SnapScaleOK(c.small, c.n, 1024, c.tol[1], c.tol[2], o))
    [] c.op = "snapfine" -> R(SnapFineOK(c, o))
    [] c.op = "align" -> R(First([a \in 1..17 |-> AlignOK(c.x, a, o.dn[a], o.up[a])] \o <<Pow2OK(c.x, o.p2up, o.p2dn)>>))
    [] c.op = "snapgrid" -> (LET v == SnapGridOK(128, c.x0, c.x0 + c.sp, c.r, c.o, c.tol[1], c.tol[2], o.out) IN
                              IF v # "ok" THEN R(v) ELSE D(o.out = SnapGridModel(128, c.x0, c.x0 + c.sp, c.r, c.o, c.tol[1], c.tol[2]), "snap_grid_differs_from_model"))
    [] c.op = "snapaffine" -> R(SnapAffV(e))
    [] c.op = "rws" -> R(RwsV(e))
    [] c.op = "affpts" -> R(IF o.A # c.A THEN "affine_fit_does_not_reproduce_exact_mapping" ELSE "ok")
    [] c.op = "axis" -> R(AxisV(e))
    [] c.op = "bin1d" -> (LET v == BinV(e) IN IF v = "drift" THEN "drift:bin_differs_from_model" ELSE R(v))
    [] c.op = "poly" -> R(PolyV(e))
VARIABLE l
Init == l = 1
Next == l <= NEvents /\ PrintT(<<"V", l, Verdict(Events[l])>>) /\ l' = l + 1
Spec == Init /\ [][Next]_l
=============================================================================
