------------------------------ MODULE MathHelpers ------------------------------
(* C20 - numeric helpers of odc/geo/math.py on exact domains.
   Rationals are integers over a stated denominator (D = 1024 for near-integer behaviour, 16 for
   split_float, 128 for grid snapping); tolerances are rationals TN/TD.  Each helper has a
   transcription (model) and a contract stated from its documentation; contracts take the output
   as an argument so they judge the model (TLC) and the values logged from the real code alike.   *)
EXTENDS IntMath, Sequences, FiniteSets, TLC

(* ---------------- split_float / maybe_int / is_almost_int ---------------- *)
\* nearest integer to n/d with the fraction in [-1/2, 1/2] as split_float computes it (fmod truncates toward zero)
Whole(n, d) == LET q == TruncDiv(n, d) r == n - q * d IN IF 2 * r > d THEN q + 1 ELSE IF 2 * r < -d THEN q - 1 ELSE q
FracNum(n, d) == n - Whole(n, d) * d
SplitOK(n, d, w, f) == IF w * d + f # n THEN "parts_do_not_sum_to_input" ELSE IF 2 * Abs(f) > d THEN "fraction_outside_half" ELSE "ok"
\* |frac| < tol
AlmostInt(n, d, tn, td) == Abs(FracNum(n, d)) * td < tn * d
\* maybe_int output as [isint, val] with val over d
MaybeIntModel(n, d, tn, td) == IF AlmostInt(n, d, tn, td) THEN [isint |-> TRUE, val |-> Whole(n, d) * d] ELSE [isint |-> FALSE, val |-> n]
\* first principles: distance to the nearest integer
Dist(n, d) == LET m == PyMod(n, d) IN Min2(m, d - m)
NearIntOK(n, d, tn, td, mi, ai) ==
  LET near == Dist(n, d) * td < tn * d IN
  IF mi.isint # near THEN "maybe_int_disagrees_with_tolerance"
  ELSE IF ai # near THEN "is_almost_int_disagrees_with_tolerance"
  ELSE IF near /\ Abs(mi.val - n) # Dist(n, d) THEN "maybe_int_not_the_nearest_integer"
  ELSE IF near /\ mi.val % d # 0 THEN "maybe_int_result_not_integral"
  ELSE IF ~near /\ mi.val # n THEN "maybe_int_changed_a_value_outside_tolerance"
  ELSE "ok"

(* ---------------- snap_scale: s given through its inverse v = n/d when |s| < 1 ---------------- *)
\* e.small: s = 1/(n/d) ; else s = n/d.  out: [snapped: BOOLEAN (result differs from input), target: result (or its inverse) over d, idem]
SnapScaleOK(small, n, d, tn, td, o) ==
  LET near == Dist(n, d) * td < tn * d /\ Whole(n, d) # 0 IN
  IF ~o.idem THEN "snap_scale_not_idempotent"
  ELSE IF near /\ o.target # Whole(n, d) * d THEN "scale_within_tolerance_not_snapped_to_integer_or_unit_fraction"
  ELSE IF ~near /\ o.changed THEN "scale_outside_tolerance_changed"
  ELSE "ok"

(* ---------------- snapping with the DOCUMENTED DEFAULT tolerances (scale 1e-6, translation 1e-3, rotation 1e-8) ----------------
   Values are  n +- 2^-e  (e = 0: exactly n); a tolerance is a / b.  2^-e < a / b  <=>  b < a * 2^e  (exponents up to 30 fit TLC's integers).
   c = [n, es, et, ew]  : scale  n +- 2^-es,  translation  5 +- 2^-et,  rotation term  2^-ew (0: none);  tolerances <<a, b>>.
   o = [scale_is_n, scale_unchanged, trans_is_5, trans_unchanged, rot_zero, all_unchanged, idem]                                   *)
Inside(e, tol) == e = 0 \/ tol[2] < tol[1] * 2 ^ e
SnapFineOK(c, o) ==
  LET stol == <<1, 1000000>> ttol == <<1, 1000>> rtol == <<1, 100000000>>
      rotated == c.ew # 0 /\ ~Inside(c.ew, rtol) IN
  IF c.f = "affine" /\ rotated THEN (IF o.all_unchanged THEN "ok" ELSE "rotated_transform_was_changed")
  ELSE IF Inside(c.es, stol) /\ ~o.scale_is_n THEN "scale_within_the_default_tolerance_not_snapped"
  ELSE IF ~Inside(c.es, stol) /\ ~o.scale_unchanged THEN "scale_outside_the_default_tolerance_changed"
  ELSE IF c.f = "affine" /\ Inside(c.et, ttol) /\ ~o.trans_is_5 THEN "translation_within_the_default_tolerance_not_snapped"
  ELSE IF c.f = "affine" /\ ~Inside(c.et, ttol) /\ ~o.trans_unchanged THEN "translation_outside_the_default_tolerance_changed"
  ELSE IF c.f = "affine" /\ ~o.rot_zero THEN "rotation_term_below_the_tolerance_kept"
  ELSE IF ~o.idem THEN "snapping_not_idempotent"
  ELSE "ok"

(* ---------------- integer alignment ---------------- *)
AlignOK(x, a, dn, up) ==
  IF ~(dn % a = 0 /\ dn <= x /\ x - dn < a) THEN "align_down_contract" ELSE IF ~(up % a = 0 /\ up >= x /\ up - x < a) THEN "align_up_contract" ELSE "ok"
IsPow2(y) == y >= 1 /\ Pow2Up(y) = y
Pow2OK(x, up, dn) ==
  IF x >= 1 /\ ~(IsPow2(up) /\ up >= x /\ (up = 1 \/ up \div 2 < x)) THEN "align_up_pow2_contract"
  ELSE IF x <= 0 /\ up # 1 THEN "align_up_pow2_contract"            \* the smallest power of two that is >= a non-positive number is 2^0
  ELSE IF x >= 1 /\ ~(IsPow2(dn) /\ dn <= x /\ 2 * dn > x) THEN "align_down_pow2_contract"
  ELSE "ok"

(* ---------------- snap_grid (one axis).  X0, X1, R over S; O = off_pix over S (-1 = None); result tx over S*S ---------------- *)
FloorMI(n, d, tn, td) == IF AlmostInt(n, d, tn, td) THEN Whole(n, d) ELSE FloorDiv(n, d)
CeilMI(n, d, tn, td)  == IF AlmostInt(n, d, tn, td) THEN Whole(n, d) ELSE CeilDiv(n, d)
EdgePos(X0, X1, R, tn, td) == LET a == FloorMI(X0, R, tn, td) b == CeilMI(X1, R, tn, td) IN <<a * R, Max2(1, b - a)>>
Edge(X0, X1, R, tn, td) == IF R > 0 THEN EdgePos(X0, X1, R, tn, td)
                           ELSE LET e == EdgePos(X0, X1, -R, tn, td) IN <<e[1] + e[2] * (-R), e[2]>>
SnapGridModel(S, X0, X1, R, O, tn, td) ==
  IF O = -1 THEN LET nx == CeilMI(X1 - X0, Abs(R), tn, td) IN <<(IF R > 0 THEN X0 ELSE X1) * S, Max2(1, nx)>>
  ELSE LET off == O * Abs(R) e == Edge(X0 * S - off, X1 * S - off, R * S, tn, td) IN <<e[1] + off, e[2]>>
SnapGridOK(S, X0, X1, R, O, tn, td, o) ==
  LET tx == o[1] nx == o[2] aR == Abs(R) * S
      lo == IF R > 0 THEN tx ELSE tx - nx * aR hi == lo + nx * aR x0 == X0 * S x1 == X1 * S IN
  IF nx < 1 THEN "no_pixels"
  ELSE IF ~((x0 - lo) * td >= -(tn * aR) /\ (hi - x1) * td >= -(tn * aR)) THEN "span_does_not_cover_interval_up_to_tolerance"
  \* minimal: with one pixel less on either side the span would no longer cover the interval up to the tolerance
  ELSE IF nx > 1 /\ ~((x0 - lo) * td < (td - tn) * aR /\ (hi - x1) * td < (td - tn) * aR) THEN "span_not_minimal"
  ELSE IF O # -1 /\ (lo - O * Abs(R)) % aR # 0 THEN "not_aligned_to_requested_pixel_fraction"
  ELSE "ok"

(* ---------------- 2x2 integer matrices <<a, b, c, d>> = [[a, b], [c, d]] ---------------- *)
MMul(p, q) == <<p[1] * q[1] + p[2] * q[3], p[1] * q[2] + p[2] * q[4], p[3] * q[1] + p[4] * q[3], p[3] * q[2] + p[4] * q[4]>>
MDet(p) == p[1] * p[4] - p[2] * p[3]
MT(p) == <<p[1], p[3], p[2], p[4]>>
\* decompose_rws: R over kr, W over kw, S over ks, input A over ka;  R W S * (ka) = A * (kr kw ks)
RwsOK(A, ka, R, kr, W, kw, Sm, ks) ==
  IF [i \in 1..4 |-> MMul(MMul(R, W), Sm)[i] * ka] # [i \in 1..4 |-> A[i] * kr * kw * ks] THEN "factors_do_not_multiply_back"
  ELSE IF MMul(MT(R), R) # <<kr * kr, 0, 0, kr * kr>> \/ MDet(R) # kr * kr THEN "R_is_not_a_proper_rotation"
  ELSE IF ~(W[1] = kw /\ W[4] = kw /\ W[3] = 0) THEN "W_is_not_a_unit_diagonal_shear"
  ELSE IF ~(Sm[2] = 0 /\ Sm[3] = 0) THEN "S_is_not_diagonal"
  ELSE "ok"

(* ---------------- polynomial / affine maps with integer coefficients ---------------- *)
\* f(x, y) = sum cc[i][j] x^(i-1) y^(j-1), cc a 3x3 integer matrix (zero rows / columns for lower degree)
Pw(x, k) == IF k = 0 THEN 1 ELSE IF k = 1 THEN x ELSE x * x
PolyVal(cc, x, y) == LET T(i, j) == cc[i][j] * Pw(x, i - 1) * Pw(y, j - 1) IN
  T(1, 1) + T(1, 2) + T(1, 3) + T(2, 1) + T(2, 2) + T(2, 3) + T(3, 1) + T(3, 2) + T(3, 3)
AffApply(A, p) == <<A[1] * p[1] + A[2] * p[2] + A[3], A[4] * p[1] + A[5] * p[2] + A[6]>>
Grid(n, m) == [k \in 1..(n * m) |-> <<(k - 1) % n, (k - 1) \div n>>]
\* polynomial maps: two 3x3 coefficient matrices (x' and y'), degree by kind
CC(kind) == CASE kind = "affine" -> <<<<<<3, -2, 0>>, <<2, 0, 0>>, <<0, 0, 0>>>>, <<<<-1, 4, 0>>, <<1, 0, 0>>, <<0, 0, 0>>>>>>
              [] kind = "bilinear" -> <<<<<<3, -2, 0>>, <<2, 1, 0>>, <<0, 0, 0>>>>, <<<<-1, 4, 0>>, <<1, -1, 0>>, <<0, 0, 0>>>>>>
              [] kind = "biquad" -> <<<<<<3, -2, 1>>, <<2, 1, 0>>, <<-1, 0, 1>>>>, <<<<-1, 4, 0>>, <<1, -1, 1>>, <<1, 1, 0>>>>>>
Probes == <<<<1, 1>>, <<2, 0>>, <<0, 2>>, <<3, 2>>, <<-1, 1>>, <<2, 3>>>>
=============================================================================
