-------------------------------- MODULE CogLayout --------------------------------
(* C05 - layout rules of the parallel COG writer (odc/geo/cog/_shared.py: adjust_blocksize, num_overviews,
   compute_cog_spec, CogMeta tile enumeration) and the contract on the tile tables of a written file.       *)
EXTENDS IntMath, Sequences, FiniteSets, TLC

(* ---- transcription ---- *)
AdjustBlock(b, dim) == IF 0 < dim /\ dim < b THEN AlignUp(dim, 16) ELSE AlignUp(b, 16)
RECURSIVE NumOv(_, _)
NumOv(block, dim) == IF block < dim THEN 1 + NumOv(block, dim \div 2) ELSE 0
\* compute_cog_spec(data_shape, tile) with the tile taken from the LAST entry of the blocksize list (as _make_empty_cog does)
CogSpec(h, w, b) == LET t == AdjustBlock(b, 0) n == Max2(NumOv(t, w), NumOv(t, h)) pad == Pow2(n) IN
                    [h |-> AlignUp(h, pad), w |-> AlignUp(w, pad), t |-> t, n |-> n]
RECURSIVE Levels(_, _, _)
Levels(h, w, k) == IF k = 0 THEN <<<<h, w>>>> ELSE <<<<h, w>>>> \o Levels(h \div 2, w \div 2, k - 1)
\* tile size of level i (1-based) from the blocksize list (last entry repeats)
TileOf(blocks, i) == AdjustBlock(blocks[Min2(i, Len(blocks))], 0)
NTiles(lvl, t) == CeilDiv(lvl[1], t) * CeilDiv(lvl[2], t)
\* flat tile index inside one level: plane-major, then row, then column
Flat(lvl, t, p, y, x) == p * NTiles(lvl, t) + y * CeilDiv(lvl[2], t) + x

(* ---- design-level invariants of the layout rule ---- *)
LayoutOK(h, w, blocks) ==
  LET s == CogSpec(h, w, blocks[Len(blocks)]) lv == Levels(s.h, s.w, s.n) pad == Pow2(s.n) IN
  /\ s.t % 16 = 0
  /\ s.h >= h /\ s.h - h < pad /\ s.h % pad = 0 /\ s.w >= w /\ s.w - w < pad /\ s.w % pad = 0
  /\ \A i \in 1..s.n : lv[i + 1][1] * 2 = lv[i][1] /\ lv[i + 1][2] * 2 = lv[i][2]
  /\ lv[s.n + 1][1] >= 1 /\ lv[s.n + 1][2] >= 1
FlatBijective(lvl, t, planes) ==
  LET idx == {<<p, y, x>> : p \in 0..(planes - 1), y \in 0..(CeilDiv(lvl[1], t) - 1), x \in 0..(CeilDiv(lvl[2], t) - 1)} IN
  {Flat(lvl, t, i[1], i[2], i[3]) : i \in idx} = 0..(Cardinality(idx) - 1) /\ Cardinality({Flat(lvl, t, i[1], i[2], i[3]) : i \in idx}) = Cardinality(idx)

(* ---- contract on a written file ----
   e.c = [h, w, blocks, ...]; e.pages = sequence of [h, w, th, tw, reduced, offs, counts] in IFD order (full resolution first);
   e.hdr = size of the header part; e.size = file size                                                          *)
AllTiles(e) == UNION {{<<e.pages[i].offs[k], e.pages[i].counts[k], i>> : k \in DOMAIN e.pages[i].offs} : i \in DOMAIN e.pages}
FileV(e) ==
  LET P == e.pages n == Len(P) - 1 T == AllTiles(e) pad == Pow2(n) IN
  IF Len(P) = 0 THEN "no_image_in_file"
  ELSE IF P[1].reduced \/ \E i \in 2..Len(P) : ~P[i].reduced THEN "first_page_is_not_the_full_resolution_image_followed_by_overviews"
  ELSE IF ~(P[1].h >= e.c.h /\ P[1].h - e.c.h < pad /\ P[1].h % pad = 0 /\ P[1].w >= e.c.w /\ P[1].w - e.c.w < pad /\ P[1].w % pad = 0) THEN "padding_is_not_up_to_the_next_multiple_of_2^levels"
  ELSE IF \E i \in 1..n : ~(P[i + 1].h * 2 = P[i].h /\ P[i + 1].w * 2 = P[i].w) THEN "overview_is_not_exactly_half_of_the_previous_level"
  ELSE IF \E i \in DOMAIN P : P[i].th % 16 # 0 \/ P[i].tw % 16 # 0 THEN "tile_size_not_a_multiple_of_16"
  ELSE IF \E i \in DOMAIN P : Len(P[i].offs) # e.planes_sep * CeilDiv(P[i].h, P[i].th) * CeilDiv(P[i].w, P[i].tw) \/ Len(P[i].counts) # Len(P[i].offs) THEN "tile_table_has_the_wrong_number_of_entries"
  ELSE IF \E a \in T : a[1] < e.hdr \/ a[1] + a[2] > e.size \/ a[2] <= 0 THEN "tile_entry_outside_the_data_area"
  ELSE IF \E a, b \in T : a # b /\ a[1] < b[1] + b[2] /\ b[1] < a[1] + a[2] THEN "tile_entries_overlap"
  ELSE IF SetMin({a[1] : a \in T}) # e.hdr \/ SetMax({a[1] + a[2] : a \in T}) # e.size THEN "gap_before_first_or_after_last_tile"
  ELSE IF \E a \in T : a[1] + a[2] # e.size /\ ~\E b \in T : b[1] = a[1] + a[2] THEN "gap_between_tiles"
  ELSE IF \E a, b \in T : a[3] = 1 /\ b[3] > 1 /\ b[1] > a[1] THEN "overview_tile_data_after_full_resolution_data"
  ELSE IF ~(e.decode_rio /\ e.decode_tifffile /\ e.overviews_decodable) THEN "independent_reader_does_not_decode_the_original_pixels"
  ELSE IF ~(e.transform_ok /\ e.crs_ok /\ e.nodata_ok) THEN "transform_crs_or_nodata_not_preserved"
  ELSE IF "tb" \in DOMAIN e.c THEN "ok"
  ELSE IF <<P[1].h, P[1].w, n>> # <<CogSpec(e.c.h, e.c.w, e.c.blocks[Len(e.c.blocks)]).h, CogSpec(e.c.h, e.c.w, e.c.blocks[Len(e.c.blocks)]).w, CogSpec(e.c.h, e.c.w, e.c.blocks[Len(e.c.blocks)]).n>> THEN "drift"
  ELSE "ok"
=============================================================================
