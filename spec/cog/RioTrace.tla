--------------------------------- MODULE RioTrace ---------------------------------
EXTENDS RioCogOps, TraceIO
Verdict(e) == LET v == WriteV(e) IN IF v = "ok" THEN "ok" ELSE IF v = "drift" THEN "drift:block_size_differs_from_rule" ELSE "reject:" \o v
VARIABLE l
TInit == l = 1
TNext == l <= NEvents /\ PrintT(<<"V", l, Verdict(Events[l])>>) /\ l' = l + 1
TSpec == TInit /\ [][TNext]_l
=============================================================================
