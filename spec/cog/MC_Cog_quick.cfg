SPECIFICATION Spec
CONSTANT MaxDim = 70
INVARIANT ModelOK
INVARIANT FlatOK
