--------------------------------- MODULE RioGen ---------------------------------
EXTENDS RioCogOps, CaseIO
Shapes == {<<20, 30>>, <<100, 70>>, <<33, 17>>, <<520, 600>>, <<16, 16>>}
Variants == << [layout |-> "YX", ns |-> 1, dtype |-> "uint8", nodata |-> <<>>, rot |-> FALSE, windowed |-> FALSE, icomp |-> FALSE],
               [layout |-> "SYX", ns |-> 3, dtype |-> "int16", nodata |-> <<-999>>, rot |-> FALSE, windowed |-> TRUE, icomp |-> TRUE],
               [layout |-> "YXS", ns |-> 3, dtype |-> "uint8", nodata |-> <<>>, rot |-> FALSE, windowed |-> FALSE, icomp |-> FALSE],
               [layout |-> "YX", ns |-> 1, dtype |-> "float32", nodata |-> <<>>, rot |-> TRUE, windowed |-> FALSE, icomp |-> TRUE],
               [layout |-> "SYX", ns |-> 2, dtype |-> "float64", nodata |-> <<-1>>, rot |-> FALSE, windowed |-> FALSE, icomp |-> FALSE],
               [layout |-> "YX", ns |-> 1, dtype |-> "int8", nodata |-> <<-5>>, rot |-> FALSE, windowed |-> TRUE, icomp |-> FALSE],
               [layout |-> "YXS", ns |-> 4, dtype |-> "uint16", nodata |-> <<0>>, rot |-> TRUE, windowed |-> FALSE, icomp |-> FALSE] >>
Cases == UNION { {[h |-> s[1], w |-> s[2], block |-> b, levels |-> lv, route |-> rt, dest |-> d, pre |-> "absent", overwrite |-> FALSE] @@ Variants[((s[1] + b + Len(lv) + (IF d = "file" THEN 1 ELSE 0)) % Len(Variants)) + 1] :
                    s \in Shapes, b \in {0, 32, 64, 100}, lv \in {"default", "none", "l2", "l24"}, rt \in {"write_cog", "to_cog"}, d \in {"file", "mem"}},
                 {[h |-> s[1], w |-> s[2], block |-> b, levels |-> "l24", route |-> "layers", dest |-> d, pre |-> "absent", overwrite |-> FALSE] @@ Variants[k] :
                    s \in {<<100, 70>>, <<33, 17>>}, b \in {0, 32}, d \in {"file", "mem"}, k \in {1, 2, 5}},
                 {[h |-> 20, w |-> 30, block |-> 32, levels |-> lv, route |-> rt, dest |-> "file", pre |-> p, overwrite |-> ow] @@ Variants[k] :
                    lv \in {"none", "l2"}, rt \in {"write_cog", "layers"}, p \in {"absent", "old"}, ow \in BOOLEAN, k \in {1, 2}} }
\* every combination of layout, dtype, nodata, rotation, windowed writes, intermediate compression and CRS on one mid-sized image
\* (the Variants above pin these together; here they vary independently)
Full == {[h |-> 100, w |-> 70, block |-> 32, levels |-> lv, route |-> "write_cog", dest |-> d, pre |-> "absent", overwrite |-> FALSE,
          layout |-> ly[1], ns |-> ly[2], dtype |-> dt, nodata |-> nd, rot |-> r, windowed |-> wn, icomp |-> ic, crs |-> cr, pat |-> pt] :
           ly \in {<<"YX", 1>>, <<"SYX", 3>>, <<"YXS", 3>>, <<"YXS", 4>>}, dt \in {"uint8", "int16", "float32", "int8"}, nd \in {<<>>, <<7>>}, r \in BOOLEAN, wn \in BOOLEAN, ic \in BOOLEAN,
           \* utm55s_grs80 / tmerc_airy / laea_custom: CRSs given as PROJ strings WITHOUT a datum or authority code (an EPSG entry may look similar - it is not the same system)
           cr \in {"32633", "4326", "3857", "utm55s_grs80", "tmerc_airy", "laea_custom"}, lv \in {"l2"}, d \in {"file"},
           \* pixel pattern: random values, or whole internal blocks of the valid value 0 / of the nodata value / of one constant among random ones
           pt \in {"random", "uniform_blocks"}}
VARIABLE c
Init == c = [k |-> 0]
Next == "k" \in DOMAIN c /\ c' \in {x \in Cases : ~(x.route = "to_cog" /\ x.dest = "file")} \cup Full /\ Emit(c')
Spec == Init /\ [][Next]_c
\* design level: block sizes the rule produces are multiples of 16 and never larger than needed
ModelOK == "h" \in DOMAIN c => LET b == <<AdjustBlock(BlockOf(c), c.h), AdjustBlock(BlockOf(c), c.w)>> IN
              b[1] % 16 = 0 /\ b[2] % 16 = 0 /\ (c.h < BlockOf(c) => b[1] < c.h + 16) /\ (c.w < BlockOf(c) => b[2] < c.w + 16)
=============================================================================
