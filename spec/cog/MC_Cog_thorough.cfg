SPECIFICATION Spec
CONSTANT MaxDim = 150
INVARIANT ModelOK
INVARIANT FlatOK
