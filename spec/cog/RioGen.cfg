SPECIFICATION Spec
INVARIANT ModelOK
