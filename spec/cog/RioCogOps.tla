-------------------------------- MODULE RioCogOps --------------------------------
(* C15 - contract on one real write, relative to what an independent reader (rasterio / tifffile) reports. *)
EXTENDS IntMath, Sequences, FiniteSets, TLC
BandCount(c) == IF c.layout = "YX" THEN 1 ELSE c.ns
DefaultLevels(h, w) == IF Min2(w, h) < 512 THEN <<>> ELSE <<2, 4, 8, 16, 32>>
Levels(c) == IF c.route = "layers" THEN <<2, 4>> ELSE IF c.levels = "default" THEN DefaultLevels(c.h, c.w) ELSE IF c.levels = "none" THEN <<>> ELSE IF c.levels = "l2" THEN <<2>> ELSE <<2, 4>>
AdjustBlock(b, dim) == IF 0 < dim /\ dim < b THEN AlignUp(dim, 16) ELSE AlignUp(b, 16)
BlockOf(c) == IF c.block = 0 THEN 512 ELSE c.block
\* e.r = what the reader saw: [count, dtype_ok, pixels_ok, band_order_ok, transform_ok, crs_ok, nodata_ok, tiled, block (<<by, bx>>), ovr (sequence of <<h, w>>)]
\* e.guard = [pre ("absent" | "old"), overwrite, raised_ioerror, content ("old" | "new" | "absent")]
WriteV(e) ==
  LET c == e.c r == e.r g == e.guard IN
  IF g.pre = "old" /\ ~g.overwrite THEN
       (IF ~g.raised_ioerror THEN "existing_destination_without_overwrite_did_not_raise"
        ELSE IF g.content # "old" THEN "existing_destination_was_touched_although_overwrite_was_not_requested" ELSE "ok")
  ELSE IF e.outcome # "ok" THEN "raised_" \o e.outcome
  ELSE IF g.pre = "old" /\ g.content # "new" THEN "destination_not_replaced_although_overwrite_was_requested"
  ELSE IF r.count # BandCount(c) THEN "band_count_differs"
  ELSE IF ~r.dtype_ok THEN "dtype_differs"
  ELSE IF ~r.pixels_ok THEN "pixel_values_differ"
  ELSE IF ~r.band_order_ok THEN "band_order_differs"
  ELSE IF ~r.transform_ok THEN "affine_transform_differs"
  ELSE IF ~r.crs_ok THEN "crs_differs"
  ELSE IF ~r.nodata_ok THEN "nodata_differs"
  ELSE IF ~r.tiled THEN "file_is_not_internally_tiled"
  ELSE IF r.block[1] % 16 # 0 \/ r.block[2] % 16 # 0 THEN "block_size_not_a_multiple_of_16"
  ELSE IF Len(r.ovr) # Len(Levels(c)) THEN "overview_levels_are_not_exactly_the_requested_ones"
  ELSE IF \E i \in DOMAIN r.ovr : r.ovr[i] # <<CeilDiv(c.h, Levels(c)[i]), CeilDiv(c.w, Levels(c)[i])>> THEN "overview_shape_is_not_the_requested_level"
  ELSE IF r.block # <<AdjustBlock(BlockOf(c), c.h), AdjustBlock(BlockOf(c), c.w)>> THEN "drift"
  ELSE "ok"
=============================================================================
