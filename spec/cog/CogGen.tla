--------------------------------- MODULE CogGen ---------------------------------
EXTENDS CogLayout, CaseIO
CONSTANTS MaxDim
\* <<128, 16>>: a full-resolution tile far larger than the overview tiles (the full-resolution level has FEWER tiles than its overviews)
BlockLists == {<<16>>, <<32>>, <<48>>, <<32, 16>>, <<48, 32>>, <<20>>, <<64, 32, 16>>, <<128, 16>>}
\* write configurations: shapes incl. narrower than a tile and single row / column; the remaining options are a function of the case
\* flat-and-wide / tall-and-thin images: the layout rule pads the short side by whole TILES (rows / columns of tiles with no source pixel at all)
Shapes == {<<45, 70>>, <<1, 40>>, <<40, 1>>, <<10, 10>>, <<33, 17>>, <<64, 64>>, <<100, 37>>, <<16, 130>>, <<7, 90>>, <<16, 512>>, <<7, 300>>, <<300, 5>>}
Variants == << [axis |-> "YX", ns |-> 1, dtype |-> "uint8", comp |-> "deflate", nodata |-> <<>>, chunks |-> <<32, 32>>, spill |-> 0, wpc |-> 1],
               [axis |-> "YXS", ns |-> 3, dtype |-> "uint8", comp |-> "zstd", nodata |-> <<>>, chunks |-> <<16, 48>>, spill |-> 300, wpc |-> 2],
               [axis |-> "SYX", ns |-> 2, dtype |-> "int16", comp |-> "deflate", nodata |-> <<-999>>, chunks |-> <<32, 16>>, spill |-> 5000, wpc |-> 1],
               [axis |-> "YX", ns |-> 1, dtype |-> "float32", comp |-> "zstd", nodata |-> <<>>, chunks |-> <<20, 64>>, spill |-> 1, wpc |-> 3],
               [axis |-> "YXS", ns |-> 4, dtype |-> "uint16", comp |-> "deflate", nodata |-> <<0>>, chunks |-> <<64, 64>>, spill |-> 100000, wpc |-> 1],
               [axis |-> "SYX", ns |-> 1, dtype |-> "float64", comp |-> "lzw", nodata |-> <<>>, chunks |-> <<8, 32>>, spill |-> 4096, wpc |-> 2],
               [axis |-> "YX", ns |-> 1, dtype |-> "int8", comp |-> "lzma", nodata |-> <<-1>>, chunks |-> <<48, 48>>, spill |-> 50, wpc |-> 1],
               \* chunks <<0, 0>>: spatial chunks equal to the full-resolution tile (what dask users get by default);
               \* schunk: chunk length along the sample / band axis (absent: one chunk), dividing the samples or not
               [axis |-> "YXS", ns |-> 3, dtype |-> "uint8", comp |-> "deflate", nodata |-> <<>>, chunks |-> <<0, 0>>, spill |-> 0, wpc |-> 1, schunk |-> 1],
               [axis |-> "YXS", ns |-> 4, dtype |-> "int16", comp |-> "zstd", nodata |-> <<-7>>, chunks |-> <<0, 0>>, spill |-> 2000, wpc |-> 2, schunk |-> 3],
               [axis |-> "SYX", ns |-> 3, dtype |-> "uint16", comp |-> "deflate", nodata |-> <<>>, chunks |-> <<0, 0>>, spill |-> 0, wpc |-> 1, schunk |-> 2],
               [axis |-> "YXS", ns |-> 2, dtype |-> "float32", comp |-> "lzw", nodata |-> <<>>, chunks |-> <<16, 48>>, spill |-> 0, wpc |-> 1, schunk |-> 1],
               \* pred: TIFF predictor request ("off" = False, "on" = True, "2" horizontal differencing, "3" floating point; absent = the writer's default);
               \* classic (non-Big) TIFF; statistics pass switched on
               [axis |-> "YX", ns |-> 1, dtype |-> "uint16", comp |-> "deflate", nodata |-> <<>>, chunks |-> <<32, 32>>, spill |-> 0, wpc |-> 1, pred |-> "off", bigtiff |-> FALSE, stats |-> TRUE],
               [axis |-> "YXS", ns |-> 3, dtype |-> "float32", comp |-> "zstd", nodata |-> <<>>, chunks |-> <<32, 48>>, spill |-> 700, wpc |-> 2, pred |-> "3", bigtiff |-> TRUE, stats |-> FALSE],
               [axis |-> "SYX", ns |-> 2, dtype |-> "int16", comp |-> "lzw", nodata |-> <<-3>>, chunks |-> <<16, 32>>, spill |-> 0, wpc |-> 1, pred |-> "2", bigtiff |-> FALSE, stats |-> TRUE],
               [axis |-> "YX", ns |-> 1, dtype |-> "float64", comp |-> "deflate", nodata |-> <<>>, chunks |-> <<48, 32>>, spill |-> 0, wpc |-> 1, pred |-> "on", bigtiff |-> TRUE, stats |-> FALSE],
               [axis |-> "YXS", ns |-> 4, dtype |-> "uint8", comp |-> "deflate", nodata |-> <<>>, chunks |-> <<0, 0>>, spill |-> 0, wpc |-> 1, pred |-> "2", bigtiff |-> FALSE, stats |-> FALSE, schunk |-> 2] >>
\* enough incompressible data per partition (several tiles of 16 KB against the file sink's 4096-byte minimum write) for a partition to
\* spend more than one of its write credits before the sub-streams (levels / planes) are merged
BigVariants == << [axis |-> "YX", ns |-> 1, dtype |-> "float32", comp |-> "zstd", nodata |-> <<>>, chunks |-> <<128, 128>>, spill |-> 5000, wpc |-> 2],
                  [axis |-> "SYX", ns |-> 2, dtype |-> "float64", comp |-> "deflate", nodata |-> <<>>, chunks |-> <<64, 128>>, spill |-> 9000, wpc |-> 3],
                  [axis |-> "YXS", ns |-> 3, dtype |-> "float32", comp |-> "zstd", nodata |-> <<>>, chunks |-> <<128, 64>>, spill |-> 20000, wpc |-> 2],
                  [axis |-> "YX", ns |-> 1, dtype |-> "float64", comp |-> "lzw", nodata |-> <<>>, chunks |-> <<64, 64>>, spill |-> 4096, wpc |-> 1] >>
BigCases == {[h |-> 200, w |-> 260, blocks |-> b] @@ BigVariants[k] @@ [vidx |-> 100 + k] : b \in {<<64, 32>>, <<64>>, <<32, 16>>}, k \in 1..Len(BigVariants)}
\* non-square tiles: tb = the blocksize list as (rows, columns) pairs (blocks keeps the last row size for the layout rule; the model
\* comparison is skipped for these, the contract on the file is the same)
TupleCases == {[h |-> s[1], w |-> s[2], blocks |-> <<tb[Len(tb)][1]>>, tb |-> tb] @@ Variants[k] @@ [vidx |-> 200 + k] :
                 s \in {<<45, 70>>, <<100, 37>>, <<16, 130>>}, tb \in {<<<<32, 48>>>>, <<<<16, 64>>, <<16, 32>>>>, <<<<48, 16>>>>}, k \in {1, 2, 3, 5}}
\* irregular source chunking (irr = "head": a short first chunk, then chunks of the given size - e.g. what is left after cropping a chunked array;
\* "tile": as "head" with the chunk size equal to the full-resolution tile, so that the LARGEST chunk has the tile's size without being aligned)
IrrCases == {[h |-> s[1], w |-> s[2], blocks |-> b, irr |-> ir] @@ Variants[k] @@ [vidx |-> 300 + k] :
               s \in {<<45, 70>>, <<100, 37>>, <<64, 64>>}, b \in {<<32, 16>>, <<16>>, <<32>>}, ir \in {"head", "tile"}, k \in {1, 2, 3, 6}}
\* GDAL-style options naming the codec's effort / tolerance, in either letter case, with the compressions they go with (LERC with a second codec on top
\* has both a tolerance and an effort; the tolerance defaults to lossless whatever effort is asked of the second codec)
LvlCases == {[comp |-> o[1], lvlk |-> o[2], lvlv |-> o[3], h |-> s[1], w |-> s[2], blocks |-> <<32, 16>>, vidx |-> 400 + k] @@ Variants[k] :
               s \in {<<45, 70>>, <<64, 64>>}, k \in {1, 3, 4},
               o \in {<<"lerc_zstd", "ZSTD_LEVEL", 9>>, <<"LERC_ZSTD", "zstd_level", 3>>, <<"lerc_deflate", "ZLEVEL", 9>>, <<"lerc", "MAX_Z_ERROR", 0>>, <<"lerc_zstd", "none", 0>>,
                       <<"zstd", "ZSTD_LEVEL", 9>>, <<"deflate", "zlevel", 9>>, <<"deflate", "level", 3>>}}
WriteCases == BigCases \cup TupleCases \cup IrrCases \cup LvlCases \cup {[h |-> s[1], w |-> s[2], blocks |-> b] @@ Variants[((s[1] + 3 * s[2] + Len(b) + b[1]) % Len(Variants)) + 1] @@ [vidx |-> k] : s \in Shapes, b \in BlockLists, k \in {0}}
              \cup {[h |-> s[1], w |-> s[2], blocks |-> b] @@ Variants[k] @@ [vidx |-> k] : s \in {<<45, 70>>, <<1, 40>>, <<33, 17>>}, b \in {<<32, 16>>, <<16>>}, k \in 1..Len(Variants)}
VARIABLE c
Init == c \in {[k |-> b] : b \in BlockLists} \cup {[k |-> <<>>]}
Next == "k" \in DOMAIN c /\ (IF c.k = <<>> THEN c' \in WriteCases /\ Emit(c') ELSE c' \in {[h |-> h, w |-> w, blocks |-> c.k, layout |-> TRUE] : h \in 1..MaxDim, w \in 1..MaxDim})
Spec == Init /\ [][Next]_c
ModelOK == ("layout" \in DOMAIN c) => LayoutOK(c.h, c.w, c.blocks)
FlatOK == ("layout" \in DOMAIN c /\ c.h <= 40 /\ c.w <= 40) => LET s == CogSpec(c.h, c.w, c.blocks[Len(c.blocks)]) IN FlatBijective(<<s.h, s.w>>, s.t, 2)
=============================================================================
