--------------------------------- MODULE RioCog ---------------------------------
(* C15 - GeoTIFF / COG written through GDAL (odc/geo/cog/_rio.py: _write_cog, write_cog, to_cog, write_cog_layers,
   check_write_path; _shared.adjust_blocksize).  Decision model of the options and the overwrite guard; read-back
   fidelity is an oracle (rasterio / GDAL decode compared with the source by the harness).                      *)
EXTENDS IntMath, Sequences, FiniteSets, TLC

(* ---- decision model ---- *)
\* band layout normalisation: "YX" -> 1 band; band-last (YXS) is transposed to band-first; band-first (SYX) as is
BandCount(c) == IF c.layout = "YX" THEN 1 ELSE c.ns
\* default overview levels
DefaultLevels(h, w) == IF Min2(w, h) < 512 THEN <<>> ELSE <<2, 4, 8, 16, 32>>
Levels(c) == IF c.levels = "default" THEN DefaultLevels(c.h, c.w) ELSE IF c.levels = "none" THEN <<>> ELSE IF c.levels = "l2" THEN <<2>> ELSE <<2, 4>>
\* block size rule per axis
AdjustBlock(b, dim) == IF 0 < dim /\ dim < b THEN AlignUp(dim, 16) ELSE AlignUp(b, 16)
BlockOf(c) == IF c.block = 0 THEN 512 ELSE c.block
ExpBlock(c) == <<AdjustBlock(BlockOf(c), c.h), AdjustBlock(BlockOf(c), c.w)>>       \* <<blockysize, blockxsize>>

(* ---- the overwrite guard as a two-state machine ---- *)
\* file state: "absent" | "old" | "new";  Write(overwrite) : absent -> new ; old /\ overwrite -> new ; old /\ ~overwrite -> old + IOError
GuardNext(state, overwrite) == IF state = "old" /\ ~overwrite THEN [state |-> "old", err |-> TRUE] ELSE [state |-> "new", err |-> FALSE]
VARIABLES fs, lastErr
Init == fs \in {"absent", "old"} /\ lastErr = FALSE
Next == \E ow \in BOOLEAN : LET r == GuardNext(fs, ow) IN fs' = r.state /\ lastErr' = r.err
Spec == Init /\ [][Next]_<<fs, lastErr>>
\* an existing file is never changed by a write that did not ask for overwriting; an error is raised exactly in that case
GuardSafe == [][(fs = "old" /\ lastErr') => fs' = "old"]_<<fs, lastErr>>
ErrOnlyWhenOld == lastErr => fs = "old"
=============================================================================
