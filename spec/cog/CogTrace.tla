--------------------------------- MODULE CogTrace ---------------------------------
EXTENDS CogLayout, TraceIO
Verdict(e) == IF e.outcome # "ok" THEN "reject:write_failed_" \o e.outcome
              ELSE LET v == FileV(e) IN IF v = "ok" THEN "ok" ELSE IF v = "drift" THEN "drift:layout_differs_from_model" ELSE "reject:" \o v
VARIABLE l
TInit == l = 1
TNext == l <= NEvents /\ PrintT(<<"V", l, Verdict(Events[l])>>) /\ l' = l + 1
TSpec == TInit /\ [][TNext]_l
=============================================================================
