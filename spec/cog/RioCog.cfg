SPECIFICATION Spec
INVARIANT ErrOnlyWhenOld
PROPERTY GuardSafe
