------------------------------- MODULE OutputGeobox -------------------------------
(* C11 - the output grid computed for another CRS (odc/geo/overlap.py compute_output_geobox, GeoBox.to_crs, .odc.output_geobox;
   odc/geo/crs.py utm / utm-n / utm-s resolution).

   Decision model of the options (which clause of the contract applies) plus the contract relative to an ENVIRONMENT
   TABLE: the projection is not modelled; the harness tabulates with a fresh pyproj transformer where every boundary
   pixel corner (and an interior sample) of the source falls in OUTPUT pixel coordinates, in 1/1024 pixel.          *)
EXTENDS IntMath, Sequences, FiniteSets, TLC

(* ---- decision model ---- *)
\* c.opts = [res ("auto" | "fit" | "same" | "explicit"), shape ("none" | "pair" | "int"), anchor ("default" | "center" | "xy"), tight, tol (<<n, d>>)]
\* c.same_crs, c.same_units : relation between source and (resolved) target CRS
\* "default options": every option at its default
\* (a raster registered by control points is not a GeoBox: for it the request computes an axis-aligned GeoBox, there is no "source GeoBox" to hand back)
GcpSources == {"gcp_eu_32633_zoomed", "gcp_eu_4326_zoomed"}
Identity(c) == c.source \notin GcpSources /\ c.same_crs /\ c.opts.res = "auto" /\ c.opts.shape = "none" /\ c.opts.anchor = "default" /\ ~c.opts.tight /\ c.opts.tol = <<1, 100>>
\* what the code does: the source's own CRS short-circuits (returns the source) whenever resolution, shape and anchor are at their
\* defaults - tight and tol are not looked at on that route; the statement demands it only for Identity and is silent on the rest of
\* ShortCircuit, so there either the source itself or a grid meeting the general contract is accepted.  Any other request for the
\* source's own CRS (explicit anchor, fit / explicit resolution, shape) takes the general route and owes the general contract.
ShortCircuit(c) == c.same_crs /\ c.opts.res \in {"auto", "same"} /\ c.opts.shape = "none" /\ c.opts.anchor = "default"
Constrained(c) == TRUE
Mode(c) == IF c.opts.shape # "none" THEN "shape"
           ELSE IF c.opts.res = "same" \/ (c.opts.res = "auto" /\ c.same_units) THEN "source_resolution"
           ELSE IF c.opts.res \in {"fit", "auto"} THEN "fit" ELSE "explicit"
Snapped(c) == ~c.opts.tight /\ c.opts.anchor # "floating"
\* expected offset of pixel edges from the CRS origin, in 1/1024 pixel
AnchorFrac(c) == CASE c.opts.anchor \in {"default", "edge"} -> <<0, 0>> [] c.opts.anchor = "center" -> <<512, 512>> [] c.opts.anchor = "xy" -> <<256, 768>>
\* design-level consistency of the table
TableOK(c) == /\ (Identity(c) => Mode(c) = "source_resolution") /\ (Identity(c) => ShortCircuit(c)) /\ (ShortCircuit(c) => Mode(c) = "source_resolution")
              /\ (Mode(c) = "shape" => ~Identity(c))

(* ---- contract on the observed result ----
   e.o = [h, w, axis_aligned, crs_ok, is_source (same object / equal to the source), edge (<<fx, fy>> offset of pixel edges from the origin in 1/1024 px),
          res_ratio (<<rx, ry>> output / source pixel size in 1e-6), square,
          tight_floats (tight mode: the same grid whichever anchor is named besides - it is pinned to the footprint's bounding box)]
   e.pos = sequence of <<x1024, y1024>> : source boundary corners and interior sample in output pixel coordinates                                   *)
NearFrac(v, want) == LET d == PyMod(v - want, 1024) IN d <= 2 \/ d >= 1022
OutV(e) ==
  LET c == e.c o == e.o tol == (1024 * c.opts.tol[1]) \div c.opts.tol[2] + 2 IN
  IF ~Constrained(c) THEN "skip"
  ELSE IF c.opts.res = "same" /\ ~c.same_units THEN "skip"          \* the source resolution in other units is a user error, not constrained
  ELSE IF o.w > 200000 \/ o.h > 200000 THEN "skip"
  ELSE IF Identity(c) THEN (IF o.is_source THEN "ok" ELSE "own_crs_with_default_options_did_not_return_the_source_unchanged")
  ELSE IF ShortCircuit(c) /\ o.is_source THEN "ok"
  ELSE IF ~o.axis_aligned THEN "result_not_axis_aligned"
  ELSE IF ~o.crs_ok THEN "result_not_in_the_requested_crs"
  ELSE IF Mode(c) = "shape" THEN
       (IF c.opts.shape = "pair" /\ <<o.h, o.w>> # <<c.shape[1], c.shape[2]>> THEN "shape_not_as_requested"
        ELSE IF c.opts.shape = "int" /\ c.opts.tight /\ Max2(o.h, o.w) # c.shape[1] THEN "longest_side_not_as_requested"
        ELSE IF \E i \in DOMAIN e.pos : ~(-1024 <= e.pos[i][1] /\ e.pos[i][1] <= (o.w + 1) * 1024 /\ -1024 <= e.pos[i][2] /\ e.pos[i][2] <= (o.h + 1) * 1024) THEN "displaced_from_the_projected_footprint_by_a_pixel_or_more"
        ELSE "ok")
  ELSE IF \E i \in DOMAIN e.pos : ~(-tol <= e.pos[i][1] /\ e.pos[i][1] <= o.w * 1024 + tol /\ -tol <= e.pos[i][2] /\ e.pos[i][2] <= o.h * 1024 + tol) THEN "source_pixel_outside_the_output_grid"
  ELSE IF Snapped(c) /\ ~(NearFrac(o.edge[1], AnchorFrac(c)[1]) /\ NearFrac(o.edge[2], AnchorFrac(c)[2])) THEN "pixel_edges_not_aligned_as_requested"
  ELSE IF c.opts.tight /\ ~o.tight_floats THEN "tight_grid_is_not_the_floating_grid_pinned_to_the_footprint"
  ELSE IF Mode(c) = "source_resolution" /\ ~(Abs(o.res_ratio[1] - 1000000) <= 1 /\ Abs(o.res_ratio[2] - 1000000) <= 1) THEN "resolution_is_not_the_source_resolution"
  ELSE IF Mode(c) = "fit" /\ ~o.square THEN "fitted_pixels_not_square"
  ELSE IF Mode(c) = "explicit" /\ ~o.explicit_res_ok THEN "explicit_resolution_not_honoured"
  ELSE "ok"
\* utm / utm-n / utm-s : e.utm = [is_utm, overlaps (area of use overlaps the raster's lon/lat box), north]
UtmV(e) == IF e.c.target \notin {"utm", "utm-n", "utm-s"} THEN "ok"
           ELSE IF ~e.utm.is_utm THEN "utm_request_did_not_resolve_to_a_utm_crs"
           ELSE IF ~e.utm.overlaps THEN "utm_zone_does_not_overlap_the_raster"
           ELSE IF e.c.target = "utm-n" /\ ~e.utm.north THEN "utm-n_resolved_to_a_southern_zone"
           ELSE IF e.c.target = "utm-s" /\ e.utm.north THEN "utm-s_resolved_to_a_northern_zone"
           ELSE "ok"
=============================================================================
