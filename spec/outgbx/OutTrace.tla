--------------------------------- MODULE OutTrace ---------------------------------
EXTENDS OutputGeobox, TraceIO
Verdict(e) == IF e.outcome # "ok" THEN "reject:raised_" \o e.outcome
              ELSE LET u == UtmV(e) IN IF u # "ok" THEN "reject:" \o u
              ELSE IF e.c.source = "point" THEN "ok"          \* CRS.utm asked directly: only the UTM clauses apply
              ELSE LET v == OutV(e) IN IF v = "ok" THEN "ok" ELSE IF v = "skip" THEN "skip" ELSE "reject:" \o v
VARIABLE l
TInit == l = 1
TNext == l <= NEvents /\ PrintT(<<"V", l, Verdict(Events[l])>>) /\ l' = l + 1
TSpec == TInit /\ [][TNext]_l
=============================================================================
