--------------------------------- MODULE OutGen ---------------------------------
EXTENDS OutputGeobox, CaseIO
Sources == {"eu_3857_tile", "eu_32633_tile", "eu_4326_tile", "eu_3857_rot", "eu_4326_continental", "eu_3035_continental", "au_3577_tile", "au_4326_tile", "equator_4326",
            \* other pixel orientations: rotated by 180 degrees (x res < 0, y res > 0), south-up, mirrored, off-lattice origin
            "eu_32633_rot180", "eu_4326_rot180", "eu_3857_southup", "eu_3857_mirrored", "eu_32633_offlattice",
            \* non-square pixels (degree- and metre-based)
            "au_4326_nonsquare", "eu_32633_nonsquare",
            \* fine pixels whose outer edge lies a small fraction (0.5 %) of a COARSE output pixel past a coarse grid line
            "eu_32633_nearline", "eu_4326_nearline",
            \* rasters registered by (exactly affine) ground control points and then rescaled by 2: the source resolution is what the pixel-to-world mapping says
            "gcp_eu_32633_zoomed", "gcp_eu_4326_zoomed"}
\* 4283 (GDA94) and 4258 (ETRS89): geographic CRSs other than 4326 - same units as a degree-based source without being the same CRS
Targets == {"4326", "3857", "3035", "6933", "32633", "3577", "utm", "utm-n", "utm-s", "4283", "4258"}
OptSet == UNION { {[res |-> r, shape |-> "none", anchor |-> a, tight |-> t, tol |-> tl] : r \in {"auto", "fit", "explicit"}, a \in {"default", "edge", "center", "xy"}, t \in BOOLEAN, tl \in {<<1, 100>>, <<1, 10>>}},
                  {[res |-> "same", shape |-> "none", anchor |-> a, tight |-> t, tol |-> <<1, 100>>] : a \in {"default", "edge"}, t \in BOOLEAN},
                  {[res |-> "auto", shape |-> s, anchor |-> a, tight |-> t, tol |-> <<1, 100>>] : s \in {"pair", "int"}, a \in {"default", "center"}, t \in BOOLEAN},
                  \* a shape AND a numeric resolution in one request: the shape decides
                  {[res |-> "explicit", shape |-> s, anchor |-> "default", tight |-> t, tol |-> <<1, 100>>] : s \in {"pair", "int"}, t \in BOOLEAN},
                  \* output pixels hundreds of source pixels wide, with tolerances stricter than / equal to the default: the stated tolerance is owed
                  {[res |-> "coarse", shape |-> "none", anchor |-> a, tight |-> FALSE, tol |-> tl] : a \in {"default", "center"}, tl \in {<<1, 1000000>>, <<1, 1000>>, <<1, 100>>}} }
Valid(s, t) == \/ t \in {"4326", "3857", "6933", "utm", "utm-n", "utm-s"}
               \/ (t \in {"3035", "32633"} /\ s \notin {"au_3577_tile", "au_4326_tile", "au_4326_nonsquare", "equator_4326"})
               \/ (t \in {"3577", "4283"} /\ s \in {"au_3577_tile", "au_4326_tile", "au_4326_nonsquare"})
               \/ (t = "4258" /\ s \notin {"au_3577_tile", "au_4326_tile", "au_4326_nonsquare", "equator_4326"})
Cases(s) == {[source |-> s, target |-> t, opts |-> o, shape |-> <<40, 50>>] : t \in {x \in Targets : Valid(s, x)}, o \in OptSet}
\* CRS.utm(...) asked directly for a place given as two numbers, an XY, a lon/lat bounding box, a geometry with or without a CRS tag
UtmPoints == {[source |-> "point", target |-> "utm", lon10 |-> x, lat10 |-> y, form |-> f, opts |-> [res |-> "auto", shape |-> "none", anchor |-> "default", tight |-> FALSE, tol |-> <<1, 100>>], shape |-> <<1, 1>>] :
                x \in {-1770, -1230, -30, 5, 105, 440, 1470, 1790}, y \in {-600, -10, 5, 450, 580}, f \in {"floats", "xy", "bbox", "geom", "geom_no_crs", "geom_3857"}}
VARIABLE c
Init == c \in {[k |-> "utm-points"]} \cup {[k |-> s] : s \in Sources}
Next == "k" \in DOMAIN c /\ c' \in (IF c.k = "utm-points" THEN UtmPoints ELSE Cases(c.k)) /\ Emit(c')
Spec == Init /\ [][Next]_c
\* design-level: the decision table is consistent for every option set and CRS relation
ModelOK == "opts" \in DOMAIN c => \A sc \in BOOLEAN, su \in BOOLEAN : (sc => su) => TableOK([source |-> c.source, opts |-> c.opts, same_crs |-> sc, same_units |-> su])
=============================================================================
