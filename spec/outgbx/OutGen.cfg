SPECIFICATION Spec
INVARIANT ModelOK
