-------------------------------- MODULE CrsMixTrace --------------------------------
EXTENDS CrsAlgebra, TraceIO
Verdict(e) == LET v == CallV(e) IN IF v = "ok" THEN "ok" ELSE IF v = "skip" THEN "skip" ELSE "reject:" \o v
VARIABLE l
Init == l = 1
Next == l <= NEvents /\ PrintT(<<"V", l, Verdict(Events[l])>>) /\ l' = l + 1
Spec == Init /\ [][Next]_l
=============================================================================
