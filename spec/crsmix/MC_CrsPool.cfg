SPECIFICATION Spec
CONSTANT MaxGen = 2
CONSTANT Checked = TRUE
INVARIANT NoMixedLineage
