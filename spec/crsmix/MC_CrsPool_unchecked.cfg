SPECIFICATION Spec
CONSTANT MaxGen = 2
CONSTANT Checked = FALSE
INVARIANT NoMixedLineage
