-------------------------------- MODULE CrsAlgebra --------------------------------
(* C01 - operations never silently mix coordinate reference systems
   (odc/geo/geom.py wrap_shapely and the explicit checks, bbox_union/intersection, odc/geo/geobox.py pixel_translation).

   A CRS tag is <<class, spelling>>; class "none" is the absent CRS.  Tags: none, geographic (EPSG code), the same
   geographic CRS spelled as WKT, projected (EPSG code), the same projected CRS spelled as WKT.
   State machine: a pool of values [class, lineage] where lineage is the set of CRS classes whose coordinates went
   into the value.  Apply(op, operands): a CRS-mismatch error when the operands' classes differ (none counts as a class
   of its own), otherwise a new value of that class joins the pool, so results feed further operations.
   Invariant NoMixedLineage: no value is ever computed from coordinates of two different systems.              *)
EXTENDS Integers, Sequences, FiniteSets, TLC

\* L1, L2: two different custom projections that have no EPSG code (the code's lazy EPSG lookup answers "none" for both)
Tags == {<<"none", "">>, <<"G", "epsg">>, <<"G", "wkt">>, <<"P", "epsg">>, <<"P", "wkt">>, <<"L1", "proj">>, <<"L2", "proj">>}
\* different authorities that happen to use the same numeric code name different systems:
\* A1 = EPSG:4812, A2 = ESRI:4812 (code 4812 twice), A3 = IAU_2015:30165, A4 = EPSG:30165 (code 30165 twice)
AuthTags == {<<"A1", "auth">>, <<"A2", "auth">>, <<"A3", "auth">>, <<"A4", "auth">>}
\* lazy state of a CRS object: its EPSG code is looked up on first use and remembered ("unset" -> "code" | "none").
\* Equality of classes must not depend on it: a case is run with fresh objects (warm = FALSE) and after the lookup happened
\* on every operand (warm = TRUE, as xr_coords / assign_crs do implicitly); the expected verdict is the same.
LazyEpsg(t, warm) == IF ~warm THEN "unset" ELSE IF t[2] \in {"epsg", "wkt"} THEN "code" ELSE "none"
Class(t) == t[1]
Mismatch(ts) == \E i, j \in DOMAIN ts : Class(ts[i]) # Class(ts[j])

\* classification table: operation name -> [fam, arity ("2" | "n"), result ("bool" | "geom" | "geoms" | "bbox" | "geobox" | "roi" | "crs")]
OpTable == [
  contains |-> "geom/2/bool", covers |-> "geom/2/bool", crosses |-> "geom/2/bool", disjoint |-> "geom/2/bool", intersects |-> "geom/2/bool",
  touches |-> "geom/2/bool", within |-> "geom/2/bool", overlaps |-> "geom/2/bool", fn_intersects |-> "geom/2/bool",
  difference |-> "geom/2/geom", intersection |-> "geom/2/geom", symmetric_difference |-> "geom/2/geom", union |-> "geom/2/geom",
  op_and |-> "geom/2/geom", op_or |-> "geom/2/geom", op_xor |-> "geom/2/geom", op_sub |-> "geom/2/geom",
  split |-> "geom/2/geoms",
  multigeom |-> "geom/n/geom", unary_union |-> "geom/n/geom", unary_intersection |-> "geom/n/geom", common_crs |-> "geom/n/crs",
  bbox_union |-> "bbox/n/bbox", bbox_intersection |-> "bbox/n/bbox", bbox_or |-> "bbox/2/bbox", bbox_and |-> "bbox/2/bbox",
  geobox_or |-> "geobox/2/geobox", geobox_and |-> "geobox/2/geobox", overlap_roi |-> "geobox/2/roi", snap_to |-> "geobox/2/geobox",
  geobox_union_conservative |-> "geobox/n/geobox", geobox_intersection_conservative |-> "geobox/n/geobox" ]
OpNames == DOMAIN OpTable

(* ---- verdict on one observed call ---- *)
\* e.tags: operand tags; e.odc: [oc, crs_ok (result tagged with the operands' CRS), same (equals what shapely returns)]; e.shp: shapely outcome on raw shapes
CallV(e) ==
  IF Mismatch(e.tags) THEN
       (IF e.shp # "ok" THEN "skip"
        ELSE IF e.odc.oc = "ok" THEN "operands_in_different_crs_but_a_result_was_returned"
        ELSE IF ~e.odc.is_value_error THEN "crs_mismatch_raised_as_" \o e.odc.oc
        ELSE "ok")
  ELSE IF e.odc.oc # e.shp THEN "equal_crs_but_outcome_differs_from_shapely_" \o e.odc.oc
  ELSE IF e.odc.oc = "ok" /\ ~e.odc.same THEN "result_differs_from_what_shapely_returns"
  ELSE IF e.odc.oc = "ok" /\ ~e.odc.crs_ok THEN "result_not_tagged_with_the_operands_crs"
  ELSE "ok"
=============================================================================
