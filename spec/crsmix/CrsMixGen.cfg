SPECIFICATION GSpec
CONSTANT Tier = "quick"
