SPECIFICATION GSpec
CONSTANT Tier = "thorough"
