-------------------------------- MODULE CrsPool --------------------------------
(* C01 - the pool state machine: results of combining operations feed further operations (chains).
   Checked = TRUE is the code (every combining operation compares the operands' CRS classes first);
   Checked = FALSE is a hypothetical operation that forgets the check: TLC then produces a value of mixed lineage. *)
EXTENDS CrsAlgebra
CONSTANTS MaxGen, Checked
VARIABLES pool, err
vars == <<pool, err>>
Init == pool = {[class |-> Class(t), lineage |-> {Class(t)}, gen |-> 0] : t \in Tags} /\ err = FALSE
Apply(x, y) == IF Checked /\ x.class # y.class THEN err' = TRUE /\ UNCHANGED pool
               ELSE pool' = pool \cup {[class |-> x.class, lineage |-> x.lineage \cup y.lineage, gen |-> (IF x.gen > y.gen THEN x.gen ELSE y.gen) + 1]} /\ err' = FALSE
Next == \E x, y \in pool : x.gen < MaxGen /\ y.gen < MaxGen /\ Apply(x, y)
Spec == Init /\ [][Next]_vars
NoMixedLineage == \A v \in pool : v.lineage = {v.class}
=============================================================================
