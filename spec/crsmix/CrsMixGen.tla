-------------------------------- MODULE CrsMixGen --------------------------------
EXTENDS CrsAlgebra, CaseIO, Json, IOUtils
CONSTANTS Tier
\* operations found in the code by introspection (harness): names known to OpTable are classified, unknown ones get the generic rule
Found == JsonDeserialize(IOEnv.OPS_FILE).ops
Kinds == {"point", "line", "ring", "polygon", "polyhole", "multipoint", "multiline", "multipolygon", "collection"}
TagSeq == <<<<"none", "">>, <<"G", "epsg">>, <<"G", "wkt">>, <<"P", "epsg">>, <<"P", "wkt">>>>
\* quick: every ordered tag pair x every kind pair, operation picked round-robin; thorough: the full product
GeomOps2 == {o \in OpNames : OpTable[o] \in {"geom/2/bool", "geom/2/geom", "geom/2/geoms"}}
Cases2(op) == {[form |-> "call", op |-> op, tags |-> <<t1, t2>>, kinds |-> <<k1, k2>>] : t1 \in Tags, t2 \in Tags, k1 \in Kinds, k2 \in IF Tier = "quick" THEN {"point", "line", "polygon", "multipolygon", "collection"} ELSE Kinds}
CasesN(op) == {[form |-> "call", op |-> op, tags |-> <<t1, t2, t3>>, kinds |-> <<k, k, k2>>, sg |-> g] : g \in BOOLEAN, t1 \in Tags, t2 \in Tags, t3 \in {<<"G", "epsg">>, <<"P", "wkt">>, <<"none", "">>},
                 k \in IF OpTable[op] = "geom/n/geom" \/ OpTable[op] = "geom/n/crs" THEN Kinds ELSE {"box"}, k2 \in IF OpTable[op] \in {"geom/n/geom", "geom/n/crs"} THEN {"polygon", "point"} ELSE {"box"}}
\* sg: the operands have numerically identical extents / grids (only the CRS tag tells them apart), or shifted ones
CasesB(op) == {[form |-> "call", op |-> op, tags |-> <<t1, t2>>, kinds |-> <<"box", "box">>, sg |-> g] : t1 \in Tags, t2 \in Tags, g \in BOOLEAN}
\* chains: the result of a set operation on equal classes is combined with a third operand
Chains == UNION {{[form |-> "chain", op |-> o1, op2 |-> o2, tags |-> <<t1, t2, t3>>, kinds |-> <<"polygon", k2, "polygon">>] :
             o1 \in {"intersection", "union", "op_and", "difference", "multigeom", "unary_union"}, o2 \in {"intersects", "union", "op_sub", "contains"},
             t2 \in {t \in Tags : Class(t) = Class(t1)}, t3 \in Tags, k2 \in {"polygon", "multipolygon"}} : t1 \in Tags}
\* a collection operation given ONE operand still does what shapely does with it (dissolve, node, wrap)
Cases1(op) == {[form |-> "call", op |-> op, tags |-> <<t1>>, kinds |-> <<k>>, sg |-> FALSE] : t1 \in Tags,
                 k \in IF OpTable[op] \in {"geom/n/geom", "geom/n/crs"} THEN Kinds \cup {"multipolygon_overlap", "multiline_cross"} ELSE {"box"}}
\* same numeric code under two authorities, in both construction orders, and each with itself
CasesAuth(op) == LET f == OpTable[op]
                     k == IF f \in {"geom/2/bool", "geom/2/geom", "geom/2/geoms", "geom/n/geom", "geom/n/crs"} THEN "polygon" ELSE "box" IN
                 IF f \in {"geom/n/geom", "geom/n/crs", "bbox/n/bbox", "geobox/n/geobox"}
                 THEN {[form |-> "call", op |-> op, tags |-> ts, kinds |-> <<k, k, k>>, sg |-> g] : g \in BOOLEAN,
                        ts \in UNION {{<<t1, t1, t2>>, <<t1, t2, t2>>} : t1 \in AuthTags, t2 \in AuthTags}}
                 ELSE {[form |-> "call", op |-> op, tags |-> <<t1, t2>>, kinds |-> <<k, k>>, sg |-> g] : g \in BOOLEAN, t1 \in AuthTags, t2 \in AuthTags}
CasesFor(op) == IF op = "chains" THEN Chains
                ELSE IF op \notin OpNames THEN {[form |-> "call", op |-> op, tags |-> <<t1, t2>>, kinds |-> <<"polygon", "polygon">>] : t1 \in Tags, t2 \in Tags}   \* UNMODELLED-OP: generic rule
                ELSE IF OpTable[op] \in {"geom/2/bool", "geom/2/geom", "geom/2/geoms"} THEN Cases2(op) \cup CasesAuth(op)
                ELSE IF OpTable[op] \in {"geom/n/geom", "geom/n/crs", "bbox/n/bbox", "geobox/n/geobox"} THEN CasesN(op) \cup Cases1(op) \cup CasesAuth(op)
                ELSE CasesB(op) \cup CasesAuth(op)
VARIABLE c
GInit == c \in {[k |-> Found[i]] : i \in DOMAIN Found} \cup {[k |-> "chains"]}
GNext == "k" \in DOMAIN c /\ \E x \in CasesFor(c.k), w \in BOOLEAN : c' = [f \in DOMAIN x \cup {"warm"} |-> IF f = "warm" THEN w ELSE x[f]] /\ Emit(c')
GSpec == GInit /\ [][GNext]_c
=============================================================================
