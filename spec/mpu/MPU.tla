--------------------------------- MODULE MPU ---------------------------------
(* C06 - the protocol state machine over the pure step functions of MPUOps (see there for the
   modelling conventions): appends in stream order, then ANY adjacent merges, then finalise.  *)
EXTENDS MPUOps

(* ------------------------------ the state machine ---------------------------- *)
VARIABLES cfg, st, todo, phase, hist
vars == <<cfg, st, todo, phase, hist>>

DoAppend ==
  /\ phase = "append" /\ st.fail = OK
  /\ st' = StepAppend(cfg, st, todo)
  /\ todo' = todo + 1
  /\ phase' = IF todo = NParts(cfg) THEN "merge" ELSE "append"
  /\ hist' = Append(hist, <<"A", todo>>)
  /\ UNCHANGED cfg

\* any adjacent pair may merge at any time after the appends: a superset of every dask
\* fold / collate shape and of every execution order
DoMerge(i) ==
  /\ phase = "merge" /\ st.fail = OK /\ Len(st.roots) > 1 /\ i \in 1..(Len(st.roots) - 1)
  /\ st' = StepMerge(cfg, st, i)
  /\ hist' = Append(hist, <<"M", i>>)
  /\ UNCHANGED <<cfg, todo, phase>>

DoFinalise ==
  /\ phase = "merge" /\ st.fail = OK /\ Len(st.roots) = 1
  /\ st' = StepFinalise(cfg, st)
  /\ phase' = "done"
  /\ hist' = Append(hist, <<"F", 0>>)
  /\ UNCHANGED <<cfg, todo>>

(* ------------------------------- properties --------------------------------- *)
WSet(s) == {s.writes[i] : i \in DOMAIN s.writes}
NoFail == st.fail = OK
IdsUnique == \A i, j \in DOMAIN st.writes : i # j => st.writes[i].id # st.writes[j].id
IdsInRange == \A i \in DOMAIN st.writes : cfg.minPart <= st.writes[i].id /\ st.writes[i].id <= cfg.maxPart
Done == phase = "done" /\ st.fail = OK
\* parts sorted by id concatenate to exactly [0, Total): ids increase along the stream, no gap, no overlap
Assembled == Done =>
   /\ \A a, b \in WSet(st) : a.id < b.id => a.hi <= b.lo
   /\ SumSeq([i \in DOMAIN st.writes |-> st.writes[i].hi - st.writes[i].lo]) = Total(cfg)
   /\ \A a \in WSet(st) : 0 <= a.lo /\ a.lo <= a.hi /\ a.hi <= Total(cfg)
MinSize == Done => \A a \in WSet(st) : (\E b \in WSet(st) : b.id > a.id) => (a.hi - a.lo) >= cfg.m
FinOK == Done =>
   /\ {st.fin[i] : i \in DOMAIN st.fin} = WSet(st) /\ Len(st.fin) = Len(st.writes)
   /\ \A i \in 1..(Len(st.fin) - 1) : st.fin[i].id < st.fin[i + 1].id
ObsOK == Done => st.hobs = <<[i \in 1..NChunks(cfg) |-> i]>>
\* structural facts the code relies on silently
Struct == \A i \in DOMAIN st.roots : LET c == st.roots[i] IN
   /\ (~Started(c) => Len2(c.l) = 0)
   /\ c.cr >= 0
   /\ Contig(c.l, c.d) \/ Started(c)
FailIsModelArtefact == st.fail \notin {"model:non_contiguous"}
=============================================================================
