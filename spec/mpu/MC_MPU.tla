------------------------------- MODULE MC_MPU -------------------------------
(* C06 - bounded instance of MPU: the configuration space is chosen by Init, TLC explores every
   interleaving of appends / adjacent merges / finalise, checks the property invariants in every
   state and emits one complete behaviour (cfg + action history) per distinct terminal state.   *)
EXTENDS MPU, CaseIO

CONSTANTS ShapeSet,   \* name of the set of partition shapes
          Sizes, Spills, WPCs, Hdrs, Ftrs, MinParts, M

Shapes == CASE ShapeSet = "small" -> {<<1>>, <<2>>, <<1, 1>>, <<1, 2>>, <<2, 1>>, <<1, 1, 1>>}
            [] ShapeSet = "medium" -> {<<1>>, <<2>>, <<3>>, <<1, 1>>, <<1, 2>>, <<2, 1>>, <<2, 2>>, <<1, 1, 1>>, <<1, 1, 2>>, <<2, 1, 1>>, <<1, 2, 1>>}
            \* a partition of three chunks between neighbours, three write credits each (MC_MPU_three.cfg): a middle partition that spills twice and still
            \* holds data when it is merged
            [] ShapeSet = "three" -> {<<1, 3, 1>>, <<1, 3, 2>>, <<2, 3, 1>>, <<3, 1>>, <<1, 3>>, <<1, 2, 1>>}
            \* several partitions smaller than the minimum part size in front of one that writes (MC_MPU_tiny.cfg): left data handed leftwards more than once
            \* ... and partitions without any chunk (leading, trailing, adjacent, all of them)
            [] ShapeSet = "tiny" -> {<<1, 1, 2>>, <<1, 1, 1>>, <<1, 1, 1, 1>>, <<1, 1, 1, 2>>, <<0, 0, 1>>, <<1, 0, 0, 1>>, <<0, 1, 0>>, <<2, 0>>, <<0, 0>>, <<0, 1, 0, 0, 2>>}
            [] ShapeSet = "four" -> {<<1, 1, 1, 1>>, <<1, 1, 1, 2>>, <<2, 1, 1, 1>>, <<1, 2, 1, 1>>}
            [] ShapeSet = "five" -> {<<1, 1, 1, 1, 1>>}
            \* 6 - 8 partitions: too wide for exhaustive search, explored by simulation (MC_MPU_wide.cfg)
            [] ShapeSet = "wide" -> {<<1, 1, 1, 1, 1, 1>>, <<1, 2, 1, 1, 2, 1>>, <<1, 1, 1, 1, 1, 1, 1, 1>>, <<2, 1, 1, 3, 1, 1, 1>>}
\* chunk sizes of a wide shape follow a repeating pattern (the full function space would be 3^10 initial states per shape)
Patterns == {<<1, 3, 7>>, <<7, 1>>, <<3>>, <<1, 1, 10>>, <<0, 3, 1, 7>>, <<10, 0>>}
SizeFns(n) == IF ShapeSet = "wide" THEN {[i \in 1..n |-> q[((i + o) % Len(q)) + 1]] : q \in Patterns, o \in 0..2} ELSE [1..n -> Sizes]

Init ==
  \E shape \in Shapes, spill \in Spills, wpc \in WPCs, h \in Hdrs, f \in Ftrs, mp \in MinParts :
  \E sizes \in SizeFns(SumSeq(shape)) :
    /\ cfg = [shape |-> shape, sizes |-> sizes, spill |-> spill, wpc |-> wpc, h |-> h, f |-> f,
              minPart |-> mp, maxPart |-> mp + Len(shape) * wpc, m |-> M]
    /\ st = InitSt /\ todo = 1 /\ phase = "append" /\ hist = <<>>

Next == /\ \/ DoAppend \/ (\E i \in 1..8 : DoMerge(i)) \/ DoFinalise
        /\ (phase' = "done" \/ st'.fail # OK) => Emit([cfg |-> cfg, hist |-> hist'])
Spec == Init /\ [][Next]_vars
View == <<cfg, st, todo, phase>>
=============================================================================
