------------------------------- MODULE MC_MPU -------------------------------
(* C06 - bounded instance of MPU: the configuration space is chosen by Init, TLC explores every
   interleaving of appends / adjacent merges / finalise, checks the property invariants in every
   state and emits one complete behaviour (cfg + action history) per distinct terminal state.   *)
EXTENDS MPU, CaseIO

CONSTANTS ShapeSet,   \* name of the set of partition shapes
          Sizes, Spills, WPCs, Hdrs, Ftrs, MinParts, M

Shapes == CASE ShapeSet = "small" -> {<<1>>, <<2>>, <<1, 1>>, <<1, 2>>, <<2, 1>>, <<1, 1, 1>>}
            [] ShapeSet = "medium" -> {<<1>>, <<2>>, <<3>>, <<1, 1>>, <<1, 2>>, <<2, 1>>, <<2, 2>>, <<1, 1, 1>>, <<1, 1, 2>>, <<2, 1, 1>>, <<1, 2, 1>>}
            [] ShapeSet = "four" -> {<<1, 1, 1, 1>>, <<1, 1, 1, 2>>, <<2, 1, 1, 1>>, <<1, 2, 1, 1>>}
            [] ShapeSet = "five" -> {<<1, 1, 1, 1, 1>>}

Init ==
  \E shape \in Shapes, spill \in Spills, wpc \in WPCs, h \in Hdrs, f \in Ftrs, mp \in MinParts :
  \E sizes \in [1..SumSeq(shape) -> Sizes] :
    /\ cfg = [shape |-> shape, sizes |-> sizes, spill |-> spill, wpc |-> wpc, h |-> h, f |-> f,
              minPart |-> mp, maxPart |-> mp + Len(shape) * wpc, m |-> M]
    /\ st = InitSt /\ todo = 1 /\ phase = "append" /\ hist = <<>>

Next == /\ \/ DoAppend \/ (\E i \in 1..4 : DoMerge(i)) \/ DoFinalise
        /\ (phase' = "done" \/ st'.fail # OK) => Emit([cfg |-> cfg, hist |-> hist'])
Spec == Init /\ [][Next]_vars
View == <<cfg, st, todo, phase>>
=============================================================================
