SPECIFICATION Spec
VIEW View
CONSTANTS
  FixFinal = TRUE
  FixSpillMin = TRUE
  FixLeftId = TRUE
  FixEmptyMerge = TRUE
  ShapeSet = "tiny"
  Sizes = {1, 2, 7, 10}
  Spills = {3}
  WPCs = {2}
  Hdrs = {0, 2, 4}
  Ftrs = {0, 2}
  MinParts = {1}
  M = 3
INVARIANT NoFail
INVARIANT IdsUnique
INVARIANT IdsInRange
INVARIANT Assembled
INVARIANT MinSize
INVARIANT FinOK
INVARIANT ObsOK
INVARIANT Struct
