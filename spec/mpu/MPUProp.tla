------------------------------- MODULE MPUProp -------------------------------
(* C06 - the property, stated only over what the writer and the callbacks observe.
   An event `e` describes one complete run of the protocol:
     e.cfg      the configuration (sizes of header / chunks / footer, writer limits)
     e.writes   the PartsWriter.__call__ invocations in call order: [id, data, tok]; `data` is the
                sequence of stream positions the part's bytes carry (payload byte i has value i)
     e.fin      <<>> or <<list of [id, tok]>> : the argument of PartsWriter.finalise
     e.hobs / e.fobs   <<>> or <<list of <<size, chunk id>> >> : what mk_header / mk_footer were given
     e.outcome  "ok" or the exception class name                                                  *)
EXTENDS IntMath, Sequences, SequencesExt, FiniteSets

RECURSIVE SumS(_)
SumS(s) == IF s = <<>> THEN 0 ELSE Head(s) + SumS(Tail(s))
TotalLen(cfg) == cfg.h + SumS(cfg.sizes) + cfg.f
ById(ws) == SortSeq(ws, LAMBDA a, b : a.id < b.id)
RECURSIVE Concat(_)
Concat(ws) == IF ws = <<>> THEN <<>> ELSE Head(ws).data \o Concat(Tail(ws))
ExpectedObs(cfg) == [i \in 1..Len(cfg.sizes) |-> <<cfg.sizes[i], i>>]

PropVerdict(e) ==
  LET ws == e.writes  cfg == e.cfg  ids == {ws[i].id : i \in DOMAIN ws} IN
  IF e.outcome # "ok" THEN "write_failed_" \o e.outcome
  ELSE IF Cardinality(ids) # Len(ws) THEN "part_ids_not_unique"
  ELSE IF \E i \in ids : i < cfg.minPart \/ i > cfg.maxPart THEN "part_id_out_of_range"
  ELSE IF Concat(ById(ws)) # [i \in 1..TotalLen(cfg) |-> i - 1] THEN "stream_not_preserved_in_part_order"
  ELSE IF \E i \in DOMAIN ws : ws[i].id # SetMax(ids) /\ Len(ws[i].data) < cfg.m THEN "non_last_part_below_min_size"
  ELSE IF e.fin = <<>> THEN "finalise_not_called"
  ELSE IF e.fin[1] # [i \in DOMAIN ws |-> <<ById(ws)[i].id, ById(ws)[i].tok>>] THEN "finalise_list_is_not_the_written_parts_in_order"
  ELSE IF (cfg.h > 0) # (e.hobs # <<>>) \/ (cfg.f > 0) # (e.fobs # <<>>) THEN "callback_not_invoked_as_configured"
  ELSE IF e.hobs # <<>> /\ e.hobs[1] # ExpectedObs(cfg) THEN "header_callback_observed_list_wrong"
  ELSE IF e.fobs # <<>> /\ e.fobs[1] # ExpectedObs(cfg) THEN "footer_callback_observed_list_wrong"
  ELSE "ok"
=============================================================================
