SPECIFICATION TSpec
CONSTANTS
  FixFinal = TRUE
  FixSpillMin = TRUE
  FixLeftId = TRUE
  FixEmptyMerge = TRUE
CHECK_DEADLOCK FALSE
