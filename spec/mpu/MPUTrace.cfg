SPECIFICATION TSpec
CONSTANTS
  FixFinal = TRUE
  FixSpillMin = TRUE
  FixLeftId = TRUE
CHECK_DEADLOCK FALSE
