SPECIFICATION Spec
VIEW View
CONSTANTS
  FixFinal = TRUE
  FixSpillMin = TRUE
  FixLeftId = TRUE
  FixEmptyMerge = TRUE
  ShapeSet = "five"
  Sizes = {1, 3, 7}
  Spills = {0, 3, 6}
  WPCs = {1, 2}
  Hdrs = {0, 4}
  Ftrs = {0, 2}
  MinParts = {1}
  M = 3
INVARIANT NoFail
INVARIANT IdsUnique
INVARIANT IdsInRange
INVARIANT Assembled
INVARIANT MinSize
INVARIANT FinOK
INVARIANT ObsOK
INVARIANT Struct
