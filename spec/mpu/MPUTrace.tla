------------------------------- MODULE MPUTrace -------------------------------
(* C06 - validation of runs recorded from the real odc.geo.cog._mpu code.
   kind "replay": a TLC behaviour (cfg + action history) replayed on real MPUChunk objects through the
                  module's own dask ops; per-step projected states are logged.
   kind "dask":   mpu_write(...).compute() on hand-built bags under a TLC-chosen task order.
   Verdict: the property (MPUProp) on the observed writer calls -> reject; then, for replays, the
   per-step state and the writer calls predicted by MPU along the same history -> drift.          *)
EXTENDS MPUOps, MPUProp, TraceIO

Apply(c, s, a) == CASE a[1] = "A" -> StepAppend(c, s, a[2])
                    [] a[1] = "M" -> StepMerge(c, s, a[2])
                    [] a[1] = "F" -> StepFinalise(c, s)
RECURSIVE Run(_, _, _, _)
Run(c, s, h, acc) == IF h = <<>> \/ s.fail # OK THEN acc
                     ELSE LET s2 == Apply(c, s, Head(h)) IN Run(c, s2, Tail(h), Append(acc, s2))
Proj(ch) == <<ch.pid, ch.cr, Len2(ch.d), Len2(ch.l), Len(ch.parts), Len(ch.obs), ch.final>>
ProjSt(s) == [i \in DOMAIN s.roots |-> Proj(s.roots[i])]
\* writer calls as <<id, lo, hi>> ; observed parts are contiguous position runs
ObsPart(w) == IF w.data = <<>> THEN <<w.id, -1, -1>> ELSE <<w.id, w.data[1], w.data[Len(w.data)] + 1>>
ModPart(p) == IF p.lo = p.hi THEN <<p.id, -1, -1>> ELSE <<p.id, p.lo, p.hi>>

Conformance(e) ==
  LET sts == Run(e.cfg, InitSt, e.hist, <<>>)
      last == sts[Len(sts)]
      nOk == Len(sts) - 1      \* steps logged: all completed steps except the finalise step
  IN IF (e.outcome = "ok") # (last.fail = OK) THEN "outcome_differs_model_" \o last.fail
     ELSE IF Len(e.steps) # nOk THEN "number_of_completed_steps_differs"
     ELSE IF \E k \in 1..nOk : ProjSt(sts[k]) # e.steps[k] THEN "state_after_step_differs"
     ELSE IF e.outcome = "ok" /\ [i \in DOMAIN e.writes |-> ObsPart(e.writes[i])] # [i \in DOMAIN last.writes |-> ModPart(last.writes[i])] THEN "writer_calls_differ"
     ELSE "ok"

Verdict(e) ==
  LET p == PropVerdict(e) IN
  IF p # "ok" THEN "reject:" \o p
  ELSE IF e.kind = "replay" THEN (LET c == Conformance(e) IN IF c # "ok" THEN "drift:" \o c ELSE "ok")
  ELSE "ok"

VARIABLE l
TInit == l = 1
TNext == l <= NEvents /\ PrintT(<<"V", l, Verdict(Events[l])>>) /\ l' = l + 1
TSpec == TInit /\ [][TNext]_l
=============================================================================
