------------------------------- MODULE MPUOps -------------------------------
(* C06 - implementation-shaped model of odc/geo/cog/_mpu.py (multi-part upload as a graph).

   The byte stream is abstract: positions 0..Total; the header occupies [0, h), data chunk k
   occupies [Off(k), Off(k+1)), the footer the last f positions.  Every `data`, `left_data`
   and written part of the real protocol is a contiguous run of the stream, so an MPUChunk is
     [pid     next part id            cr   write credits
      d       <<lo, hi>> .data        l    <<lo, hi>> .left_data
      parts   sequence of [id, lo, hi] (what .parts holds, in list order)
      obs     sequence of chunk indices (.observed)
      final   .is_final               keep .lhs_keep ]
   Pure step functions (one per dask op of the code) map a protocol state
     [roots, writes, fin, hobs, fail]
   to the next one; the actions at the bottom wrap them.  Failures (assertions /
   RuntimeError in the code) are recorded in `fail`, never modelled as disabled actions.

   Boolean constants select the code as found at the pinned commit (FALSE) or as repaired by
   the three `fix:` commits (TRUE); the as-found configurations must produce counterexamples. *)
EXTENDS IntMath, Sequences, FiniteSets, TLC

CONSTANTS FixFinal,     \* final flag honoured only after the last chunk of a partition was appended
          FixSpillMin,  \* opportunistic spill never writes less than the writer's minimum
          FixLeftId,    \* header / left part uses the writer's min_part instead of the literal 1
          FixEmptyMerge \* merging two chunks that have observed nothing (partitions without any chunk) is allowed: the constructor only insists on
                        \* an observed list when it is handed NON-EMPTY data (as found it insisted for any data object: AssertionError)

OK == "ok"
Len2(r) == r[2] - r[1]
Empty(p) == <<p, p>>
Started(c) == Len(c.parts) > 0
Cat(a, b) == IF Len2(b) = 0 THEN a ELSE IF Len2(a) = 0 THEN b ELSE <<a[1], b[2]>>
Contig(a, b) == Len2(a) = 0 \/ Len2(b) = 0 \/ a[2] = b[1]
RECURSIVE SumSeq(_)
SumSeq(s) == IF s = <<>> THEN 0 ELSE Head(s) + SumSeq(Tail(s))

(* ------------------------------ configuration ------------------------------ *)
\* cfg = [shape, sizes, spill, wpc, h, f, minPart, maxPart, m]
NParts(cfg)  == Len(cfg.shape)
NChunks(cfg) == SumSeq(cfg.shape)
Total(cfg)   == cfg.h + SumSeq(cfg.sizes) + cfg.f
ChunkIdx(cfg, p, k) == SumSeq(SubSeq(cfg.shape, 1, p - 1)) + k           \* k-th chunk of partition p
Off(cfg, i) == cfg.h + SumSeq(SubSeq(cfg.sizes, 1, i - 1))               \* start of chunk i
LeftId(cfg) == IF FixLeftId THEN cfg.minPart ELSE 1

NewChunk(pid, cr, pos, final, keep) ==
  [pid |-> pid, cr |-> cr, d |-> Empty(pos), l |-> Empty(pos), parts |-> <<>>, obs |-> <<>>,
   final |-> final, keep |-> keep]

\* results of chunk operations: [c: chunk, w: writer calls made, f: failure]
Res(c, w, f) == [c |-> c, w |-> w, f |-> f]
Part(id, lo, hi) == [id |-> id, lo |-> lo, hi |-> hi]

(* ------------------------------ MPUChunk methods ----------------------------- *)
\* maybe_write(write, spill_sz)
MaybeWrite(cfg, c) ==
  LET rhsKeep == IF c.final THEN 0 ELSE cfg.m
      ptk     == IF c.final THEN 0 ELSE 1
      lhsKeep == IF Started(c) THEN 0 ELSE c.keep
      btw     == Len2(c.d) - rhsKeep - lhsKeep
      thr     == IF FixSpillMin THEN Max2(cfg.spill, cfg.m) ELSE cfg.spill
      lo      == c.d[1]
  IN IF c.cr - 1 < ptk \/ btw < thr THEN Res(c, <<>>, OK)
     ELSE IF lhsKeep = 0
       THEN LET p == Part(c.pid, lo, lo + btw) IN
            Res([c EXCEPT !.d = <<lo + btw, c.d[2]>>, !.parts = Append(@, p), !.pid = @ + 1, !.cr = @ - 1], <<p>>, OK)
       ELSE IF Len2(c.l) # 0 THEN Res(c, <<>>, "assert:maybe_write.left_data")
       ELSE LET p == Part(c.pid, lo + lhsKeep, lo + lhsKeep + btw) IN
            Res([c EXCEPT !.l = <<lo, lo + lhsKeep>>, !.d = <<lo + lhsKeep + btw, c.d[2]>>,
                          !.parts = Append(@, p), !.pid = @ + 1, !.cr = @ - 1], <<p>>, OK)

\* can_flush(pw) inside flush_rhs, `data` = self.data + extra
CanFlush(cfg, c, data) ==
  /\ c.cr >= 1
  /\ IF Started(c) THEN c.final \/ Len2(data) >= cfg.m
     ELSE IF c.final THEN Len2(data) > c.keep
     ELSE Len2(data) - c.keep >= cfg.m

\* _flush_data(pw)
FlushData(cfg, c, data) ==
  IF ~(cfg.minPart <= c.pid /\ c.pid <= cfg.maxPart) THEN Res(c, <<>>, "assert:part_range")
  ELSE LET cut == ~Started(c) /\ c.keep > 0
           wlo == IF cut THEN data[1] + c.keep ELSE data[1]
           p   == Part(c.pid, wlo, data[2])
       IN Res([c EXCEPT !.l = IF cut THEN <<data[1], data[1] + c.keep>> ELSE @,
                        !.parts = Append(@, p), !.d = Empty(data[2]), !.pid = @ + 1, !.cr = @ - 1], <<p>>, OK)

\* flush_rhs(write, extra_data); hasW = a writer was supplied
FlushRhs(cfg, c, hasW, extra) ==
  LET data == Cat(c.d, extra) IN
  IF ~Contig(c.d, extra) THEN Res(c, <<>>, "model:non_contiguous")
  ELSE IF Started(c) THEN
      IF ~hasW THEN Res(c, <<>>, "RuntimeError:no_writer")
      ELSE IF ~CanFlush(cfg, c, data) THEN Res(c, <<>>, "assert:can_flush")
      ELSE FlushData(cfg, c, data)
  ELSE IF hasW /\ CanFlush(cfg, c, data) THEN FlushData(cfg, c, data)
  ELSE IF ~Contig(c.l, data) THEN Res(c, <<>>, "model:non_contiguous")
  ELSE Res([c EXCEPT !.l = Cat(@, data), !.d = Empty(data[2])], <<>>, OK)

\* MPUChunk.merge(lhs, rhs, write)
Merge(cfg, lhs, rhs, hasW) ==
  IF ~Started(rhs) THEN
     IF Len2(rhs.l) # 0 THEN Res(lhs, <<>>, "assert:merge.rhs_left")
     ELSE IF ~Contig(lhs.d, rhs.d) THEN Res(lhs, <<>>, "model:non_contiguous")
     ELSE IF ~FixEmptyMerge /\ lhs.obs \o rhs.obs = <<>> THEN Res(lhs, <<>>, "assert:ctor.data_without_observed")
     ELSE Res([pid |-> lhs.pid, cr |-> lhs.cr + rhs.cr, d |-> Cat(lhs.d, rhs.d), l |-> lhs.l,
               parts |-> lhs.parts, obs |-> lhs.obs \o rhs.obs, final |-> rhs.final, keep |-> lhs.keep], <<>>, OK)
  ELSE LET r == FlushRhs(cfg, lhs, hasW, rhs.l) IN
       IF r.f # OK THEN r
       ELSE Res([pid |-> rhs.pid, cr |-> rhs.cr, d |-> rhs.d, l |-> r.c.l,
                 parts |-> r.c.parts \o rhs.parts, obs |-> lhs.obs \o rhs.obs, final |-> rhs.final,
                 keep |-> lhs.keep], r.w, OK)

\* flush(write, leftPartId, finalise=True)
Flush(cfg, c, leftId) ==
  IF ~Started(c) THEN
     IF Len2(c.l) # 0 THEN Res(c, <<>>, "assert:flush.left")
     ELSE LET p == Part(leftId, c.d[1], c.d[2]) IN
          Res([c EXCEPT !.parts = <<p>>, !.d = Empty(c.d[2])], <<p>>, OK)
  ELSE LET r1 == IF Len2(c.d) # 0 THEN FlushRhs(cfg, [c EXCEPT !.final = TRUE], TRUE, Empty(c.d[2]))
                 ELSE Res(c, <<>>, OK) IN
       IF r1.f # OK THEN r1
       ELSE IF Len2(r1.c.l) = 0 THEN r1
       ELSE IF Len2(r1.c.l) < cfg.m THEN Res(r1.c, r1.w, "assert:flush.left_small")
       ELSE LET p == Part(leftId, r1.c.l[1], r1.c.l[2]) IN
            Res([r1.c EXCEPT !.parts = <<p>> \o @, !.l = Empty(@[2])], r1.w \o <<p>>, OK)

(* ----------------------- dask ops as pure step functions --------------------- *)
St(roots, writes, fin, hobs, fail) == [roots |-> roots, writes |-> writes, fin |-> fin, hobs |-> hobs, fail |-> fail]
InitSt == St(<<>>, <<>>, <<>>, <<>>, OK)

\* gen_bunch + _mpu_append_chunks_op for partition p (partitions are created in stream order)
RECURSIVE AppendLoop(_, _, _, _, _)
AppendLoop(cfg, c, p, k, w) ==
  IF k > cfg.shape[p] THEN Res(c, w, OK)
  ELSE LET i  == ChunkIdx(cfg, p, k)
           c1 == [c EXCEPT !.d = <<@[1], @[2] + cfg.sizes[i]>>, !.obs = Append(@, i)]
           r  == IF cfg.spill > 0 THEN MaybeWrite(cfg, c1) ELSE Res(c1, <<>>, OK)
       IN IF r.f # OK THEN Res(r.c, w \o r.w, r.f) ELSE AppendLoop(cfg, r.c, p, k + 1, w \o r.w)

StepAppend(cfg, st, p) ==
  LET final == (cfg.f = 0) /\ p = NParts(cfg)
      c0 == NewChunk(cfg.minPart + 1 + (p - 1) * cfg.wpc, cfg.wpc, Off(cfg, ChunkIdx(cfg, p, 1)),
                     IF FixFinal THEN FALSE ELSE final, cfg.m)
      r  == AppendLoop(cfg, c0, p, 1, <<>>)
      c1 == [r.c EXCEPT !.final = final]
  IN St(Append(st.roots, c1), st.writes \o r.w, st.fin, st.hobs, r.f)

\* _merge_and_spill_op / one step of _mpu_collate_op on roots i, i+1
StepMerge(cfg, st, i) ==
  LET r  == Merge(cfg, st.roots[i], st.roots[i + 1], TRUE)
      sp == r.f = OK /\ cfg.spill > 0
      r2 == IF sp THEN MaybeWrite(cfg, r.c) ELSE r
      w  == IF sp THEN r.w \o r2.w ELSE r.w
  IN St(SubSeq(st.roots, 1, i - 1) \o <<r2.c>> \o SubSeq(st.roots, i + 2, Len(st.roots)),
        st.writes \o w, st.fin, st.hobs, r2.f)

\* _finalizer_dask_op
StepFinalise(cfg, st) ==
  LET root0 == st.roots[1]
      total == Total(cfg)
      root1 == IF cfg.f > 0 THEN [root0 EXCEPT !.d = <<@[1], @[2] + cfg.f>>, !.obs = Append(@, 0)] ELSE root0
      hdr   == [NewChunk(1, 1, 0, FALSE, 0) EXCEPT !.d = <<0, cfg.h>>, !.obs = <<0>>]
      rm    == IF cfg.h > 0 THEN Merge(cfg, hdr, root1, FALSE) ELSE Res(root1, <<>>, OK)
      rf    == IF rm.f = OK THEN Flush(cfg, rm.c, LeftId(cfg)) ELSE rm
  IN St(<<rf.c>>, st.writes \o rm.w \o rf.w, IF rf.f = OK THEN rf.c.parts ELSE <<>>, <<root0.obs>>, rf.f)
=============================================================================
