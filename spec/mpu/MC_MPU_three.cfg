SPECIFICATION Spec
VIEW View
CONSTANTS
  FixFinal = TRUE
  FixSpillMin = TRUE
  FixLeftId = TRUE
  FixEmptyMerge = TRUE
  ShapeSet = "three"
  Sizes = {3, 7, 10}
  Spills = {3, 6}
  WPCs = {3}
  Hdrs = {0, 4}
  Ftrs = {0, 2}
  MinParts = {1, 3}
  M = 3
INVARIANT NoFail
INVARIANT IdsUnique
INVARIANT IdsInRange
INVARIANT Assembled
INVARIANT MinSize
INVARIANT FinOK
INVARIANT ObsOK
INVARIANT Struct
