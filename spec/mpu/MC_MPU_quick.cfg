SPECIFICATION Spec
VIEW View
CONSTANTS
  FixFinal = TRUE
  FixSpillMin = TRUE
  FixLeftId = TRUE
  FixEmptyMerge = TRUE
  ShapeSet = "small"
  Sizes = {0, 1, 3, 10}
  Spills = {0, 1, 3, 6}
  WPCs = {1, 2}
  Hdrs = {0, 2, 4}
  Ftrs = {0, 2}
  MinParts = {0, 1, 3}
  M = 3
INVARIANT NoFail
INVARIANT IdsUnique
INVARIANT IdsInRange
INVARIANT Assembled
INVARIANT MinSize
INVARIANT FinOK
INVARIANT ObsOK
INVARIANT Struct
