-------------------------------- MODULE FromBBox --------------------------------
(* C08 - GeoBox.from_bbox / from_geopolygon / zoom_to(resolution=) (odc/geo/geobox.py) on top of
   snap_grid (MathHelpers).  All world quantities are integers over S = 128; a result is logged as
   [ny, nx, a, b, c, d, e, f] with a, e over S (pixel size), c, f over S*S (origin), b, d raw.      *)
EXTENDS MathHelpers

S == 128
AnchorO(an) == CASE an = "edge" -> <<0, 0>> [] an = "center" -> <<64, 64>> [] an = "quarter" -> <<32, 32>>
                 [] an = "xy" -> <<0, 64>> [] an = "xy2" -> <<96, 32>> [] an = "floating" -> <<-1, -1>>
EffO(c) == IF c.tight THEN <<-1, -1>> ELSE AnchorO(c.anchor)

(* ---- model: what the code computes ---- *)
ResModel(c) ==
  LET O == EffO(c)
      gx == SnapGridModel(S, c.l, c.l + c.spx, c.rx, O[1], c.tol[1], c.tol[2])
      gy == SnapGridModel(S, c.b, c.b + c.spy, c.ry, O[2], c.tol[1], c.tol[2]) IN
  [ny |-> gy[2], nx |-> gx[2], a |-> c.rx, b |-> 0, c |-> gx[1], d |-> 0, e |-> c.ry, f |-> gy[1]]
\* shape mode: pixel size kx/S, ky/S; spans nx*kx, ny*ky; resolution (kx, -ky)
ShapeModel(c) ==
  LET O == EffO(c) r == c.l + c.nx * c.kx t == c.b + c.ny * c.ky IN
  [ny |-> c.ny, nx |-> c.nx, a |-> c.kx, b |-> 0, d |-> 0, e |-> -c.ky,
   c |-> IF O[1] = -1 THEN c.l * S ELSE SnapGridModel(S, c.l, r, c.kx, O[1], c.tol[1], c.tol[2])[1],
   f |-> IF O[2] = -1 THEN t * S ELSE SnapGridModel(S, c.b, t, -c.ky, O[2], c.tol[1], c.tol[2])[1]]

(* ---- contract ---- *)
ResOK(c, o) ==
  LET O == EffO(c)
      vx == SnapGridOK(S, c.l, c.l + c.spx, c.rx, O[1], c.tol[1], c.tol[2], <<o.c, o.nx>>)
      vy == SnapGridOK(S, c.b, c.b + c.spy, c.ry, O[2], c.tol[1], c.tol[2], <<o.f, o.ny>>) IN
  IF ~(o.a = c.rx /\ o.e = c.ry /\ o.b = 0 /\ o.d = 0) THEN "pixel_size_or_orientation_not_as_requested"
  ELSE IF vx # "ok" THEN "x:" \o vx ELSE IF vy # "ok" THEN "y:" \o vy ELSE "ok"
ShapeOK(c, o) ==
  LET free == EffO(c) = <<-1, -1>> t == c.b + c.ny * c.ky IN
  IF ~(o.ny = c.ny /\ o.nx = c.nx) THEN "shape_not_as_requested"
  ELSE IF ~(o.a = c.kx /\ Abs(o.e) = c.ky /\ o.b = 0 /\ o.d = 0) THEN "pixel_size_is_not_span_over_shape"
  ELSE IF ~(Abs(o.c - c.l * S) < c.kx * S /\ Abs(o.f - (IF o.e < 0 THEN t ELSE c.b) * S) < c.ky * S) THEN "displaced_by_a_pixel_or_more"
  ELSE IF free /\ ~(o.c = c.l * S /\ o.f = (IF o.e < 0 THEN t ELSE c.b) * S) THEN "displaced_although_snapping_is_off"
  ELSE "ok"
\* single-number shape, tight: the longest side has exactly n square pixels of size span/n
IShapeOK(c, o) ==
  LET lx == c.nlong * c.k  IN     \* longest span = nlong * k over S; other span c.other over S
  IF ~(Abs(o.a) = c.k /\ Abs(o.e) = c.k /\ o.b = 0 /\ o.d = 0) THEN "pixels_not_square_span_over_shape"
  ELSE IF (IF c.wide THEN o.nx ELSE o.ny) # c.nlong THEN "longest_side_does_not_have_the_requested_pixels"
  ELSE IF (IF c.wide THEN o.ny ELSE o.nx) # Max2(1, CeilDiv(c.other, c.k)) THEN "other_side_does_not_cover"
  ELSE "ok"
(* ---- regions given in ANOTHER, really different CRS (from_geopolygon(poly, crs=...)): the projection is an environment table.
   e.pos = vertices of the region as the projection library maps them, in pixel coordinates of the RESULT, 1/1024 pixel;
   e.o = [ny, nx, edge (offset of pixel edges from the CRS origin, 1/1024 px), axis_aligned, res_ok].
   Contract: covers every vertex (up to tol), less than a pixel of excess per side, aligned as requested (tight: starts at the region). *)
RegionNear(v, want) == LET d == (v - want) % 1024 IN d <= 2 \/ d >= 1022
RegionOK(c, e) ==
  LET o == e.o tolp == (1024 * c.tol[1]) \div c.tol[2] + 2
      xs == {e.pos[i][1] : i \in DOMAIN e.pos} ys == {e.pos[i][2] : i \in DOMAIN e.pos}
      an == CASE c.anchor = "edge" -> 0 [] c.anchor = "center" -> 512 [] OTHER -> -1 IN
  IF ~o.axis_aligned \/ ~o.res_ok THEN "pixel_size_or_orientation_not_as_requested"
  ELSE IF e.pos = <<>> THEN "no_vertex_table"
  ELSE IF SetMin(xs) < -tolp \/ SetMax(xs) > o.nx * 1024 + tolp \/ SetMin(ys) < -tolp \/ SetMax(ys) > o.ny * 1024 + tolp THEN "region_vertex_not_covered"
  ELSE IF SetMin(xs) >= 1024 + 2 \/ SetMax(xs) <= (o.nx - 1) * 1024 - 2 \/ SetMin(ys) >= 1024 + 2 \/ SetMax(ys) <= (o.ny - 1) * 1024 - 2 THEN "a_pixel_or_more_larger_than_necessary"
  ELSE IF c.tight /\ ~(Abs(SetMin(xs)) <= 2 /\ Abs(SetMin(ys)) <= 2) THEN "tight_grid_does_not_start_at_the_region"
  ELSE IF ~c.tight /\ an >= 0 /\ ~(RegionNear(o.edge[1], an) /\ RegionNear(o.edge[2], an)) THEN "pixel_edges_not_aligned_as_requested"
  ELSE "ok"
ModelMeetsContract(c) == CASE c.mode = "res" -> ResOK(c, ResModel(c)) = "ok" [] c.mode = "shape" -> ShapeOK(c, ShapeModel(c)) = "ok" [] OTHER -> TRUE
=============================================================================
