------------------------------- MODULE GridGen -------------------------------
(* C16 - case domain, design-level laws, emission. *)
EXTENDS GridAlgebra, CaseIO
CONSTANTS Lo, Hi, Sizes, TLo, THi, TSizes     \* offsets range over -Lo..Hi (cfg files cannot hold negative numbers)

Bases == {"northup", "mirrorx", "flipy", "rot90", "pythag", "nonsquare"}
Rects(lo, hi, sz) == {Rect(x, y, w, h) : x \in lo..hi, y \in lo..hi, w \in sz, h \in sz}
\* overlapping, nested, touching and separated (by a gap along x, y or both) boxes
\* ... and boxes without area: a vertical segment, a horizontal one, a point (bounding boxes of lines and points)
BBoxes == {<<l, b, l + w, b + h>> : l \in {0, 1, 5}, b \in {0, 1, 6}, w \in {1, 2}, h \in {1, 3}} \cup {<<1, 1, 1, 3>>, <<0, 6, 2, 6>>, <<5, 0, 5, 0>>, <<7, 2, 7, 2>>}

CasesFor(ch) ==
  CASE ch.k = "pair" -> {[op |-> "pair", base |-> ch.base, a |-> ch.a, b |-> b] : b \in Rects(-Lo, Hi, Sizes)}
    [] ch.k = "triple" -> {[op |-> "triple", base |-> ch.base, a |-> ch.a, b |-> b, c |-> c] : b \in Rects(TLo, THi, TSizes), c \in Rects(TLo, THi, TSizes)}
    [] ch.k = "reject" -> {[op |-> "reject", base |-> ch.base, a |-> ch.a, b |-> b, why |-> w, sub |-> s] :
                             b \in {Rect(0, 0, 2, 2), Rect(1, -1, 3, 2)},
                             w \in {"subpixel", "pixelsize", "orientation", "crs", "nocrs"}, s \in {<<1, 0>>, <<0, 4>>, <<2, 3>>, <<0, -1>>, <<-4, 4>>}}
    \* sub-pixel offsets (in 1/1024 pixel) between boxes that lie FAR apart (hundreds to tens of thousands of pixels): the offset is what decides,
    \* not its size relative to the separation
    [] ch.k = "rejectfar" -> {[op |-> "reject", base |-> ch.base, a |-> ch.a, b |-> Rect(f, 0 - f, 3, 2), why |-> "subpixel_far", sub |-> s] :
                             f \in {300, 5000, 40000}, s \in {<<1, 0>>, <<0, 8>>, <<16, -256>>, <<512, 512>>, <<-3, 3>>}}
    \* every invertible relative linear map with entries in halves up to 2 (mirrors, rotations, shears, anisotropic scales), not the identity
    [] ch.k = "rejectlin" -> {[op |-> "reject", base |-> ch.base, a |-> ch.a, b |-> Rect(1, -1, 3, 2), why |-> "linear", sub |-> s, m |-> m] :
                             m \in {x \in LinMaps : ~SameGrid(x, <<0, 0>>)}, s \in {<<0, 0>>}}
    [] ch.k = "snap" -> {[op |-> "snap", base |-> ch.base, a |-> ch.a, b |-> b, sub |-> <<px, py>>] :
                           b \in {Rect(0, 0, 2, 2), Rect(2, -1, 3, 2)}, px \in {-8, -7, -3, 0, 1, 5, 8}, py \in {-8, -5, 0, 2, 7}}
    \* enclosing: region edges in quarter pixels of the base grid, never on a pixel edge; same / other (exact-translation) CRS
    [] ch.k = "enclosing" -> {x \in {[op |-> "enclosing", base |-> ch.base, a |-> ch.a, reg |-> <<x0, y0, x0 + sx, y0 + sy>>, crs |-> cm, poly |-> pm] :
                           x0 \in {-9, -3, 1, 6}, y0 \in {-6, -1, 2, 7}, sx \in {1, 2, 5, 9}, sy \in {1, 3, 6}, cm \in {"same", "other"}, pm \in {"bbox", "polygon"}} :
                              \A i \in 1..4 : x.reg[i] % 4 # 0}
                         \* regions whose edges lie exactly ON pixel edges, on the grids where that is exact in floating point (integer / dyadic axis-aligned
                         \* affines): the enclosing box is then exactly that pixel rectangle - not a pixel more
                         \cup (IF ch.base \in {"northup", "mirrorx", "flipy", "nonsquare"} THEN
                               {[op |-> "enclosing", base |-> ch.base, a |-> ch.a, reg |-> <<4 * x0, 4 * y0, 4 * (x0 + sx), 4 * (y0 + sy)>>, crs |-> "same", poly |-> pm] :
                                  x0 \in {-2, 0, 1}, y0 \in {-1, 0, 2}, sx \in {1, 2, 5}, sy \in {1, 3}, pm \in {"bbox", "polygon"}} ELSE {})
    [] ch.k = "bbox" -> {[op |-> "bbox", p |-> ch.p, q |-> q, r |-> r] : q \in BBoxes, r \in BBoxes}

Chunks == UNION { {[op |-> "chunk", k |-> "pair", base |-> bs, a |-> a] : bs \in Bases, a \in Rects(-Lo, Hi, Sizes)},
                  {[op |-> "chunk", k |-> "triple", base |-> bs, a |-> a] : bs \in {"northup", "pythag"}, a \in Rects(TLo, THi, TSizes)},
                  {[op |-> "chunk", k |-> kk, base |-> bs, a |-> a] : kk \in {"reject", "rejectfar", "rejectlin", "snap", "enclosing"}, bs \in Bases, a \in {Rect(0, 0, 3, 2), Rect(-1, 2, 2, 3)}},
                  {[op |-> "chunk", k |-> "bbox", p |-> p] : p \in BBoxes} }
VARIABLE c
Init == c \in Chunks
Next == c.op = "chunk" /\ c' \in CasesFor(c) /\ Emit(c')
Spec == Init /\ [][Next]_c
LawsOK == /\ c.op = "pair" => PairLaws(c.a, c.b)
          /\ c.op = "triple" => TripleLaws(c.a, c.b, c.c)
          /\ c.op = "bbox" => (/\ BJoin(c.p, c.q) = BJoin(c.q, c.p) /\ BMeet(c.p, c.q) = BMeet(c.q, c.p)
                               /\ BJoin(BJoin(c.p, c.q), c.r) = BJoin(c.p, BJoin(c.q, c.r)) /\ BMeet(BMeet(c.p, c.q), c.r) = BMeet(c.p, BMeet(c.q, c.r))
                               /\ BJoin(c.p, c.p) = c.p /\ BMeet(c.p, c.p) = c.p
                               /\ BJoin(c.p, BMeet(c.p, c.q)) = c.p /\ BMeet(c.p, BJoin(c.p, c.q)) = c.p
                               /\ BLe(c.p, BJoin(c.p, c.q)) /\ BLe(BMeet(c.p, c.q), c.p))
=============================================================================
