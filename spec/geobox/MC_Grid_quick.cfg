SPECIFICATION Spec
CONSTANTS
  Lo = 2
  Hi = 1
  Sizes = {1, 2}
  TLo = 0
  THi = 1
  TSizes = {1, 2}
INVARIANT LawsOK
