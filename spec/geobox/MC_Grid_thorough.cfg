SPECIFICATION Spec
CONSTANTS
  Lo = 2
  Hi = 2
  Sizes = {1, 2, 3}
  TLo = 0
  THi = 2
  TSizes = {1, 2}
INVARIANT LawsOK
