------------------------------ MODULE FromBBoxGen ------------------------------
EXTENDS FromBBox, CaseIO
CONSTANTS Tier
Ls == IF Tier = "quick" THEN {-40, -33, 0, 7, 385, 383} ELSE (-40..-28) \cup (-4..8) \cup {385, 383, 388, 380, 768}
Sps == IF Tier = "quick" THEN {16, 128, 224, 464, 767, 769, 7} ELSE {16, 64, 128, 224, 384, 464, 767, 769, 7, 1536}
Rs == {128, 64, 96, 192, 384}
Anchors == {"edge", "center", "quarter", "xy", "xy2", "floating"}
Routes == {"bbox", "tuple", "polygon", "polygon_other_crs", "zoom_to"}
\* the route, whole-pixel shift and tolerance are functions of the case so that the product does not multiply
Pick(q, k) == q[(k % Len(q)) + 1]
Hash(c) == Abs(c.l) + 3 * c.spx + 5 * Abs(c.b) + 7 * c.spy + Abs(c.rx) \div 32 + Abs(c.ry) \div 16 + (IF c.tight THEN 1 ELSE 0)
ResCases(rx) ==
  {LET c == [mode |-> "res", l |-> l, spx |-> spx, b |-> b, spy |-> spy, rx |-> rx, ry |-> ry, anchor |-> an, tight |-> tg] IN
     c @@ [route |-> Pick(<<"bbox", "tuple", "polygon", "polygon_other_crs", "zoom_to", "bbox">>, Hash(c)),
           shift |-> Pick(<<0, 0, 1, -3>>, Hash(c) \div 2), tol |-> Pick(<<<<1, 100>>, <<1, 100>>, <<1, 10>>>>, Hash(c) \div 3)] :
     l \in Ls, spx \in Sps, b \in {-33, 0, 383}, spy \in {128, 464, 7}, ry \in {-rx, 96, -192}, an \in Anchors, tg \in BOOLEAN}
ShapeCases(nx) ==
  {[mode |-> "shape", l |-> l, b |-> b, nx |-> nx, ny |-> ny, kx |-> kx, ky |-> ky, anchor |-> an, tight |-> tg, tol |-> <<1, 100>>,
    route |-> rt, shift |-> 0] :
     l \in {-40, -33, 0, 385}, b \in {-7, 0, 130}, ny \in {1, 3, 4}, kx \in {128, 96, 48}, ky \in {128, 64}, an \in Anchors, tg \in BOOLEAN, rt \in {"bbox", "polygon"}}
IShapeCases == {[mode |-> "ishape", l |-> l, b |-> b, nlong |-> n, k |-> k, other |-> ot, wide |-> w, tight |-> TRUE, tol |-> <<1, 100>>, route |-> "bbox", shift |-> 0] :
                  l \in {-33, 0}, b \in {0, 77}, n \in {1, 4, 7}, k \in {128, 96}, ot \in {50, 96, 300}, w \in BOOLEAN}
\* regions that are not their own envelope, given in a CRS that bends straight lines relative to the requested one
RegionCases == {[mode |-> "region", route |-> "polygon_real_crs", geo |-> g, pair |-> pr, resk |-> k, anchor |-> an, tight |-> tg, tol |-> tl, shift |-> 0] :
                  g \in {"diamond", "triangle", "line", "box", "multipoint", "bowtie"}, pr \in {"4326>3035", "4326>32633", "3577>4326", "3035>4326", "32633>3857"},
                  k \in {1, 3}, an \in {"edge", "center", "floating"}, tg \in BOOLEAN, tl \in {<<1, 100>>, <<1, 10>>}}
\* regions whose extent IN THE TARGET CRS has edges a few thousandths of a unit away from whole numbers, on grids with pixels far smaller than a unit
EdgeCases == {[mode |-> "region", route |-> "polygon_real_crs", geo |-> g, pair |-> pr, resk |-> k, anchor |-> an, tight |-> tg, tol |-> tl, shift |-> 0] :
                g \in {"box", "diamond"}, pr \in {"3035>4326edge", "32633>4326edge"}, k \in {1, 3}, an \in {"edge", "center", "floating"}, tg \in BOOLEAN, tl \in {<<1, 100>>, <<1, 10>>}}
VARIABLE c
Init == c \in {[mode |-> "chunk", k |-> "res", v |-> r] : r \in Rs \cup {-x : x \in Rs}} \cup {[mode |-> "chunk", k |-> "shape", v |-> n] : n \in {1, 2, 5}}
             \cup {[mode |-> "chunk", k |-> "ishape", v |-> 0], [mode |-> "chunk", k |-> "region", v |-> 0]}
Next == c.mode = "chunk" /\ c' \in (CASE c.k = "res" -> ResCases(c.v) [] c.k = "shape" -> ShapeCases(c.v) [] c.k = "ishape" -> {x \in IShapeCases : x.other < x.nlong * x.k} [] c.k = "region" -> RegionCases \cup EdgeCases) /\ Emit(c')
Spec == Init /\ [][Next]_c
ModelOK == c.mode # "chunk" => ModelMeetsContract(c)
=============================================================================
