----------------------------- MODULE MC_GeoBoxViews -----------------------------
(* C02 - bounded exploration: all operation sequences up to MaxDepth from the base boxes; every transition
   (pre-state, operation) is emitted for execution on a real GeoBox.                               *)
EXTENDS GeoBoxViews, CaseIO
CONSTANT MaxDepth
D == DEN
Bases == { <<2 * D, 0, 10 * D, 0, -2 * D, 20 * D>>, <<-2 * D, 0, 10 * D, 0, -2 * D, 20 * D>>, <<2 * D, 0, 10 * D, 0, 2 * D, 20 * D>>,
           <<2 * D, 0, 10 * D, 0, -1 * D, 20 * D>>, <<0, 2 * D, 10 * D, 2 * D, 0, 20 * D>>, <<1440, -1920, 10 * D, 1920, 1440, 20 * D>>,
           <<2 * D, 1 * D, 10 * D, 0, -2 * D, 20 * D>> }
Shapes == {<<1, 4>>, <<3, 1>>, <<3, 4>>, <<2, 2>>}
VARIABLES g, depth, warm
\* warm: the views of g (footprint, bounding box, labels, resolution, geographic extent ...) have been READ since g was made.  A GeoBox caches some
\* of them; reading must not change what any later operation returns, so Observe changes nothing but the flag and every transition is emitted
\* with it (the real box is warmed by reading all its views before the operation is applied).
vars == <<g, depth, warm>>
Init == \E A \in Bases, s \in Shapes, crs \in {"none", "A"} : g = [h |-> s[1], w |-> s[2], A |-> A, crs |-> crs] /\ depth = 0 /\ warm = FALSE
Small(x) == (\A i \in 1..6 : Abs(x.A[i]) < 46000) /\ x.h <= 16 /\ x.w <= 16      \* keeps every product below 2^31
Observe == ~warm /\ warm' = TRUE /\ UNCHANGED <<g, depth>>
Step == /\ depth < MaxDepth
        /\ \E o \in Ops : LET e == Eff(g, o) IN
              /\ Representable(g, e) /\ Small(Apply(g, e)) /\ Det(Apply(g, e).A) # 0
              /\ g' = Apply(g, e) /\ depth' = depth + 1 /\ warm' = FALSE
              /\ Emit([pre |-> g, op |-> o, warm |-> warm])
Next == Step \/ Observe
Spec == Init /\ [][Next]_vars
\* invariants of the model
Invertible == Det(g.A) # 0
ShapePositive == g.h >= 1 /\ g.w >= 1
\* action property: coverers cover, the centre is fixed under rotation, neighbours abut
CoverOK == [][\A o \in Ops : (o.op \in Coverers /\ Representable(g, Eff(g, o)) /\ g' = Apply(g, Eff(g, o))) => CoversOld(g, Eff(g, o))]_vars
CentreFixed == [][\A o \in Ops : (o.op = "rotate" /\ Representable(g, Eff(g, o)) /\ g' = Apply(g, Eff(g, o))) =>
                    ApplyK(g'.A, g.w, g.h, 2) = ApplyK(g.A, g.w, g.h, 2)]_vars
=============================================================================
