------------------------------- MODULE GridTrace -------------------------------
(* C16 - verdicts on results logged from real GeoBox / BoundingBox operations.
   Results are <<h, w, a, b, c, d, e, f>> on the integer lattice, "err:<Exception>" outcomes, rois <<y0,y1,x0,x1>>.
   e.A is the base affine (input).  A result record is [oc |-> "ok" | exception name, v |-> value].            *)
EXTENDS GridAlgebra, TraceIO

IsPlaced(res, A, r) == res = Place(A, r)
OnGrid(res, A, r) == res = Place(A, r)
Ok(x) == x.oc = "ok"
\* the rectangle a result denotes, recovered from its shape and the expected anchor
UnionV(e, res, ops, name) ==
  IF ~Ok(res) THEN name \o "_raised_" \o res.oc
  ELSE IF res.v # Place(e.A, HullN(ops)) THEN name \o "_is_not_the_smallest_geobox_on_the_grid_containing_the_operands" ELSE "ok"
InterV(e, res, ops, name) ==
  LET sh == Shared(ops) IN
  IF ~Ok(res) THEN name \o "_raised_" \o res.oc
  ELSE IF sh = {} THEN (IF res.v[1] * res.v[2] # 0 THEN name \o "_of_disjoint_operands_is_not_empty" ELSE "ok")
  ELSE LET x0 == SetMin({p[1] : p \in sh}) y0 == SetMin({p[2] : p \in sh})
           r == Rect(x0, y0, SetMax({p[1] : p \in sh}) - x0 + 1, SetMax({p[2] : p \in sh}) - y0 + 1) IN
       IF res.v # Place(e.A, r) THEN name \o "_is_not_exactly_the_shared_pixels" ELSE "ok"
RoiV(e, res, a, b, name) ==
  IF ~Ok(res) THEN name \o "_raised_" \o res.oc
  ELSE IF RoiPixels(res.v, a) # Pixels(a) \cap Pixels(b) THEN name \o "_does_not_index_exactly_the_shared_pixels" ELSE "ok"
RECURSIVE First(_)
First(vs) == IF vs = <<>> THEN "ok" ELSE IF Head(vs) # "ok" THEN Head(vs) ELSE First(Tail(vs))

PairV(e) == First(<< UnionV(e, e.o.a_or_b, <<e.c.a, e.c.b>>, "a_or_b"), UnionV(e, e.o.b_or_a, <<e.c.a, e.c.b>>, "b_or_a"),
                     UnionV(e, e.o.union_ab, <<e.c.a, e.c.b>>, "union_list"),
                     InterV(e, e.o.a_and_b, <<e.c.a, e.c.b>>, "a_and_b"), InterV(e, e.o.b_and_a, <<e.c.b, e.c.a>>, "b_and_a"),
                     RoiV(e, e.o.roi_ab, e.c.a, e.c.b, "a_overlap_roi_b"), RoiV(e, e.o.roi_ba, e.c.b, e.c.a, "b_overlap_roi_a") >>)
TripleV(e) == LET ops == <<e.c.a, e.c.b, e.c.c>> IN
  First(<< UnionV(e, e.o.u_left, ops, "(a|b)|c"), UnionV(e, e.o.u_right, ops, "a|(b|c)"), UnionV(e, e.o.u_list, ops, "union_list"),
           InterV(e, e.o.i_left, ops, "(a&b)&c"), InterV(e, e.o.i_right, ops, "a&(b&c)"), InterV(e, e.o.i_list, ops, "intersection_list") >>)
\* every operation on incompatible grids must be rejected with ValueError
RejectV(e) == IF \E k \in DOMAIN e.o : e.o[k].oc \notin {"ValueError", "CRSMismatchError"} THEN "incompatible_grids_not_rejected" ELSE "ok"
\* snap_to: result = shifted by at most half a pixel onto the other grid.  e.o.res.v = <<h, w, a, b, 16c, d, e, 16f>>
SnapV(e) ==
  LET res == e.o.res A == e.A b == e.c.b IN
  IF ~Ok(res) THEN "snap_to_raised_" \o res.oc
  ELSE IF \E sx \in -3..3, sy \in -3..3 :
            /\ 16 * sx - e.c.sub[1] \in -8..8 /\ 16 * sy - e.c.sub[2] \in -8..8
            /\ LET p == Place(A, Rect(b[1] + sx, b[2] + sy, b[3], b[4])) IN
               res.v = <<p[1], p[2], p[3], p[4], 16 * p[5], p[6], p[7], 16 * p[8]>>
       THEN "ok" ELSE "snap_to_result_not_on_the_other_grid_within_half_a_pixel"
\* enclosing: on the source grid, covers the region, exceeds by less than a pixel per side.  region in quarter pixels.
EncV(e) ==
  LET res == e.o.res g == e.c.reg IN
  IF ~Ok(res) THEN "enclosing_raised_" \o res.oc
  ELSE LET r == Rect(FloorDiv(g[1], 4), FloorDiv(g[2], 4), CeilDiv(g[3], 4) - FloorDiv(g[1], 4), CeilDiv(g[4], 4) - FloorDiv(g[2], 4)) IN
       IF \E x0 \in (r[1] - 2)..(r[1] + 2), y0 \in (r[2] - 2)..(r[2] + 2), w \in 1..(r[3] + 4), h \in 1..(r[4] + 4) :
            /\ res.v = Place(e.A, Rect(x0, y0, w, h))
            /\ 4 * x0 <= g[1] /\ 4 * y0 <= g[2] /\ g[3] <= 4 * (x0 + w) /\ g[4] <= 4 * (y0 + h)                          \* covers
            /\ g[1] - 4 * x0 < 4 /\ g[2] - 4 * y0 < 4 /\ 4 * (x0 + w) - g[3] < 4 /\ 4 * (y0 + h) - g[4] < 4                  \* < 1 px excess
       THEN "ok" ELSE "enclosing_not_on_grid_or_not_a_tight_cover"
BBoxV(e) ==
  LET p == e.c.p q == e.c.q r == e.c.r o == e.o IN
  IF \E k \in DOMAIN o : o[k].oc # "ok" THEN "bbox_operation_raised"
  ELSE IF o.p_or_q.v # o.q_or_p.v \/ o.p_and_q.v # o.q_and_p.v THEN "bbox_not_commutative"
  ELSE IF o.pq_r_or.v # o.p_qr_or.v \/ o.pq_r_and.v # o.p_qr_and.v THEN "bbox_not_associative"
  ELSE IF o.p_or_p.v # p \/ o.p_and_p.v # p THEN "bbox_not_idempotent"
  ELSE IF o.absorb1.v # p \/ o.absorb2.v # p THEN "bbox_not_absorbing"
  ELSE IF ~(BLe(p, o.p_or_q.v) /\ BLe(q, o.p_or_q.v) /\ BLe(o.p_and_q.v, p) /\ BLe(o.p_and_q.v, q)) THEN "bbox_containment_violated"
  ELSE IF o.p_or_q.v # BJoin(p, q) \/ o.p_and_q.v # BMeet(p, q) THEN "drift"
  ELSE "ok"
Verdict(e) ==
  LET v == CASE e.c.op = "pair" -> PairV(e) [] e.c.op = "triple" -> TripleV(e) [] e.c.op = "reject" -> RejectV(e)
             [] e.c.op = "snap" -> SnapV(e) [] e.c.op = "enclosing" -> EncV(e) [] e.c.op = "bbox" -> BBoxV(e) IN
  IF v = "ok" THEN "ok" ELSE IF v = "drift" THEN "drift:bbox_result_differs_from_componentwise_model" ELSE "reject:" \o v
VARIABLE l
Init == l = 1
Next == l <= NEvents /\ PrintT(<<"V", l, Verdict(Events[l])>>) /\ l' = l + 1
Spec == Init /\ [][Next]_l
=============================================================================
