----------------------------- MODULE FromBBoxTrace -----------------------------
EXTENDS FromBBox, TraceIO
Verdict(e) ==
  LET c == e.c o == e.o IN
  IF e.outcome # "ok" THEN "reject:raised_" \o e.outcome
  ELSE IF ~e.crs_ok THEN "reject:crs_not_the_requested_one"
  ELSE CASE c.mode = "res" -> (LET v == ResOK(c, o) IN IF v # "ok" THEN "reject:" \o v ELSE IF o # ResModel(c) THEN "drift:differs_from_model" ELSE "ok")
         [] c.mode = "shape" -> (LET v == ShapeOK(c, o) IN IF v # "ok" THEN "reject:" \o v ELSE IF o # ShapeModel(c) THEN "drift:differs_from_model" ELSE "ok")
         [] c.mode = "region" -> (LET v == RegionOK(c, e) IN IF v # "ok" THEN "reject:" \o v ELSE "ok")
         [] c.mode = "ishape" -> (LET v == IShapeOK(c, o) IN IF v # "ok" THEN "reject:" \o v ELSE "ok")
VARIABLE l
Init == l = 1
Next == l <= NEvents /\ PrintT(<<"V", l, Verdict(Events[l])>>) /\ l' = l + 1
Spec == Init /\ [][Next]_l
=============================================================================
