------------------------------ MODULE GeoBoxViews ------------------------------
(* C02 - GeoBox views and view-changing operations (odc/geo/geobox.py).

   A GeoBox is [h, w, A, crs]; A = <<a, b, c, d, e, f>> are integer numerators over DEN of the
   pixel-to-world affine  x = a*col + b*row + c,  y = d*col + e*row + f.
   Every view-changing operation is specified by its documented meaning:
     pixel-side  A' = A o T   (T maps new pixel coordinates to old ones),
     world-side  A' = M o A,
   a shape rule, and "same CRS".  T and M are rational: numerators over their own small denominator.
   A transition is only taken when the result is representable over DEN (divisibility), so the model
   stays exact.                                                                                   *)
EXTENDS IntMath, Sequences, FiniteSets, TLC

DEN == 1200
Lin(A) == <<A[1], A[2], A[4], A[5]>>
\* A o T, T = Tn / td
ComposeNum(A, Tn) == << A[1] * Tn[1] + A[2] * Tn[4], A[1] * Tn[2] + A[2] * Tn[5], A[1] * Tn[3] + A[2] * Tn[6],
                        A[4] * Tn[1] + A[5] * Tn[4], A[4] * Tn[2] + A[5] * Tn[5], A[4] * Tn[3] + A[5] * Tn[6] >>
AddT(N, A, td) == <<N[1], N[2], N[3] + A[3] * td, N[4], N[5], N[6] + A[6] * td>>
Divisible(N, td) == \A i \in 1..6 : N[i] % td = 0
DivAll(N, td) == [i \in 1..6 |-> N[i] \div td]
\* world-side M o A with M = Mn / md (M's translation numerators are over DEN * md)
WorldNum(Mn, A) == << Mn[1] * A[1] + Mn[2] * A[4], Mn[1] * A[2] + Mn[2] * A[5], Mn[1] * A[3] + Mn[2] * A[6] + Mn[3],
                      Mn[4] * A[1] + Mn[5] * A[4], Mn[4] * A[2] + Mn[5] * A[5], Mn[4] * A[3] + Mn[5] * A[6] + Mn[6] >>
\* image of pixel point (x/k, y/k) times k*DEN
ApplyK(A, x, y, k) == <<A[1] * x + A[2] * y + A[3] * k, A[4] * x + A[5] * y + A[6] * k>>
Tr(x, y) == <<1, 0, x, 0, 1, y>>
AxisAligned(A) == A[2] = 0 /\ A[4] = 0

(* ---- operations: [op, p] ; Eff(g, o) = [ok, side, n (numerators), td, h, w] ---- *)
Pix(n, td, h, w) == [ok |-> TRUE, side |-> "pix", n |-> n, td |-> td, h |-> h, w |-> w]
Wld(n, td, h, w) == [ok |-> TRUE, side |-> "wld", n |-> n, td |-> td, h |-> h, w |-> w]
AbsA(n, h, w) == [ok |-> TRUE, side |-> "abs", n |-> n, td |-> 1, h |-> h, w |-> w]      \* the new affine is given outright (not a composition)
NA == [ok |-> FALSE, side |-> "pix", n |-> Tr(0, 0), td |-> 1, h |-> 0, w |-> 0]
RotNum(g, r, rd) ==    \* rotation r/rd = <<cos, -sin, sin, cos>> about the image of the pixel centre; numerators over rd (linear) and 2*rd*DEN... kept as M over md = 2 * rd
  LET c2 == ApplyK(g.A, g.w, g.h, 2) IN     \* centre * 2 * DEN
  << 2 * r[1], 2 * r[2], (rd * c2[1] - r[1] * c2[1] - r[2] * c2[2]),
     2 * r[3], 2 * r[4], (rd * c2[2] - r[3] * c2[1] - r[4] * c2[2]) >>
\* bounding box of the pixel rectangle, numerators over DEN (same as BBoxOf below, needed here)
BBoxNum(g) == LET P == [i \in 1..4 |-> ApplyK(g.A, (<<0, g.w, g.w, 0>>)[i], (<<0, 0, g.h, g.h>>)[i], 1)] IN
              << SetMin({P[i][1] : i \in 1..4}), SetMin({P[i][2] : i \in 1..4}), SetMax({P[i][1] : i \in 1..4}), SetMax({P[i][2] : i \in 1..4}) >>
Eff(g, o) ==
  LET h == g.h w == g.w p == o.p IN
  CASE o.op = "crop" ->
         (CASE p = "inner" -> IF h >= 2 /\ w >= 2 THEN Pix(Tr(1, 1), 1, h - 1, w - 1) ELSE NA
            [] p = "neg" -> IF h >= 2 /\ w >= 2 THEN Pix(Tr(0, h - 2), 1, 2, w - 1) ELSE NA
            [] p = "int" -> Pix(Tr(0, 0), 1, 1, w)
            [] p = "intneg" -> Pix(Tr(0, h - 1), 1, 1, w)
            [] p = "cols" -> IF w >= 2 THEN Pix(Tr(1, 0), 1, h, w - 1) ELSE NA
            [] p = "full" -> Pix(Tr(0, 0), 1, h, w)                                           \* gb[:, :]
            [] p = "rows" -> IF h >= 2 THEN Pix(Tr(0, 1), 1, h - 1, w) ELSE NA                \* gb[1:]  (a bare slice addresses rows)
            [] p = "colint" -> Pix(Tr(0, 0), 1, h, 1)                                         \* gb[:, 0]
            [] p = "pix" -> IF h >= 2 /\ w >= 3 THEN Pix(Tr(2, 1), 1, 1, 1) ELSE NA            \* gb[1, 2]
            [] p = "pixneg" -> Pix(Tr(w - 1, h - 1), 1, 1, 1)                                 \* gb[-1, -1]
            [] p = "rowcols" -> IF w >= 2 THEN Pix(Tr(1, 0), 1, 1, w - 1) ELSE NA)            \* gb[0, 1:]
    [] o.op = "crop_region" ->        \* gb[region]: region = rectangle p.r = <<x0, y0, x1, y1>> in QUARTER pixels of this box's own pixel plane, handed over
                                     \* as p.kind: pixel-plane geometry, world geometry, world bounding box, or another GeoBox.  Contract: the crop to the
                                     \* region's pixel bounding box rounded outwards and clipped to the image, at least one pixel.
         (LET tx == Max2(0, FloorDiv(p.r[1], 4)) ty == Max2(0, FloorDiv(p.r[2], 4))
              ex == Min2(w, CeilDiv(p.r[3], 4)) ey == Min2(h, CeilDiv(p.r[4], 4)) IN
          IF tx >= w \/ ty >= h \/ ex <= 0 \/ ey <= 0 THEN NA
          ELSE IF p.kind # "pixgeom" /\ g.crs = "none" THEN NA                                \* world regions need a CRS on both sides
          ELSE IF p.kind = "wldbbox" /\ ~AxisAligned(g.A) THEN NA                             \* a bounding box is the rectangle only on axis-aligned grids
          ELSE Pix(Tr(tx, ty), 1, Max2(1, ey - ty), Max2(1, ex - tx)))
    [] o.op = "pad" -> Pix(Tr(-p[1], -p[2]), 1, h + 2 * p[2], w + 2 * p[1])
    [] o.op = "pad_wh" -> Pix(Tr(0, 0), 1, AlignUp(h, p[2]), AlignUp(w, p[1]))
    [] o.op = "expand" -> Pix(Tr(0, 0), 1, h + p[1], w + p[2])
    [] o.op = "translate_pix" -> Pix(<<2, 0, p[1], 0, 2, p[2]>>, 2, h, w)          \* p in half pixels
    [] o.op = "flipx" -> Pix(<<-1, 0, w, 0, 1, 0>>, 1, h, w)
    [] o.op = "flipy" -> Pix(<<1, 0, 0, 0, -1, h>>, 1, h, w)
    [] o.op = "rotate" -> (CASE p = 90 -> Wld(RotNum(g, <<0, -1, 1, 0>>, 1), 2, h, w)
                             [] p = -90 -> Wld(RotNum(g, <<0, 1, -1, 0>>, 1), 2, h, w)
                             [] p = 180 -> Wld(RotNum(g, <<-1, 0, 0, -1>>, 1), 2, h, w)
                             [] p = 53 -> Wld(RotNum(g, <<3, -4, 4, 3>>, 5), 10, h, w))
    [] o.op = "zoom_out" -> IF p = 1 THEN Pix(<<1, 0, 0, 0, 1, 0>>, 2, 2 * h, 2 * w)                                   \* factor 1/2
                            ELSE IF p = 10 THEN Pix(<<1, 0, 0, 0, 1, 0>>, 1, h, w)                                   \* factor 1.0
                            ELSE Pix(<<p, 0, 0, 0, p, 0>>, 1, Max2(1, CeilDiv(h, p)), Max2(1, CeilDiv(w, p)))      \* factor 2, 3: shape rounded up
    [] o.op = "zoom_to" -> (LET hh == IF p = "tall" THEN 2 * h ELSE IF p = "half" THEN CeilDiv(h, 2) ELSE h
                                ww == IF p = "wide" THEN 2 * w ELSE IF p = "half" THEN CeilDiv(w, 2) ELSE w IN
                            Pix(<<w * hh, 0, 0, 0, h * ww, 0>>, ww * hh, hh, ww))
    [] o.op = "zoom_to_n" -> (LET nmax == Max2(h, w) n == IF p = "double" THEN 2 * nmax ELSE CeilDiv(nmax, 2) IN    \* zoom_out(nmax / n)
                              Pix(<<nmax, 0, 0, 0, nmax, 0>>, n, Max2(1, CeilDiv(h * n, nmax)), Max2(1, CeilDiv(w * n, nmax))))
    \* zoom_to(resolution=r): the north-up grid of pixel size r (world units; p = r) laid tightly over the bounding box from its top-left corner -
    \* whatever the orientation of the box itself (a rotated box is NOT re-sampled along its own axes)
    [] o.op = "zoom_to_res" -> (LET b == BBoxNum(g) R == p * DEN IN
                                AbsA(<<R, 0, b[1], 0, -R, b[4]>>, Max2(1, CeilDiv(b[4] - b[2], R)), Max2(1, CeilDiv(b[3] - b[1], R))))
    [] o.op = "scaled_down" -> Pix(<<p, 0, 0, 0, p, 0>>, 1, CeilDiv(h, p), CeilDiv(w, p))
    [] o.op = "buffered" ->      \* p = <<bx, by>> buffers in TENTHS of this box's own pixel size; whole pixels added per side = ceil(b - 0.1)
         IF AxisAligned(g.A) THEN (LET nx == CeilDiv(p[1] - 1, 10) ny == CeilDiv(p[2] - 1, 10) IN Pix(Tr(-nx, -ny), 1, h + 2 * ny, w + 2 * nx)) ELSE NA
    [] o.op = "left" -> Pix(Tr(-w, 0), 1, h, w)
    [] o.op = "right" -> Pix(Tr(w, 0), 1, h, w)
    [] o.op = "top" -> Pix(Tr(0, -h), 1, h, w)
    [] o.op = "bottom" -> Pix(Tr(0, h), 1, h, w)
    [] o.op = "center_pixel" -> Pix(Tr(w \div 2, h \div 2), 1, 1, 1)
    [] o.op = "mul" -> IF p = "scale2" THEN Pix(<<2, 0, 0, 0, 2, 0>>, 1, h, w) ELSE Pix(Tr(1, 1), 1, h, w)
    [] o.op = "rmul" -> IF p = "scale2" THEN Wld(<<2, 0, 0, 0, 2, 0>>, 1, h, w) ELSE Wld(<<1, 0, 5 * DEN, 0, 1, -5 * DEN>>, 1, h, w)

NewNum(g, e) == IF e.side = "abs" THEN e.n ELSE IF e.side = "pix" THEN AddT(ComposeNum(g.A, e.n), g.A, e.td) ELSE WorldNum(e.n, g.A)
Representable(g, e) == e.ok /\ Divisible(NewNum(g, e), e.td) /\ e.h >= 1 /\ e.w >= 1
Apply(g, e) == [h |-> e.h, w |-> e.w, A |-> DivAll(NewNum(g, e), e.td), crs |-> g.crs]

CropNames == {"inner", "neg", "int", "intneg", "cols", "full", "rows", "colint", "pix", "pixneg", "rowcols"}
Regions == { <<1, 1, 7, 5>>, <<5, 3, 11, 9>>, <<-3, -5, 6, 6>>, <<2, 6, 63, 7>>, <<9, 1, 10, 2>> }      \* quarter pixels, never on a pixel edge
RegionKinds == {"pixgeom", "wldgeom", "wldbbox", "geobox"}
Ops == UNION { {[op |-> "crop", p |-> x] : x \in CropNames},
               {[op |-> "crop_region", p |-> [kind |-> k, r |-> r]] : k \in RegionKinds, r \in Regions},
               {[op |-> "pad", p |-> x] : x \in {<<1, 1>>, <<2, 1>>, <<2, 0>>, <<0, 1>>, <<0, 0>>}},
               {[op |-> "pad_wh", p |-> x] : x \in {<<4, 4>>, <<3, 2>>, <<1, 1>>, <<2, 1>>, <<16, 16>>}},
               {[op |-> "expand", p |-> x] : x \in {<<1, 2>>, <<0, 0>>, <<-1, 0>>}},
               {[op |-> "translate_pix", p |-> x] : x \in {<<4, -2>>, <<1, 0>>, <<0, 0>>, <<0, 3>>}},
               {[op |-> x, p |-> 0] : x \in {"flipx", "flipy", "left", "right", "top", "bottom", "center_pixel"}},
               {[op |-> "buffered", p |-> x] : x \in {<<15, 10>>, <<10, 10>>, <<0, 10>>, <<5, 0>>, <<11, 1>>}},
               {[op |-> "rotate", p |-> x] : x \in {90, -90, 180, 53}}, {[op |-> "zoom_out", p |-> x] : x \in {2, 1, 3, 10}},
               {[op |-> "zoom_to", p |-> x] : x \in {"tall", "wide", "half"}}, {[op |-> "zoom_to_n", p |-> x] : x \in {"double", "halve"}}, {[op |-> "zoom_to_res", p |-> x] : x \in {1, 3, 5}},
               {[op |-> "scaled_down", p |-> x] : x \in {2, 3, 4}}, {[op |-> "mul", p |-> x] : x \in {"scale2", "shift"}},
               {[op |-> "rmul", p |-> x] : x \in {"scale2", "shift"}} }
Coverers == {"pad", "pad_wh", "zoom_out", "scaled_down", "buffered", "zoom_to_n"}

(* ---- views, as exact functions of (h, w, A) ---- *)
Corners(g) == <<<<0, 0>>, <<g.w, 0>>, <<g.w, g.h>>, <<0, g.h>>>>
CornerImgs(g) == [i \in 1..4 |-> ApplyK(g.A, Corners(g)[i][1], Corners(g)[i][2], 1)]
BBoxOf(g) == LET P == CornerImgs(g) IN << SetMin({P[i][1] : i \in 1..4}), SetMin({P[i][2] : i \in 1..4}), SetMax({P[i][1] : i \in 1..4}), SetMax({P[i][2] : i \in 1..4}) >>
Det(A) == A[1] * A[5] - A[2] * A[4]
\* a coverer's new pixel rectangle, mapped into OLD pixel coordinates by T, contains the old rectangle (T is scale + translation for these)
CoversOld(g, e) == /\ e.n[3] <= 0 /\ e.n[6] <= 0
                   /\ e.n[1] * e.w + e.n[3] >= g.w * e.td /\ e.n[5] * e.h + e.n[6] >= g.h * e.td
=============================================================================
