SPECIFICATION Spec
CONSTANT MaxDepth = 3
INVARIANT Invertible
INVARIANT ShapePositive
PROPERTY CoverOK
PROPERTY CentreFixed
