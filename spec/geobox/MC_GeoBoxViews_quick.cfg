SPECIFICATION Spec
CONSTANT MaxDepth = 2
INVARIANT Invertible
INVARIANT ShapePositive
PROPERTY CoverOK
PROPERTY CentreFixed
