------------------------------ MODULE GridAlgebra ------------------------------
(* C16 - GeoBox and bounding-box set operations on a common pixel grid
   (odc/geo/geobox.py: __or__, __and__, overlap_roi, enclosing, snap_to, pixel_translation,
    bounding_box_in_pixel_domain, geobox_union/intersection_conservative; odc/geo/geom.py: bbox_union/intersection).

   A GeoBox on the base grid with pixel-to-world affine A (integer lattice) is a rectangle of pixels
   <<x0, y0, w, h>> (offset in whole pixels, shape).  Results observed from the code are logged as
   <<h, w, a, b, c, d, e, f>> (shape + affine on the lattice) and compared with Place(A, rect).     *)
EXTENDS PySlice, TLC

Rect(x0, y0, w, h) == <<x0, y0, w, h>>
X1(r) == r[1] + r[3]
Y1(r) == r[2] + r[4]
Pixels(r) == {<<x, y>> : x \in r[1]..(X1(r) - 1), y \in r[2]..(Y1(r) - 1)}
IsEmpty(r) == r[3] <= 0 \/ r[4] <= 0

(* ----- model of the code: bounding boxes in the reference pixel domain ----- *)
Hull2(a, b) == LET x0 == Min2(a[1], b[1]) y0 == Min2(a[2], b[2]) IN Rect(x0, y0, Max2(X1(a), X1(b)) - x0, Max2(Y1(a), Y1(b)) - y0)
\* intersection with the code's empty-result normalisation (inverted extent collapses onto the left / bottom edge)
Inter2(a, b) == LET x0 == Max2(a[1], b[1]) y0 == Max2(a[2], b[2]) IN
                Rect(x0, y0, Max2(0, Min2(X1(a), X1(b)) - x0), Max2(0, Min2(Y1(a), Y1(b)) - y0))
RECURSIVE HullN(_) 
HullN(q) == IF Len(q) = 1 THEN q[1] ELSE Hull2(q[1], HullN(Tail(q)))
\* overlap_roi(a, b): shared pixels as a slice of a  <<y0, y1, x0, x1>>  (code after the fix: clamped, never inverted)
OverlapRoi(a, b) == LET x0 == Max2(0, b[1] - a[1]) y0 == Max2(0, b[2] - a[2]) IN
                    <<y0, Max2(y0, Min2(Y1(b) - a[2], a[4])), x0, Max2(x0, Min2(X1(b) - a[1], a[3]))>>

(* ----- contract, from first principles on pixel sets ----- *)
Place(A, r) == <<r[4], r[3], A[1], A[2], A[1] * r[1] + A[2] * r[2] + A[3], A[4], A[5], A[4] * r[1] + A[5] * r[2] + A[6]>>
Contains(r, s) == IsEmpty(s) \/ (r[1] <= s[1] /\ r[2] <= s[2] /\ X1(s) <= X1(r) /\ Y1(s) <= Y1(r))
\* smallest rectangle containing all operands
IsMinimalCover(r, ops) == /\ \A i \in DOMAIN ops : Contains(r, ops[i])
                          /\ r[1] = SetMin({ops[i][1] : i \in DOMAIN ops}) /\ r[2] = SetMin({ops[i][2] : i \in DOMAIN ops})
                          /\ X1(r) = SetMax({X1(ops[i]) : i \in DOMAIN ops}) /\ Y1(r) = SetMax({Y1(ops[i]) : i \in DOMAIN ops})
Shared(ops) == {p \in Pixels(ops[1]) : \A i \in DOMAIN ops : p \in Pixels(ops[i])}
\* index set denoted by a roi <<y0, y1, x0, x1>> (python slices, may be negative / inverted) inside a (h, w) array, in grid coordinates
RoiPixels(roi, a) == {<<a[1] + x, a[2] + y>> : x \in IndexSet(Sl2(roi[3], roi[4]), a[3]), y \in IndexSet(Sl2(roi[1], roi[2]), a[4])}

\* design-level laws of the model (TLC, all pairs / triples of a window)
PairLaws(a, b) ==
  /\ Hull2(a, b) = Hull2(b, a) /\ IsMinimalCover(Hull2(a, b), <<a, b>>)
  /\ Pixels(Inter2(a, b)) = Pixels(a) \cap Pixels(b) /\ Pixels(Inter2(b, a)) = Pixels(Inter2(a, b))
  /\ RoiPixels(OverlapRoi(a, b), a) = Pixels(a) \cap Pixels(b)
TripleLaws(a, b, c) ==
  /\ Hull2(Hull2(a, b), c) = Hull2(a, Hull2(b, c)) /\ Hull2(Hull2(a, b), c) = HullN(<<a, b, c>>)
  /\ Pixels(Inter2(Inter2(a, b), c)) = Pixels(Inter2(a, Inter2(b, c)))
  /\ Pixels(Inter2(Inter2(a, b), c)) = Shared(<<a, b, c>>)

(* ----- when are two GeoBoxes on one grid?  b's pixel plane relative to a's: linear part m = <<m11, m12, m21, m22>> in halves
   (<<2, 0, 0, 2>> is the identity), translation t in 1/16 pixel.  Union / intersection / overlap_roi are defined only
   for the identity linear part and a whole-pixel translation; everything else must be refused (pixel_translation). ----- *)
SameGrid(m, t) == m = <<2, 0, 0, 2>> /\ t[1] % 16 = 0 /\ t[2] % 16 = 0
Halves == {-4, -2, -1, 0, 1, 2, 4}
LinMaps == {m \in Halves \X Halves \X Halves \X Halves : m[1] * m[4] - m[2] * m[3] # 0}

(* ----- bounding boxes <<l, b, r, t>>: product lattice (max on l, b; min on r, t) ----- *)
BLe(p, q) == p[1] >= q[1] /\ p[2] >= q[2] /\ p[3] <= q[3] /\ p[4] <= q[4]      \* p is contained in q
BJoin(p, q) == <<Min2(p[1], q[1]), Min2(p[2], q[2]), Max2(p[3], q[3]), Max2(p[4], q[4])>>
BMeet(p, q) == <<Max2(p[1], q[1]), Max2(p[2], q[2]), Min2(p[3], q[3]), Min2(p[4], q[4])>>
=============================================================================
