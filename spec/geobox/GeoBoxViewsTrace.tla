--------------------------- MODULE GeoBoxViewsTrace ---------------------------
(* C02 - verdicts on one real GeoBox operation: e.pre (model state, input), e.op, e.post = [h, w, A, crs_same]
   as observed (A on the DEN lattice), e.v = views of the result:
     extent  4 corner points * DEN (any order)        bbox   <<l, b, r, t>> * DEN
     xs, ys  <<>> or <<first, last, count>> labels * 2*DEN (axis aligned only)      res  <<>> or <<rx, ry>> * DEN
     p2w     pix2wld of the 4 corners * DEN            rt     wld2pix(pix2wld(corner)) * DEN                    *)
EXTENDS GeoBoxViews, TraceIO

SeqSet(q) == {q[i] : i \in DOMAIN q}
ViewsV(g, v, lin) ==       \* lin = FALSE for GCP boxes: the class offers no labels / resolution views
  LET P == CornerImgs(g) IN
  IF v.p2w # P THEN "pix2wld_is_not_the_affine_image"
  ELSE IF v.rt # [i \in 1..4 |-> <<Corners(g)[i][1] * DEN, Corners(g)[i][2] * DEN>>] THEN "wld2pix_is_not_the_inverse_of_pix2wld"
  ELSE IF SeqSet(v.extent) # SeqSet(P) THEN "footprint_is_not_the_image_of_the_pixel_rectangle"
  ELSE IF v.bbox # BBoxOf(g) THEN "bounding_box_is_not_the_image_of_the_pixel_rectangle"
  ELSE IF ~lin THEN (IF AxisAligned(g.A) /\ v.res # <<>> /\ v.res # <<g.A[1], g.A[5]>> THEN "resolution_is_not_the_pixel_size" ELSE "ok")     \* a GCP box offers a resolution, no labels
  ELSE IF AxisAligned(g.A) /\ v.xs # <<2 * g.A[3] + g.A[1], 2 * g.A[3] + g.A[1] + 2 * g.A[1] * (g.w - 1), g.w>> THEN "x_labels_are_not_pixel_centres"
  ELSE IF AxisAligned(g.A) /\ v.ys # <<2 * g.A[6] + g.A[5], 2 * g.A[6] + g.A[5] + 2 * g.A[5] * (g.h - 1), g.h>> THEN "y_labels_are_not_pixel_centres"
  ELSE IF AxisAligned(g.A) /\ v.res # <<g.A[1], g.A[5]>> THEN "resolution_is_not_the_pixel_size"
  ELSE IF ~AxisAligned(g.A) /\ v.xs # <<>> THEN "labels_offered_for_a_rotated_box"
  \* rotated / sheared box: resolution = (length of a pixel step along the columns, signed area of a pixel over it) - the rotation-shear-scale
  \* decomposition; checked where the numbers stay on the lattice and inside TLC's integers
  ELSE IF ~AxisAligned(g.A) /\ v.res # <<>> /\ (\A i \in {1, 2, 4, 5} : Abs(g.A[i]) < 30000) /\ Abs(v.res[1]) < 30000 /\ Abs(v.res[2]) < 30000
          /\ ~(v.res[1] > 0 /\ v.res[1] * v.res[1] = g.A[1] * g.A[1] + g.A[4] * g.A[4] /\ v.res[1] * v.res[2] = g.A[1] * g.A[5] - g.A[2] * g.A[4])
       THEN "resolution_of_a_rotated_box_is_not_its_pixel_size"
  ELSE "ok"
Verdict(e) ==
  LET eff == Eff(e.pre, e.op) IN
  IF e.outcome # "ok" THEN "reject:raised_" \o e.outcome
  ELSE IF ~Representable(e.pre, eff) THEN "skip"
  ELSE LET want == Apply(e.pre, eff) got == [h |-> e.post.h, w |-> e.post.w, A |-> e.post.A, crs |-> e.pre.crs] IN
       IF ~e.post.crs_same THEN "reject:crs_changed"
       ELSE IF e.post.h # want.h \/ e.post.w # want.w THEN "reject:" \o e.op.op \o "_shape_not_as_the_contract_prescribes"
       ELSE IF e.post.A # want.A THEN "reject:" \o e.op.op \o "_pixels_not_where_the_contract_prescribes"
       ELSE IF e.op.op \in Coverers /\ ~CoversOld(e.pre, eff) THEN "reject:" \o e.op.op \o "_does_not_cover_the_original"
       ELSE LET v == ViewsV(got, e.v, ~e.gcp) IN IF v # "ok" THEN "reject:" \o v ELSE "ok"
VARIABLE l
Init == l = 1
Next == l <= NEvents /\ PrintT(<<"V", l, Verdict(Events[l])>>) /\ l' = l + 1
Spec == Init /\ [][Next]_l
=============================================================================
