-------------------------------- MODULE GeomGen --------------------------------
(* C07 - geometry trees with lattice vertices, resolutions, CRS routes; design-level check of the densification model. *)
EXTENDS Densify, CaseIO
\* steps: vectors of integer length (axis directions, 3-4-5 and 5-12-13 families)
RECURSIVE Walk(_, _, _)
Walk(p, steps, m) == IF steps = <<>> THEN <<p>> ELSE <<p>> \o Walk(<<p[1] + m * Head(steps)[1], p[2] + m * Head(steps)[2]>>, Tail(steps), m)
Lines == [ a |-> <<<<30, 40>>, <<0, -20>>, <<-12, -5>>, <<-7, 0>>>>, b |-> <<<<0, 26>>, <<24, -10>>, <<-20, -15>>>>, c |-> <<<<-8, 6>>, <<5, 12>>>> ]
Rings == [ tri |-> <<<<30, 0>>, <<0, 40>>, <<-30, -40>>>>, rect |-> <<<<60, 0>>, <<0, 45>>, <<-60, 0>>, <<0, -45>>>>, hole |-> <<<<12, 0>>, <<0, 5>>, <<-12, -5>>>>,
           tall |-> <<<<0, 120>>, <<9, 0>>, <<0, -120>>, <<-9, 0>>>> ]
Off(o) == CASE o = "origin" -> <<0, 0>> [] o = "neg" -> <<-30, -40>> [] o = "far" -> <<1000, -2000>> [] o = "x0" -> <<0, 500>> [] o = "y0" -> <<-700, 0>>
\* a geometry description: [kind, parts] ; each part is [path |-> points, closed]
Sh(p, d) == <<p[1] + d[1], p[2] + d[2]>>
Geo(kind, o, m) ==
  LET p == Off(o) IN
  CASE kind = "point" -> <<<<"pt", <<p>>>>>>
    [] kind = "multipoint" -> <<<<"pt", <<p>>>>, <<"pt", <<Sh(p, <<5, 7>>)>>>>>>
    [] kind = "line" -> <<<<"ln", Walk(p, Lines.a, m)>>>>
    [] kind = "ring" -> <<<<"rg", Walk(p, Rings.tri, m)>>>>
    [] kind = "polygon" -> <<<<"ext", Walk(p, Rings.rect, m)>>>>
    [] kind = "tall" -> <<<<"ext", Walk(p, Rings.tall, m)>>>>
    [] kind = "polyhole" -> <<<<"ext", Walk(p, Rings.rect, m)>>, <<"hole", Walk(Sh(p, <<10 * m, 10 * m>>), Rings.hole, m)>>>>
    [] kind = "multiline" -> <<<<"ln", Walk(p, Lines.a, m)>>, <<"ln", Walk(Sh(p, <<3, 3>>), Lines.b, m)>>>>
    [] kind = "multipolygon" -> <<<<"ext", Walk(p, Rings.rect, m)>>, <<"ext", Walk(Sh(p, <<200, 0>>), Rings.tri, m)>>, <<"hole", Walk(Sh(p, <<205 * 1, 3>>), Rings.hole, 1)>>>>
    [] kind = "collection" -> <<<<"pt", <<p>>>>, <<"ln", Walk(p, Lines.c, m)>>, <<"ext", Walk(Sh(p, <<50, 50>>), Rings.tri, m)>>>>
    \* collections whose members all have ONE type stay collections (they are not the Multi* of that type); a collection nested in a collection
    [] kind = "collection_polys" -> <<<<"ext", Walk(p, Rings.rect, m)>>, <<"ext", Walk(Sh(p, <<200, 0>>), Rings.tri, m)>>>>
    [] kind = "collection_lines" -> <<<<"ln", Walk(p, Lines.a, m)>>, <<"ln", Walk(Sh(p, <<3, 3>>), Lines.b, m)>>>>
    [] kind = "collection_one" -> <<<<"ext", Walk(p, Rings.rect, m)>>>>
    [] kind = "collection_nested" -> <<<<"pt", <<p>>>>, <<"ext", Walk(p, Rings.rect, m)>>, <<"ext", Walk(Sh(p, <<200, 0>>), Rings.tri, m)>>>>
Kinds == {"point", "multipoint", "line", "ring", "polygon", "tall", "polyhole", "multiline", "multipolygon", "collection",
          "collection_polys", "collection_lines", "collection_one", "collection_nested"}
Offs == {"origin", "neg", "far", "x0", "y0"}
Ress == {1, 7, 10, 13, 20, 25, 50, 70, 200}
Cases(kind) == UNION { {[op |-> "segmented", kind |-> kind, off |-> o, m |-> m, r |-> r] : o \in Offs, m \in {1, 2}, r \in Ress},
                       {[op |-> op, kind |-> kind, off |-> o, m |-> 1, r |-> r] : op \in {"to_crs_family"}, o \in Offs, r \in {0, 7, 25}},
                       \* edges many thousand times longer than the resolution (m = 400: edges of 2800 .. 16000 units, r = 1 or 2): too many vertices to list,
                       \* the harness reports per path the number of vertices, the largest squared gap and whether all lie on the path in order
                       IF kind \in {"line", "polygon"} THEN {[op |-> "segmented_long", kind |-> kind, off |-> o, m |-> 400, r |-> r] : o \in {"origin", "far"}, r \in {1, 2}} ELSE {},
                       \* geographic to geographic (a datum change): a requested densification step is honoured like anywhere else
                       {[op |-> "to_crs_real", kind |-> kind, off |-> "origin", m |-> 1, r |-> r, pair |-> "4326>4258", prior |-> "none", wrap |-> FALSE] : r \in {0, 20, -1}},
                       \* the source's own CRS in another spelling: the SAME object comes back - also when a densification step (r > 0; -1: "auto") was asked for
                       {[op |-> op, kind |-> kind, off |-> o, m |-> 1, r |-> r] : op \in {"to_crs_same_spelling", "to_crs_no_crs"}, o \in {"origin", "far"}, r \in {0, 7, -1}},
                       \* prior: what the process did with this CRS pair before (the transformer cache is keyed by pair and axis-order flag;
                       \* to_crs must map vertices as the projection library does whatever was requested earlier)
                       \* r = -1: resolution "auto" (the library picks the densification step); fix: also asked to check-and-fix the (valid) result - nothing to fix
                       \* wrap: the dateline option is switched on for a geometry nowhere near the dateline (nothing to chop: the answer is that of the plain request,
                       \* densification included)
                       {[op |-> "to_crs_real", kind |-> kind, off |-> o, m |-> 1, r |-> r, pair |-> pr, prior |-> pz, wrap |-> wp] : o \in {"origin", "neg"}, r \in {0, 20, -1}, wp \in BOOLEAN,
                           pz \in {"none", "authority_axis_order_transformer_first"},
                           pr \in {"4326>3857", "3857>4326", "32633>4326", "4326>3035", "3035>32633", "6933>4326"}} }
VARIABLE c
Init == c \in {[k |-> kd] : kd \in Kinds}
Next == "k" \in DOMAIN c /\ c' \in {x @@ [geo |-> Geo(x.kind, x.off, x.m)] : x \in Cases(c.k)} /\ Emit(c')
Spec == Init /\ [][Next]_c
\* design level: the densification model satisfies the contract on every path of every geometry of the family
Scaled(path) == [i \in DOMAIN path |-> <<path[i][1] * S, path[i][2] * S>>]
ModelOK == ("op" \in DOMAIN c /\ c.op = "segmented") =>
   \A k \in DOMAIN Geo(c.kind, c.off, c.m) : LET path == Scaled(Geo(c.kind, c.off, c.m)[k][2]) IN PathOK(path, DensifyModel(path, c.r), c.r) = "ok"
=============================================================================
