-------------------------------- MODULE Densify --------------------------------
(* C07 - densification and reprojection of geometries (odc/geo/geom.py densify / segmented / to_crs).

   Coordinates are integers over S = 65 (edges run along the axes or along 3-4-5 / 5-12-13 directions with integer
   length, so every point at an integer distance along an edge is on the lattice).  A geometry is flattened by the
   harness into its paths (sequences of points, in traversal order) plus a structure signature.             *)
EXTENDS IntMath, Sequences, FiniteSets, TLC

S == 65
Sub(p, q) == <<p[1] - q[1], p[2] - q[2]>>
Dot(p, q) == p[1] * q[1] + p[2] * q[2]
Cross(p, q) == p[1] * q[2] - p[2] * q[1]
Len2(p) == Dot(p, p)

(* ---- model: points at multiples of the resolution r (integer, world units) from the start of each edge longer than r ---- *)
\* edge a -> b (over S) has integer length L (world units) given by the harness-independent lattice construction: L = ISqrt(Len2)/S
RECURSIVE Newton(_, _)
Newton(n, x) == LET y == (x + n \div x) \div 2 IN IF y >= x THEN x ELSE Newton(n, y)
ISqrt(n) == IF n = 0 THEN 0 ELSE Newton(n, n)
EdgeLen(a, b) == ISqrt(Len2(Sub(b, a))) \div S
RECURSIVE EdgePts(_, _, _, _, _)
EdgePts(a, b, L, r, d) == IF d >= L THEN <<>> ELSE <<<<a[1] + ((b[1] - a[1]) * d) \div L, a[2] + ((b[2] - a[2]) * d) \div L>>>> \o EdgePts(a, b, L, r, d + r)
RECURSIVE DensifyModel(_, _)
DensifyModel(path, r) == IF Len(path) <= 1 THEN path
                         ELSE LET a == path[1] b == path[2] L == EdgeLen(a, b) IN
                              <<a>> \o (IF L > r THEN EdgePts(a, b, L, r, r) ELSE <<>>) \o DensifyModel(Tail(path), r)

(* ---- contract ---- *)
\* index in `out` (from position k on) of the first point equal to p, 0 if none
RECURSIVE Find(_, _, _)
Find(out, p, k) == IF k > Len(out) THEN 0 ELSE IF out[k] = p THEN k ELSE Find(out, p, k + 1)
\* positions of the original vertices inside the output, in order (0 marks failure)
RECURSIVE Positions(_, _, _)
Positions(inp, out, k) == IF inp = <<>> THEN <<>>
                          ELSE LET j == Find(out, Head(inp), k) IN IF j = 0 THEN <<0>> ELSE <<j>> \o Positions(Tail(inp), out, j + 1)
OnEdgeInOrder(a, b, pts) ==    \* pts strictly inside the segment a-b, in increasing order along it
  /\ \A i \in DOMAIN pts : Cross(Sub(pts[i], a), Sub(b, a)) = 0 /\ 0 < Dot(Sub(pts[i], a), Sub(b, a)) /\ Dot(Sub(pts[i], a), Sub(b, a)) < Len2(Sub(b, a))
  /\ \A i \in 1..(Len(pts) - 1) : Dot(Sub(pts[i], a), Sub(b, a)) < Dot(Sub(pts[i + 1], a), Sub(b, a))
PathOK(inp, out, r) ==
  LET pos == Positions(inp, out, 1) IN
  IF Len(inp) = 0 THEN (IF out # <<>> THEN "points_invented" ELSE "ok")
  ELSE IF \E i \in DOMAIN pos : pos[i] = 0 THEN "original_vertex_lost_or_out_of_order"
  ELSE IF pos[1] # 1 \/ pos[Len(pos)] # Len(out) THEN "path_does_not_start_and_end_at_the_original_ends"
  ELSE IF \E i \in 1..(Len(inp) - 1) : ~OnEdgeInOrder(inp[i], inp[i + 1], SubSeq(out, pos[i] + 1, pos[i + 1] - 1)) THEN "added_vertex_not_on_its_original_edge_in_order"
  ELSE IF \E i \in 1..(Len(out) - 1) : Len2(Sub(out[i + 1], out[i])) > r * r * S * S THEN "edge_longer_than_resolution"
  ELSE "ok"
RECURSIVE FirstBadPath(_, _, _, _)
FirstBadPath(ins, outs, r, k) == IF k > Len(ins) THEN "ok" ELSE LET v == PathOK(ins[k], outs[k], r) IN IF v # "ok" THEN v ELSE FirstBadPath(ins, outs, r, k + 1)
\* whole-geometry verdicts
SegmentedOK(e) == IF e.sig_out # e.sig_in THEN "geometry_type_or_part_structure_changed"
                  ELSE IF Len(e.out) # Len(e.inp) THEN "number_of_rings_or_parts_changed"
                  ELSE FirstBadPath(e.inp, e.out, e.r, 1)
\* to_crs within the exact-translation CRS family: every vertex moves by exactly the translation t (over S), structure and order preserved
Shifted(path, t) == [i \in DOMAIN path |-> <<path[i][1] + t[1], path[i][2] + t[2]>>]
ToCrsOK(e) == IF e.sig_out # e.sig_in THEN "geometry_type_or_part_structure_changed"
              ELSE IF Len(e.out) # Len(e.inp) THEN "number_of_rings_or_parts_changed"
              ELSE IF e.r = 0 THEN (IF \E k \in DOMAIN e.inp : e.out[k] # Shifted(e.inp[k], e.t) THEN "vertex_not_mapped_as_the_projection_maps_it_or_order_changed" ELSE "ok")
              ELSE FirstBadPath([k \in DOMAIN e.inp |-> Shifted(e.inp[k], e.t)], e.out, e.r, 1)          \* densified in source units, then mapped
=============================================================================
