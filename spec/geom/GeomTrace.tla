-------------------------------- MODULE GeomTrace --------------------------------
EXTENDS Densify, TraceIO
RECURSIVE ModelPaths(_, _)
ModelPaths(ins, r) == IF ins = <<>> THEN <<>> ELSE <<DensifyModel(Head(ins), r)>> \o ModelPaths(Tail(ins), r)
Verdict(e) ==
  IF e.c.op = "to_crs_no_crs" THEN (IF e.outcome = "ValueError" THEN "ok" ELSE "reject:geometry_without_crs_not_refused")
  ELSE IF e.outcome # "ok" THEN "reject:raised_" \o e.outcome
  ELSE IF e.c.op = "to_crs_same_spelling" THEN (IF e.same_object THEN "ok" ELSE "reject:already_in_target_crs_but_not_returned_unchanged")
  ELSE IF e.c.op = "segmented" THEN (LET v == SegmentedOK(e) IN IF v # "ok" THEN "reject:" \o v
                                     ELSE IF ~e.type_area_length_ok THEN "reject:type_area_or_length_changed"
                                     ELSE IF e.out # ModelPaths(e.inp, e.r) THEN "drift:differs_from_densification_model" ELSE "ok")
  ELSE IF e.c.op = "to_crs_family" THEN (LET v == ToCrsOK(e) IN IF v # "ok" THEN "reject:" \o v ELSE IF ~e.crs_ok THEN "reject:result_not_in_the_target_crs" ELSE "ok")
  ELSE \* real EPSG pairs: structure decided here, vertex images against the logged pyproj oracle
       IF e.sig_out # e.sig_in THEN "reject:geometry_type_or_part_structure_changed"
       ELSE IF ~e.fwd_ok THEN "reject:vertex_not_mapped_as_the_projection_library_maps_it"
       ELSE IF ~e.back_ok THEN "reject:there_and_back_does_not_return_the_original"
       ELSE IF ~e.crs_ok THEN "reject:result_not_in_the_target_crs"
       ELSE IF e.c.r > 0 /\ ~e.edges_ok THEN "reject:edge_longer_than_resolution_before_projection"
       ELSE "ok"
VARIABLE l
Init == l = 1
Next == l <= NEvents /\ PrintT(<<"V", l, Verdict(Events[l])>>) /\ l' = l + 1
Spec == Init /\ [][Next]_l
=============================================================================
