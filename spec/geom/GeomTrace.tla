-------------------------------- MODULE GeomTrace --------------------------------
EXTENDS Densify, TraceIO
RECURSIVE ModelPaths(_, _)
ModelPaths(ins, r) == IF ins = <<>> THEN <<>> ELSE <<DensifyModel(Head(ins), r)>> \o ModelPaths(Tail(ins), r)
\* number of vertices the model puts on a path: the original ones plus ceil(L / r) - 1 on every edge of length L > r
\* (edge lengths in world units are logged: their squares over S do not fit TLC's integers)
RECURSIVE LongCount(_, _)
LongCount(lens, r) == IF lens = <<>> THEN 1
                      ELSE LET L == Head(lens) IN 1 + (IF L > r THEN (L + r - 1) \div r - 1 ELSE 0) + LongCount(Tail(lens), r)
Verdict(e) ==
  IF e.c.op = "to_crs_no_crs" THEN (IF e.outcome = "ValueError" THEN "ok" ELSE "reject:geometry_without_crs_not_refused")
  ELSE IF e.outcome # "ok" THEN "reject:raised_" \o e.outcome
  ELSE IF e.c.op = "to_crs_same_spelling" THEN (IF e.same_object THEN "ok" ELSE "reject:already_in_target_crs_but_not_returned_unchanged")
  ELSE IF e.c.op = "segmented" THEN (LET v == SegmentedOK(e) IN IF v # "ok" THEN "reject:" \o v
                                     ELSE IF ~e.type_area_length_ok THEN "reject:type_area_or_length_changed"
                                     ELSE IF e.out # ModelPaths(e.inp, e.r) THEN "drift:differs_from_densification_model" ELSE "ok")
  ELSE IF e.c.op = "segmented_long" THEN
       (IF e.sig_out # e.sig_in THEN "reject:geometry_type_or_part_structure_changed"
        ELSE IF Len(e.long) # Len(e.inp) THEN "reject:number_of_rings_or_parts_changed"
        ELSE IF \E k \in DOMAIN e.long : ~e.long[k].on_path_in_order THEN "reject:added_vertex_not_on_its_original_edge_in_order"
        ELSE IF \E k \in DOMAIN e.long : e.long[k].maxgap2 > e.r * e.r * S * S THEN "reject:edge_longer_than_resolution"
        ELSE IF ~e.type_area_length_ok THEN "reject:type_area_or_length_changed"
        ELSE IF \E k \in DOMAIN e.long : e.long[k].n # LongCount(e.long[k].lens, e.r) THEN "drift:differs_from_densification_model"
        ELSE "ok")
  ELSE IF e.c.op = "to_crs_family" THEN (LET v == ToCrsOK(e) IN IF v # "ok" THEN "reject:" \o v ELSE IF ~e.crs_ok THEN "reject:result_not_in_the_target_crs" ELSE "ok")
  ELSE \* real EPSG pairs: structure decided here, vertex images against the logged pyproj oracle
       IF e.sig_out # e.sig_in THEN "reject:geometry_type_or_part_structure_changed"
       ELSE IF ~e.fwd_ok THEN "reject:vertex_not_mapped_as_the_projection_library_maps_it"
       ELSE IF ~e.back_ok THEN "reject:there_and_back_does_not_return_the_original"
       ELSE IF ~e.crs_ok THEN "reject:result_not_in_the_target_crs"
       ELSE IF e.c.r > 0 /\ ~e.edges_ok THEN "reject:edge_longer_than_resolution_before_projection"
       ELSE "ok"
VARIABLE l
Init == l = 1
Next == l <= NEvents /\ PrintT(<<"V", l, Verdict(Events[l])>>) /\ l' = l + 1
Spec == Init /\ [][Next]_l
=============================================================================
