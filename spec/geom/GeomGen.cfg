SPECIFICATION Spec
INVARIANT ModelOK
