----------------------------- MODULE GridSpecTrace -----------------------------
(* C14 - verdicts on tables logged from the real GridSpec.  Tile geoboxes are <<h, w, rx, tx, ry, ty>> in
   quarter units; a table is a sequence of [i |-> <<ix, iy>>, t |-> geobox].                              *)
EXTENDS GridSpec, TraceIO

FootTab(q) == [i \in {q[k].i : k \in DOMAIN q} |-> Foot(q[CHOOSE k \in DOMAIN q : q[k].i = i].t)]
SpecV(e) ==
  LET g == e.c.g F == FootTab(e.tiles) W == DOMAIN F IN
  IF \E k \in DOMAIN e.tiles : LET t == e.tiles[k].t IN ~(t[1] = g.ny /\ t[2] = g.nx /\ t[3] = g.rx /\ t[5] = g.ry) THEN "reject:tile_geobox_has_wrong_shape_or_resolution"
  ELSE IF e.tiles # e.tiles2 THEN "reject:getitem_and_tile_geobox_disagree"
  ELSE IF PartitionOK(F, W) # "ok" THEN "reject:" \o PartitionOK(F, W)
  ELSE IF \E k \in DOMAIN e.pts : ~InRect(Foot(e.pts[k].t), e.pts[k].p[1], e.pts[k].p[2]) THEN "reject:point_not_in_the_tile_lookup_returns"
  ELSE IF \E k \in DOMAIN e.tiles : e.tiles[k].t # TileGeoBox(g, e.tiles[k].i[1], e.tiles[k].i[2]) THEN "drift:tile_geobox_differs_from_model"
  ELSE IF \E k \in DOMAIN e.pts : e.pts[k].i # PtIdx(g, e.pts[k].p[1], e.pts[k].p[2]) THEN "drift:point_lookup_differs_from_model"
  ELSE "ok"
Returned(e) == {e.out[k] : k \in DOMAIN e.out}
RectsMeet(a, b) == a[1] <= b[3] /\ b[1] <= a[3] /\ a[2] <= b[4] /\ b[2] <= a[4]        \* closed rectangles intersect (touching counts)
BBoxV(e) ==
  LET F == FootTab(e.foot) got == Returned(e)
      \* a box grown by 1.5e-8 on every side overlaps exactly the tiles the given (lattice) box meets
      Hit(i) == IF e.c.grow > 0 THEN RectsMeet(F[i], e.c.q) ELSE RectsOverlap(F[i], e.c.q) IN
  IF Len(e.out) # Cardinality(got) THEN "reject:tile_returned_twice"
  ELSE IF ~(got \subseteq DOMAIN F) THEN "reject:harness_window_too_small"
  ELSE IF \E i \in DOMAIN F : Hit(i) /\ i \notin got THEN "reject:overlapping_tile_not_returned"
  ELSE IF \E i \in got : ~Hit(i) THEN "reject:returned_tile_does_not_overlap_the_query"
  ELSE "ok"
MPolyV(e) ==
  LET F == FootTab(e.foot) got == Returned(e) P(i) == RectPoly(F[i][1], F[i][2], F[i][3], F[i][4]) IN
  IF Len(e.out) # Cardinality(got) THEN "reject:tile_returned_twice"
  ELSE IF ~(got \subseteq DOMAIN F) THEN "reject:harness_window_too_small"
  ELSE IF \E i \in DOMAIN F : (\E k \in DOMAIN e.c.q : InteriorOverlap(P(i), e.c.q[k])) /\ i \notin got THEN "reject:overlapping_tile_not_returned"
  ELSE IF \E i \in got : \A k \in DOMAIN e.c.q : StrictlyDisjoint(P(i), e.c.q[k]) THEN "reject:returned_tile_is_disjoint_from_the_query"
  ELSE "ok"
\* a polygon far smaller than a pixel around a point strictly inside one tile: exactly that tile
TinyV(e) ==
  LET F == FootTab(e.foot) got == Returned(e) p == e.c.p
      Inside(i) == F[i][1] < p[1] /\ p[1] < F[i][3] /\ F[i][2] < p[2] /\ p[2] < F[i][4] IN
  IF Len(e.out) # Cardinality(got) THEN "reject:tile_returned_twice"
  ELSE IF ~(got \subseteq DOMAIN F) THEN "reject:harness_window_too_small"
  ELSE IF \E i \in DOMAIN F : Inside(i) /\ i \notin got THEN "reject:overlapping_tile_not_returned"
  ELSE IF \E i \in got : ~Inside(i) THEN "reject:returned_tile_does_not_overlap_the_query"
  ELSE IF ~\E i \in DOMAIN F : Inside(i) THEN "reject:harness_window_too_small"
  ELSE "ok"
PolyV(e) ==
  LET F == FootTab(e.foot) got == Returned(e) P(i) == RectPoly(F[i][1], F[i][2], F[i][3], F[i][4]) IN
  IF Len(e.out) # Cardinality(got) THEN "reject:tile_returned_twice"
  ELSE IF ~(got \subseteq DOMAIN F) THEN "reject:harness_window_too_small"
  ELSE IF \E i \in DOMAIN F : InteriorOverlap(P(i), e.c.q) /\ i \notin got THEN "reject:overlapping_tile_not_returned"
  ELSE IF \E i \in got : StrictlyDisjoint(P(i), e.c.q) THEN "reject:returned_tile_is_disjoint_from_the_query"
  ELSE "ok"
SampleV(e) == IF FootTab(e.tiles) # FootTab(e.rebuilt) THEN "reject:grid_rebuilt_from_sample_tile_has_other_footprints"
              ELSE IF \E k \in DOMAIN e.rebuilt : (e.rebuilt[k].t[1] # e.c.g.ny \/ e.rebuilt[k].t[2] # e.c.g.nx) THEN "reject:rebuilt_grid_has_another_tile_shape" ELSE "ok"
\* web tiles: e.tiles = sequence of <<ix, iy, x0, ytop0, x1, ytop1>> normalised so that one tile is one unit, origin top-left
RECURSIVE P2(_)
P2(z) == IF z = 0 THEN 1 ELSE 2 * P2(z - 1)
WebV(e) == IF \E k \in DOMAIN e.tiles : LET t == e.tiles[k] IN ~(t[3] = t[1] /\ t[5] = t[1] + 1 /\ t[4] = t[2] /\ t[6] = t[2] + 1) THEN "reject:web_tile_extent_is_not_the_slippy_map_extent"
           ELSE IF e.corners # <<0, 0, P2(e.c.z) - 1, P2(e.c.z) - 1>> THEN "reject:not_2^z_tiles_per_side"
           ELSE IF e.npix # <<256, 256>> THEN "reject:web_tile_shape" ELSE "ok"
Verdict(e) == IF e.outcome # "ok" THEN "reject:raised_" \o e.outcome
              ELSE CASE e.c.op = "spec" -> SpecV(e) [] e.c.op = "bbox" -> BBoxV(e) [] e.c.op = "poly" -> PolyV(e) [] e.c.op = "mpoly" -> MPolyV(e) [] e.c.op = "tinypoly" -> TinyV(e)
                     [] e.c.op = "sample" -> SampleV(e) [] e.c.op = "web" -> WebV(e)
VARIABLE l
Init == l = 1
Next == l <= NEvents /\ PrintT(<<"V", l, Verdict(Events[l])>>) /\ l' = l + 1
Spec == Init /\ [][Next]_l
=============================================================================
