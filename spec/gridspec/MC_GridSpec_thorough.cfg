SPECIFICATION Spec
CONSTANTS
  Shapes = {"1x1", "2x3", "3x2"}
  RXs = {"p1", "mh", "p2", "m1"}
  RYs = {"m1", "ph", "m2", "p1"}
INVARIANT GridModelOK
