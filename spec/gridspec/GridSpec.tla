-------------------------------- MODULE GridSpec --------------------------------
(* C14 - a GridSpec tiles the plane (odc/geo/gridspec.py, odc/geo/math.py Bin1D).
   World coordinates are integers in quarter units (x4 = 4*x); a grid spec is
     [ny, nx   tile shape in pixels        rx, ry  resolution (quarter units per pixel, either sign)
      ox, oy   origin                      fx, fy  index direction flipped ]                       *)
EXTENDS IntMath, Convex, TLC

TsX(g) == g.nx * Abs(g.rx)
TsY(g) == g.ny * Abs(g.ry)
\* Bin1D(sz, origin, direction): interval of bin i, bin of a coordinate
BinLo(sz, o, dir, i) == i * sz * dir + o
BinOf(sz, o, dir, x) == dir * FloorDiv(x - o, sz)
DirX(g) == IF g.fx THEN -1 ELSE 1
DirY(g) == IF g.fy THEN -1 ELSE 1
\* footprint of tile (ix, iy) as <<x0, y0, x1, y1>>
TileRect(g, ix, iy) == LET x0 == BinLo(TsX(g), g.ox, DirX(g), ix) y0 == BinLo(TsY(g), g.oy, DirY(g), iy) IN <<x0, y0, x0 + TsX(g), y0 + TsY(g)>>
PtIdx(g, x, y) == <<BinOf(TsX(g), g.ox, DirX(g), x), BinOf(TsY(g), g.oy, DirY(g), y)>>
\* tile geobox: <<h, w, rx, tx, ry, ty>> (axis aligned affine), origin corner chosen by resolution sign
TileGeoBox(g, ix, iy) == LET r == TileRect(g, ix, iy) IN
   <<g.ny, g.nx, g.rx, IF g.rx > 0 THEN r[1] ELSE r[3], g.ry, IF g.ry > 0 THEN r[2] ELSE r[4]>>
\* footprint of a logged geobox <<h, w, rx, tx, ry, ty>>
Foot(t) == <<Min2(t[4], t[4] + t[2] * t[3]), Min2(t[6], t[6] + t[1] * t[5]), Max2(t[4], t[4] + t[2] * t[3]), Max2(t[6], t[6] + t[1] * t[5])>>

RectsOverlap(a, b) == a[1] < b[3] /\ b[1] < a[3] /\ a[2] < b[4] /\ b[2] < a[4]        \* positive area
RectsApart(a, b) == a[3] < b[1] \/ b[3] < a[1] \/ a[4] < b[2] \/ b[4] < a[2]           \* closed sets disjoint
InRect(r, x, y) == r[1] <= x /\ x < r[3] /\ r[2] <= y /\ y < r[4]                      \* half open

\* ---- contract on a table of footprints F : index -> rect, over the index window W
PartitionOK(F, W) ==
  IF \E i, j \in W : i # j /\ RectsOverlap(F[i], F[j]) THEN "tile_interiors_overlap"
  ELSE IF \E i \in W : <<i[1] + 1, i[2]>> \in W /\ ~(LET a == F[i] b == F[<<i[1] + 1, i[2]>>] IN
              a[2] = b[2] /\ a[4] = b[4] /\ (a[3] = b[1] \/ b[3] = a[1])) THEN "x_neighbours_do_not_share_their_edge"
  ELSE IF \E i \in W : <<i[1], i[2] + 1>> \in W /\ ~(LET a == F[i] b == F[<<i[1], i[2] + 1>>] IN
              a[1] = b[1] /\ a[3] = b[3] /\ (a[4] = b[2] \/ b[4] = a[2])) THEN "y_neighbours_do_not_share_their_edge"
  ELSE "ok"
\* design-level: the model satisfies the contract
Win(k) == {<<ix, iy>> : ix \in (-k)..k, iy \in (-k)..k}
ModelOK(g) == LET F == [i \in Win(2) |-> TileRect(g, i[1], i[2])] IN
  /\ PartitionOK(F, Win(2)) = "ok"
  /\ \A i \in Win(2) : Foot(TileGeoBox(g, i[1], i[2])) = F[i]
  /\ \A x \in (g.ox - 2 * TsX(g))..(g.ox + 2 * TsX(g)) : \A y \in {g.oy - TsY(g), g.oy, g.oy + 1, g.oy + TsY(g) - 1} :
        InRect(TileRect(g, PtIdx(g, x, y)[1], PtIdx(g, x, y)[2]), x, y)
=============================================================================
