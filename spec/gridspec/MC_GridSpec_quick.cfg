SPECIFICATION Spec
CONSTANTS
  Shapes = {"1x1", "2x3"}
  RXs = {"p1", "mh", "p2"}
  RYs = {"m1", "ph"}
INVARIANT GridModelOK
