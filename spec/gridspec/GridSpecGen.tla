------------------------------ MODULE GridSpecGen ------------------------------
EXTENDS GridSpec, CaseIO
CONSTANTS Shapes, RXs, RYs
Shape(s) == CASE s = "1x1" -> <<1, 1>> [] s = "2x3" -> <<2, 3>> [] s = "3x2" -> <<3, 2>>
Rx(s) == CASE s = "p1" -> 4 [] s = "mh" -> -2 [] s = "p2" -> 8 [] s = "m1" -> -4
Ry(s) == CASE s = "m1" -> -4 [] s = "ph" -> 2 [] s = "m2" -> -8 [] s = "p1" -> 4
Specs == {[ny |-> Shape(s)[1], nx |-> Shape(s)[2], rx |-> Rx(a), ry |-> Ry(b), ox |-> ox, oy |-> oy, fx |-> fx, fy |-> fy] :
            s \in Shapes, a \in RXs, b \in RYs, ox \in {0, 2, -6}, oy \in {0, -6}, fx \in BOOLEAN, fy \in BOOLEAN}
\* query boxes relative to the tile size (half tiles, quarter-unit jitter on both sides of tile edges)
QBoxes(g) == LET hx == TsX(g) \div 2 hy == TsY(g) \div 2 IN
  {<<x0, y0, x0 + w, y0 + h>> : x0 \in {g.ox + a * hx + j : a \in {-3, -1, 0, 2}, j \in {-1, 0, 1}}, y0 \in {g.oy + a * hy + j : a \in {-2, 0, 1}, j \in {0, 1}},
                                w \in {hx, 2 * hx + 1, 4 * hx}, h \in {2 * hy, 3 * hy + 1}}
QPolys(g) == LET tx == TsX(g) ty == TsY(g) IN
  { <<<<g.ox + a, g.oy + b>>, <<g.ox + a + 2 * tx, g.oy + b>>, <<g.ox + a, g.oy + b + 2 * ty>>>> : a \in {-tx, 0, 1}, b \in {-ty - 1, 0} }         \* triangles
  \cup { <<<<g.ox + a, g.oy>>, <<g.ox + a + tx, g.oy + ty>>, <<g.ox + a, g.oy + 2 * ty>>, <<g.ox + a - tx, g.oy + ty>>>> : a \in {0, 1, tx} }        \* diamonds
\* geometries of several parts: two squares of a quarter tile in one row of tiles / one column / on a diagonal, with whole untouched tiles in between
QMPolys(g) == LET tx == TsX(g) ty == TsY(g) Sq(x, y) == <<<<x, y>>, <<x + 1, y>>, <<x + 1, y + 1>>, <<x, y + 1>>>> IN
  ({ <<Sq(g.ox + 1, g.oy + 1), Sq(g.ox + 1 + dx * tx, g.oy + 1 + dy * ty)>> : dx \in {0, 3, -2}, dy \in {0, 2, -3} } \ { <<Sq(g.ox + 1, g.oy + 1), Sq(g.ox + 1, g.oy + 1)>> })
  \* a triangle over 3 x 3 tiles and a small square inside the tile in the EMPTY corner of the triangle's bounding box (that tile overlaps one part only), both part orders
  \cup (LET Tri == <<<<g.ox + 1, g.oy + 1>>, <<g.ox + 3 * tx - 1, g.oy + 1>>, <<g.ox + 1, g.oy + 3 * ty - 1>>>> IN
        { <<Tri, Sq(g.ox + 2 * tx, g.oy + 2 * ty)>>, <<Sq(g.ox + 2 * tx, g.oy + 2 * ty), Tri>> })
CasesFor(g) == UNION { {[op |-> "spec", g |-> g]},
                       \* grow: the box is enlarged by grow * 1e-9 units on every side (0: as given; 15: 1.5e-8 - more than the 1e-8 edge-contact allowance, whatever
                       \* the pixel size: every tile the given box touches is then really overlapped)
                       {[op |-> "bbox", g |-> g, q |-> q, grow |-> 0] : q \in QBoxes(g)},
                       {[op |-> "bbox", g |-> g, q |-> <<g.ox + a * TsX(g), g.oy + b * TsY(g), g.ox + (a + w) * TsX(g), g.oy + (b + h) * TsY(g)>>, grow |-> 15] :
                            a \in {-2, 0, 1}, b \in {-1, 0}, w \in {1, 2}, h \in {1, 3}},
                       {[op |-> "mpoly", g |-> g, q |-> q, crs |-> "same"] : q \in QMPolys(g)},
                       \* polygons far smaller than a pixel (the harness builds a square of side 5e-5 units around p): p strictly inside a tile, near its centre / corner
                       {[op |-> "tinypoly", g |-> g, p |-> <<g.ox + a * TsX(g) + dx, g.oy + b * TsY(g) + dy>>] :
                            a \in {-2, 0, 1}, b \in {-1, 0, 2}, dx \in {1, TsX(g) \div 2, TsX(g) - 1}, dy \in {1, TsY(g) - 1}},
                       {[op |-> "poly", g |-> g, q |-> q, crs |-> cm] : q \in QPolys(g), cm \in {"same", "other"}},
                       {[op |-> "sample", g |-> g, idx |-> i] : i \in {<<0, 0>>, <<2, -1>>, <<-3, 1>>}} }
VARIABLE c
Init == c \in {[op |-> "chunk", g |-> g] : g \in Specs} \cup {[op |-> "chunk", g |-> [web |-> TRUE]]}
Next == c.op = "chunk" /\ c' \in (IF "web" \in DOMAIN c.g THEN {[op |-> "web", z |-> z] : z \in 0..5} ELSE CasesFor(c.g)) /\ Emit(c')
Spec == Init /\ [][Next]_c
GridModelOK == (c.op = "chunk" /\ "web" \notin DOMAIN c.g) => ModelOK(c.g)
=============================================================================
