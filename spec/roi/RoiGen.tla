------------------------------- MODULE RoiGen -------------------------------
(* C17 - the explored case domain (single source of truth), the design-level model
   check over it, and emission of the cases for execution on the real code.

   TLC notes: big explicit sets are never joined with \cup (quadratic in TLC) and never
   defined as zero-arity constants (TLC pre-evaluates those once per worker); the domain
   is a family of lazily enumerated chunks CasesFor(op, n).                           *)
EXTENDS RoiOps, CaseIO

CONSTANTS K,          \* offsets range over -K..K
          Ns,         \* array lengths
          NsPair,     \* array lengths for pair operations
          Pads, Scales

Ints == {[int |-> i] : i \in (-K)..K}
PlainSlices == {Sl(a, b, <<>>) : a \in Opt((-K)..K), b \in Opt((-K)..K)}
SteppedSlices == {Sl(a, b, <<st>>) : a \in Opt({-K, -2, 0, 1, K - 1}), b \in Opt({-K, -1, 0, 2, K}), st \in {1, 2, 3}}
NonNegSlices == UNION {{Sl(a, b, <<>>) : a \in Opt(0..K), b \in {<<v>> : v \in 0..K}}, {[int |-> i] : i \in 0..K}}
ClosedSlices == {Sl(<<a>>, <<b>>, <<>>) : a \in 0..K, b \in 0..K}
\* reduced sets used for the extra axes of N-d tuples (the code treats axes independently)
FewSlices == {Sl(<<>>, <<>>, <<>>), Sl(<<1>>, <<-1>>, <<>>), Sl(<<-K>>, <<K - 1>>, <<>>), Sl(<<2>>, <<>>, <<2>>), [int |-> -1], [int |-> 0]}
FewNonNeg == {Sl(<<>>, <<K - 1>>, <<>>), Sl(<<1>>, <<2>>, <<>>), Sl(<<0>>, <<K>>, <<>>), Sl(<<K>>, <<1>>, <<>>), [int |-> 1]}
FewClosed == {Sl2(0, K - 1), Sl2(1, 2), Sl2(0, K), Sl2(2, 2)}

Ops == {"norm", "int3", "inter", "shape", "empty", "full", "center", "pad", "scale", "pts", "normN", "pairN", "queryN", "padN", "scaleN"}
ChunkNs(op) == CASE op \in {"int3", "inter"} -> NsPair
                 [] op = "scale" -> {0, K - 1, K, 2 * K}
                 [] op = "pts" -> {2, 5}
                 [] op \in {"normN", "pairN", "queryN", "padN", "scaleN"} -> {K - 1, K + 1}
                 [] OTHER -> Ns

Ax(s, n) == [s |-> s, n |-> n]
AxP(a, b, n) == [a |-> a, b |-> b, n |-> n]

(* roi_from_points: rich coordinate set on one axis, small on the other, roles swapped by `swap` *)
Rich(n) == {<<"f", v>> : v \in {-5, -1, 0, 1, 3, 4, 2 * n - 1, 2 * n, 2 * n + 1, 2 * n + 6}}
           \cup {<<"nan", 0>>, <<"pinf", 0>>, <<"ninf", 0>>, <<"hugepos", 0>>, <<"hugeneg", 0>>}
Small == {<<"f", 1>>, <<"f", 3>>, <<"nan", 0>>, <<"hugepos", 0>>}
Pt(r, s, swap) == IF swap THEN [x |-> s, y |-> r] ELSE [x |-> r, y |-> s]
PtsCase(n, sw, p, al, pts) == [op |-> "pts", ny |-> IF sw THEN n ELSE 3, nx |-> IF sw THEN 3 ELSE n, pad |-> p, align |-> al, pts |-> pts]
Pts1(n) == {PtsCase(n, sw, p, al, <<Pt(r1, s1, sw)>>) :
              sw \in BOOLEAN, p \in {0, 1, 2}, al \in {<<>>, <<2>>, <<4>>}, r1 \in Rich(n), s1 \in Small}
Pts2(n) == {PtsCase(n, sw, p, al, <<Pt(r1, s1, sw), Pt(r2, <<"f", 3>>, sw)>>) :
              sw \in BOOLEAN, p \in {0, 2}, al \in {<<>>, <<4>>}, r1 \in Rich(n), r2 \in Rich(n), s1 \in Small}
Pts3(n) == {PtsCase(n, FALSE, p, al, <<Pt(r1, <<"f", 1>>, FALSE), Pt(r2, s1, FALSE), Pt(<<"f", 4>>, <<"f", 5>>, FALSE)>>) :
              p \in {0, 1}, al \in {<<>>, <<2>>}, r1 \in Rich(n), r2 \in Rich(n), s1 \in Small}

CasesFor(op, n) ==
  CASE op = "norm" -> {[op |-> "norm", axes |-> <<Ax(s, n)>>] : s \in UNION {PlainSlices, SteppedSlices, Ints}}
    [] op \in {"int3", "inter"} -> {[op |-> op, axes |-> <<AxP(a, b, n)>>] : a \in NonNegSlices, b \in NonNegSlices}
    [] op \in {"shape", "empty", "center"} -> {[op |-> op, axes |-> <<Ax(s, n)>>] : s \in NonNegSlices}
    [] op = "full" -> {[op |-> op, axes |-> <<Ax(s, n)>>] : s \in UNION {NonNegSlices, {Sl(<<>>, <<>>, <<>>), Sl(<<0>>, <<>>, <<>>)}}}
    [] op = "pad" -> {[op |-> "pad", axes |-> <<Ax(s, n)>>, pad |-> p] : s \in UNION {PlainSlices, Ints}, p \in Pads}
    [] op = "scale" -> {[op |-> "scale", axes |-> <<Ax(s, n)>>, k |-> k] : s \in ClosedSlices, k \in Scales}
    [] op = "pts" -> UNION {Pts1(n), Pts2(n), Pts3(n)}
    \* N-d tuples
    [] op = "normN" -> UNION {{[op |-> "norm", axes |-> <<Ax(s, n), Ax(t, m)>>] : s \in UNION {PlainSlices, Ints}, t \in FewSlices, m \in {0, K}},
                              {[op |-> "norm", axes |-> <<Ax(t, m), Ax(u, 3), Ax(s, n)>>] : s \in SteppedSlices, t \in FewSlices, u \in FewSlices, m \in {1, K}}}
    [] op = "pairN" -> UNION {{[op |-> o, axes |-> <<AxP(a, b, n), AxP(a2, b2, n - 1)>>] : o \in {"int3", "inter"}, a \in NonNegSlices, b \in FewNonNeg, a2 \in FewNonNeg, b2 \in FewNonNeg},
                              {[op |-> o, axes |-> <<AxP(a2, b2, 2), AxP(b, a, n), AxP(b2, a2, n)>>] : o \in {"int3", "inter"}, a \in NonNegSlices, b \in FewNonNeg, a2 \in FewNonNeg, b2 \in FewNonNeg}}
    [] op = "queryN" -> {[op |-> o, axes |-> <<Ax(s, n), Ax(t, m)>>] : o \in {"shape", "empty", "full", "center"}, s \in NonNegSlices, t \in FewNonNeg, m \in {1, K}}
    [] op = "padN" -> {[op |-> "pad", axes |-> <<Ax(t, m), Ax(s, n)>>, pad |-> p] : s \in PlainSlices, t \in FewSlices, m \in {1, K}, p \in Pads}
    [] op = "scaleN" -> {[op |-> "scale", axes |-> <<Ax(s, n), Ax(t, m)>>, k |-> k] : s \in ClosedSlices, t \in FewClosed, m \in {K, 2 * K + 1}, k \in Scales}

Chunks == {[op |-> "chunk", k |-> op, n |-> n] : op \in Ops, n \in UNION {ChunkNs(o) : o \in Ops}} 
ValidChunk(ch) == ch.n \in ChunkNs(ch.k)
\* The case is chosen in two steps (chunk, then member) so that TLC's workers share the work.
VARIABLE c
Init == c \in {x \in Chunks : ValidChunk(x)}
Next == c.op = "chunk" /\ c' \in CasesFor(c.k, c.n) /\ Emit(c')
Spec == Init /\ [][Next]_c
ModelOK == c.op # "chunk" => ModelMeetsContract(c)
\* vacuity guard: some case of every operation is in the specified part of the domain
SpecifiedSeen == c.op # "chunk" /\ Specified(c)
=============================================================================
