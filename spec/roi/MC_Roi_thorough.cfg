SPECIFICATION Spec
CONSTANTS
  ClampNeg = TRUE
  K = 7
  Ns = {0, 1, 2, 3, 5, 8}
  NsPair = {0, 1, 4, 7, 9}
  Pads = {0, 1, 2, 3}
  Scales = {1, 2, 3, 4}
INVARIANT ModelOK
