SPECIFICATION Spec
CONSTANTS
  ClampNeg = TRUE
  K = 5
  Ns = {0, 1, 4, 6}
  NsPair = {0, 3, 6}
  Pads = {0, 1, 3}
  Scales = {1, 2, 3}
INVARIANT ModelOK
