SPECIFICATION Spec
CONSTANT ClampNeg = TRUE
CHECK_DEADLOCK FALSE
POSTCONDITION AllConsumed
