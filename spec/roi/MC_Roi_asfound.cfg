\* the code as found at the pinned commit (no clamping of offsets below -n): must produce a counterexample
SPECIFICATION Spec
CONSTANTS
  ClampNeg = FALSE
  K = 5
  Ns = {0, 1, 4, 6}
  NsPair = {0, 3}
  Pads = {0, 1}
  Scales = {1, 2}
INVARIANT ModelOK
