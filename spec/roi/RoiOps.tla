------------------------------- MODULE RoiOps -------------------------------
(* C17 - ROI (slice) helpers of odc/geo/roi.py.

   Two layers:
     * transcriptions of the code (NormSlice, Intersect3, Intersect, PadSlice, ScaledDown,
       ScaledUp, FromPoints ...) - the implementation-shaped model;
     * contracts stated from first principles on Python index sets (PySlice) - the
       property level.  Contracts take the *output* as an argument, so the same predicate
       judges the transcription (model checking) and values logged from the real code
       (trace validation).                                                              *)
EXTENDS PySlice, TLC

CONSTANT ClampNeg     \* TRUE: offsets below -n are clamped to 0 (code after the fix); FALSE: code as found

Err == [err |-> "ValueError"]
IsErr(x) == "err" \in DOMAIN x

(* ------------------------------ transcriptions ------------------------------ *)
\* _norm_slice(s, n)
NormNeg(x, n) == IF x >= 0 THEN x ELSE IF ClampNeg THEN Max2(0, n + x) ELSE n + x
NormSlice(s, n) ==
  IF IsInt(s) THEN LET i == IF s.int < 0 THEN n + s.int ELSE s.int IN Sl(<<i>>, <<i + 1>>, <<>>)
  ELSE Sl(<<NormNeg(OrElse(s.start, 0), n)>>, <<NormNeg(OrElse(s.stop, n), n)>>, s.step)

\* _norm_slice_or_error(s)
NormOrErr(s) ==
  IF IsInt(s) THEN (IF s.int < 0 THEN Err ELSE Sl(<<s.int>>, <<s.int + 1>>, <<>>))
  ELSE IF s.stop = <<>> THEN Err
  ELSE IF s.stop[1] < 0 \/ OrElse(s.start, 0) < 0 THEN Err
  ELSE Sl(<<OrElse(s.start, 0)>>, s.stop, s.step)

\* slice_intersect3(a, b) -> <<a', b', ab'>>
Intersect3(a0, b0) ==
  LET a == NormOrErr(a0) b == NormOrErr(b0) IN
  IF IsErr(a) \/ IsErr(b) THEN Err
  ELSE LET as == a.start[1] ae == a.stop[1] bs == b.start[1] be == b.stop[1]
           na == ae - as nb == be - bs IN
       IF ae < bs THEN <<Sl2(na, na), Sl2(0, 0), Sl2(ae, ae)>>
       ELSE IF as > be THEN <<Sl2(0, 0), Sl2(nb, nb), Sl2(as, as)>>
       ELSE LET in == Max2(as, bs) out == Min2(ae, be) IN
            <<Sl2(in - as, out - as), Sl2(in - bs, out - bs), Sl2(in, out)>>

\* roi_intersect / slice_intersect(a, b)
Intersect(a0, b0) ==
  LET a == NormOrErr(a0) b == NormOrErr(b0) IN
  IF IsErr(a) \/ IsErr(b) THEN Err
  ELSE LET as == a.start[1] ae == a.stop[1] bs == b.start[1] be == b.stop[1] IN
       IF ae < bs THEN Sl2(ae, ae)
       ELSE IF as > be THEN Sl2(as, as)
       ELSE Sl2(Max2(as, bs), Min2(ae, be))

\* roi_shape: one axis
SliceDim(s) == IF IsInt(s) THEN 1
               ELSE IF s.stop = <<>> THEN -1000000      \* ValueError (never generated)
               ELSE IF s.start = <<>> THEN s.stop[1] ELSE s.stop[1] - s.start[1]
IsEmptyAxis(s) == SliceDim(s) <= 0
IsFullAxis(s, n) == IF IsInt(s) THEN n = 1
                    ELSE s.start \in {<<>>, <<0>>} /\ s.stop \in {<<>>, <<n>>}
\* roi_center * 2
Center2(s) == LET x == NormOrErr(s) IN x.start[1] + x.stop[1]

\* roi_pad, one axis
PadSlice(s, n, pad) == LET x == NormSlice(s, n) IN
                       Sl2(Max2(0, x.start[1] - pad), Min2(n, x.stop[1] + pad))

\* scaled_down_roi / scaled_up_roi / scaled_down_shape, one axis
ScaledDown(s, k) == Sl2(FloorDiv(s.start[1], k), FloorDiv(AlignUp(s.stop[1], k), k))
ScaledUp(s, k, dim) == IF dim = <<>> THEN Sl2(s.start[1] * k, s.stop[1] * k)
                       ELSE Sl2(Min2(dim[1], s.start[1] * k), Min2(dim[1], s.stop[1] * k))
ScaledDownShape(n, k) == FloorDiv(AlignUp(n, k), k)

(* roi_from_points.  A coordinate is <<kind, v>>: kind "f" is the finite value v/2 (half-pixel
   lattice); "hugepos"/"hugeneg" are finite values far beyond the 32-bit range; "nan", "pinf",
   "ninf" are not finite.                                                                      *)
HUGE == 1000000
CoordFinite(c) == c[1] \in {"f", "hugepos", "hugeneg"}
PtFinite(p) == CoordFinite(p.x) /\ CoordFinite(p.y)
CFloor(c) == IF c[1] = "f" THEN FloorDiv(c[2], 2) ELSE IF c[1] = "hugepos" THEN HUGE ELSE -HUGE
CCeil(c)  == IF c[1] = "f" THEN CeilDiv(c[2], 2) ELSE IF c[1] = "hugepos" THEN HUGE ELSE -HUGE
FinitePts(pts) == {pts[i] : i \in {j \in DOMAIN pts : PtFinite(pts[j])}}
AxisEnvelope(cs, n, pad, align) ==       \* cs: set of finite coordinates along one axis
  LET lo0 == SetMin({CFloor(c) : c \in cs}) - pad
      hi0 == SetMax({CCeil(c) : c \in cs}) + pad
      lo == IF align = <<>> THEN lo0 ELSE AlignDown(lo0, align[1])
      hi == IF align = <<>> THEN hi0 ELSE AlignUp(hi0, align[1])
  IN Sl2(Clamp(lo, 0, n), Clamp(hi, 0, n))
\* returns <<yslice, xslice>>
FromPoints(pts, ny, nx, pad, align) ==
  LET fp == FinitePts(pts) IN
  IF fp = {} THEN <<Sl2(0, 0), Sl2(0, 0)>>
  ELSE <<AxisEnvelope({p.y : p \in fp}, ny, pad, align), AxisEnvelope({p.x : p \in fp}, nx, pad, align)>>

(* -------------------------------- contracts --------------------------------- *)
WellFormed(o) == ~IsErr(o) /\ ~IsInt(o) /\ o.start # <<>> /\ o.stop # <<>>

\* "a normalised slice selects the same elements as the original"
NormOK(s, n, o) ==
  IF ~WellFormed(o) THEN "not_a_closed_slice"
  ELSE IF Indices(o, n) # Indices(s, n) THEN "index_set_differs"
  ELSE IF ~IsInt(s) /\ o.step # s.step THEN "step_changed"
  ELSE "ok"
NormSpecified(s, n) == IntInRange(s, n) /\ (~IsInt(s) => StepOf(s) > 0)

\* "X[a][a'] == X[b][b'] == X[ab'] with ab' exactly the common index set", on an array of length n
AsSlice(s) == IF IsInt(s) THEN Sl2(s.int, s.int + 1) ELSE s
Int3OK(a, b, n, o) ==
  LET A == AsSlice(a) B == AsSlice(b) IN
  IF Compose(A, o[1], n) # Indices(o[3], n) THEN "Xa_a1_ne_Xab"
  ELSE IF Compose(B, o[2], n) # Indices(o[3], n) THEN "Xb_b1_ne_Xab"
  ELSE IF IndexSet(o[3], n) # IndexSet(A, n) \cap IndexSet(B, n) THEN "ab_not_common_index_set"
  ELSE "ok"
InterOK(a, b, n, o) ==
  IF IndexSet(o, n) # IndexSet(AsSlice(a), n) \cap IndexSet(AsSlice(b), n) THEN "not_common_index_set" ELSE "ok"

\* shape / empty / full / centre "match the index sets they describe" (axis of length n, roi inside it)
ShapeOK(s, n, dim) == IF dim # Len(Indices(AsSlice(s), n)) THEN "shape_ne_count" ELSE "ok"
EmptyOK(s, n, flag) == IF flag # (IndexSet(AsSlice(s), n) = {}) THEN "empty_flag_wrong" ELSE "ok"
FullOK(s, n, flag) == IF flag # (IndexSet(AsSlice(s), n) = 0..(n - 1)) THEN "full_flag_wrong" ELSE "ok"
CenterOK(s, n, c2) == LET ix == IndexSet(AsSlice(s), n) IN
                      IF c2 # SetMin(ix) + SetMax(ix) + 1 THEN "centre_wrong" ELSE "ok"

\* "padding grows a region by the given amount clamped to the array"
Grown(ix, n, pad) == {i \in 0..(n - 1) : \E j \in ix : Abs(i - j) <= pad}
\* an EMPTY region k:k (0 <= k <= n, written with plain non-negative numbers) still has a place: grown by pad it is the interval [k - pad, k + pad) clamped
EmptyAt(s, n) == ~IsInt(s) /\ s.step = <<>> /\ s.start # <<>> /\ s.stop # <<>> /\ s.start = s.stop /\ 0 <= s.start[1] /\ s.start[1] <= n
PadOK(s, n, pad, o) ==
  IF ~WellFormed(o) THEN "not_a_closed_slice"
  ELSE IF ~(0 <= o.start[1] /\ o.stop[1] <= n) THEN "outside_array"
  ELSE IF EmptyAt(s, n) THEN (IF o.start[1] = Max2(0, s.start[1] - pad) /\ o.stop[1] = Min2(n, s.start[1] + pad) THEN "ok" ELSE "empty_region_not_grown_by_pad")
  ELSE IF IndexSet(o, n) # Grown(IndexSet(s, n), n, pad) THEN "not_grown_by_pad"
  ELSE "ok"

\* "scaling a region down then up ... contains the original and exceeds it by less than the factor"
ScaleOK(s, k, down, up) ==
  IF ~(up.start[1] <= s.start[1] /\ s.stop[1] <= up.stop[1]) THEN "roundtrip_does_not_contain"
  ELSE IF ~(s.start[1] - up.start[1] < k /\ up.stop[1] - s.stop[1] < k) THEN "roundtrip_exceeds_by_factor"
  ELSE IF ~(up.start[1] = down.start[1] * k /\ up.stop[1] = down.stop[1] * k) THEN "up_is_not_down_times_k"
  ELSE "ok"
ScaleClampOK(s, k, dim, upc) ==    \* clamped variant: contains original /\ image
  IF ~(upc.stop[1] <= Max2(dim, 0) /\ upc.start[1] <= Min2(s.start[1], dim) /\ Min2(s.stop[1], dim) <= upc.stop[1])
  THEN "clamped_roundtrip_wrong" ELSE "ok"
DownShapeOK(n, k, m) == IF ~(m * k >= n /\ (m - 1) * k < n) THEN "down_shape_not_ceil" ELSE "ok"

\* roi_from_points
InImage(p, ny, nx) == p.x[1] = "f" /\ p.y[1] = "f" /\ 0 <= p.x[2] /\ p.x[2] <= 2 * nx /\ 0 <= p.y[2] /\ p.y[2] <= 2 * ny
AxisPtsOK(o, cs, inimg, n, pad, align) ==
  LET a == IF align = <<>> THEN 1 ELSE align[1]
      env == AxisEnvelope(cs, n, pad, <<>>) IN
  IF ~(0 <= o.start[1] /\ o.start[1] <= o.stop[1] /\ o.stop[1] <= n) THEN "outside_image"
  ELSE IF \E c \in inimg : ~(2 * o.start[1] <= c[2] /\ c[2] <= 2 * o.stop[1]) THEN "point_not_contained"
  ELSE IF \E c \in inimg : ~(o.start[1] <= Max2(0, CFloor(c) - pad) /\ Min2(n, CCeil(c) + pad) <= o.stop[1]) THEN "padding_not_honoured"
  ELSE IF ~((o.start[1] % a = 0 \/ o.start[1] = n) /\ (o.stop[1] % a = 0 \/ o.stop[1] = n)) THEN "not_aligned"
  ELSE IF ~(o.start[1] >= Clamp(env.start[1] - (a - 1), 0, n) /\ o.stop[1] <= Clamp(env.stop[1] + (a - 1), 0, n)) THEN "larger_than_padded_aligned_envelope"
  ELSE "ok"
PtsOK(pts, ny, nx, pad, align, o, ofin) ==
  LET fp == FinitePts(pts)
      ii == {p \in fp : InImage(p, ny, nx)} IN
  IF ~(WellFormed(o[1]) /\ WellFormed(o[2])) THEN "not_a_closed_slice"
  ELSE IF o # ofin THEN "non_finite_points_not_ignored"
  ELSE IF fp = {} THEN (IF Len(Indices(o[1], ny)) * Len(Indices(o[2], nx)) # 0 THEN "non_empty_without_points" ELSE "ok")
  ELSE LET vy == AxisPtsOK(o[1], {p.y : p \in fp}, {p.y : p \in ii}, ny, pad, align) IN
       IF vy # "ok" THEN "y:" \o vy
       ELSE LET vx == AxisPtsOK(o[2], {p.x : p \in fp}, {p.x : p \in ii}, nx, pad, align) IN
            IF vx # "ok" THEN "x:" \o vx ELSE "ok"

(* ----------------- one verdict per case, given the outputs ------------------ *)
\* "axes" is a sequence of per-axis inputs; the outputs `o` are sequences aligned with it.
RECURSIVE FirstBad(_)
FirstBad(vs) == IF vs = <<>> THEN "ok" ELSE IF Head(vs) # "ok" THEN Head(vs) ELSE FirstBad(Tail(vs))

Specified(c) ==
  CASE c.op = "norm" -> \A i \in DOMAIN c.axes : NormSpecified(c.axes[i].s, c.axes[i].n)
    [] c.op \in {"int3", "inter"} -> \A i \in DOMAIN c.axes : ~IsErr(Intersect(c.axes[i].a, c.axes[i].b))
    [] c.op \in {"shape", "full"} -> \A i \in DOMAIN c.axes : LET x == c.axes[i] IN
          /\ ~IsErr(NormOrErr(x.s))                                                    \* closed, non-negative
          /\ NormOrErr(x.s).start[1] <= NormOrErr(x.s).stop[1] /\ NormOrErr(x.s).stop[1] <= x.n    \* inside the axis
    \* emptiness is also owed for REVERSED regions (start > stop select nothing, on any number of axes): only "inside the axis" is required
    [] c.op = "empty" -> \A i \in DOMAIN c.axes : LET x == c.axes[i] IN
          /\ ~IsErr(NormOrErr(x.s)) /\ NormOrErr(x.s).start[1] <= x.n /\ NormOrErr(x.s).stop[1] <= x.n
    [] c.op = "center" -> \A i \in DOMAIN c.axes : LET x == c.axes[i] IN
          ~IsErr(NormOrErr(x.s)) /\ NormOrErr(x.s).stop[1] <= x.n /\ IndexSet(AsSlice(x.s), x.n) # {}
    [] c.op = "pad" -> \A i \in DOMAIN c.axes : LET x == c.axes[i] IN
          IntInRange(x.s, x.n) /\ (IndexSet(x.s, x.n) # {} \/ EmptyAt(x.s, x.n)) /\ (~IsInt(x.s) => x.s.step = <<>>)
    [] OTHER -> TRUE

\* outputs computed by the transcription, in the same shape the harness logs them
ModelOut(c) ==
  CASE c.op = "norm"  -> [i \in DOMAIN c.axes |-> NormSlice(c.axes[i].s, c.axes[i].n)]
    [] c.op = "int3"  -> [i \in DOMAIN c.axes |-> Intersect3(c.axes[i].a, c.axes[i].b)]
    [] c.op = "inter" -> [i \in DOMAIN c.axes |-> Intersect(c.axes[i].a, c.axes[i].b)]
    [] c.op = "shape" -> [i \in DOMAIN c.axes |-> SliceDim(c.axes[i].s)]
    [] c.op = "empty" -> \E i \in DOMAIN c.axes : IsEmptyAxis(c.axes[i].s)
    [] c.op = "full"  -> \A i \in DOMAIN c.axes : IsFullAxis(c.axes[i].s, c.axes[i].n)
    [] c.op = "center" -> [i \in DOMAIN c.axes |-> Center2(c.axes[i].s)]
    [] c.op = "pad"   -> [i \in DOMAIN c.axes |-> PadSlice(c.axes[i].s, c.axes[i].n, c.pad)]
    [] c.op = "scale" -> [i \in DOMAIN c.axes |-> LET x == c.axes[i] d == ScaledDown(x.s, c.k) IN
                            [down |-> d, up |-> ScaledUp(d, c.k, <<>>), upc |-> ScaledUp(d, c.k, <<x.n>>),
                             dshape |-> ScaledDownShape(x.n, c.k)]]
    [] c.op = "pts"   -> LET r == FromPoints(c.pts, c.ny, c.nx, c.pad, c.align) IN [o |-> r, ofin |-> r]

Judge(c, o) ==
  CASE c.op = "norm"  -> FirstBad([i \in DOMAIN c.axes |-> NormOK(c.axes[i].s, c.axes[i].n, o[i])])
    [] c.op = "int3"  -> FirstBad([i \in DOMAIN c.axes |-> Int3OK(c.axes[i].a, c.axes[i].b, c.axes[i].n, o[i])])
    [] c.op = "inter" -> FirstBad([i \in DOMAIN c.axes |-> InterOK(c.axes[i].a, c.axes[i].b, c.axes[i].n, o[i])])
    [] c.op = "shape" -> FirstBad([i \in DOMAIN c.axes |-> ShapeOK(c.axes[i].s, c.axes[i].n, o[i])])
    [] c.op = "empty" -> IF o # (\E i \in DOMAIN c.axes : IndexSet(AsSlice(c.axes[i].s), c.axes[i].n) = {}) THEN "empty_flag_wrong" ELSE "ok"
    [] c.op = "full"  -> IF o # (\A i \in DOMAIN c.axes : IndexSet(AsSlice(c.axes[i].s), c.axes[i].n) = 0..(c.axes[i].n - 1)) THEN "full_flag_wrong" ELSE "ok"
    [] c.op = "center" -> FirstBad([i \in DOMAIN c.axes |-> CenterOK(c.axes[i].s, c.axes[i].n, o[i])])
    [] c.op = "pad"   -> FirstBad([i \in DOMAIN c.axes |-> PadOK(c.axes[i].s, c.axes[i].n, c.pad, o[i])])
    [] c.op = "scale" -> FirstBad([i \in DOMAIN c.axes |-> LET x == c.axes[i] IN
                            LET v1 == ScaleOK(x.s, c.k, o[i].down, o[i].up) IN
                            IF v1 # "ok" THEN v1 ELSE
                            LET v2 == ScaleClampOK(x.s, c.k, x.n, o[i].upc) IN
                            IF v2 # "ok" THEN v2 ELSE DownShapeOK(x.n, c.k, o[i].dshape)])
    [] c.op = "pts"   -> PtsOK(c.pts, c.ny, c.nx, c.pad, c.align, o.o, o.ofin)

\* design-level theorem checked by TLC over the whole case domain
ModelMeetsContract(c) == Specified(c) => Judge(c, ModelOut(c)) = "ok"
=============================================================================
