------------------------------ MODULE RoiTrace ------------------------------
(* C17 - validation of values recorded from the real odc.geo.roi functions.
   Every event is a case of RoiGen's domain plus what the real code returned; the verdict is
   the property-level contract of RoiOps evaluated on the OBSERVED output (reject), then
   equality with the transcription (drift).                                              *)
EXTENDS RoiOps, TraceIO

Verdict(e) ==
  IF ~Specified(e.c) THEN "skip"
  ELSE IF e.outcome # "ok" THEN "reject:raised_" \o e.outcome
  ELSE LET v == Judge(e.c, e.out) IN
       IF v # "ok" THEN "reject:" \o v
       ELSE IF e.out # ModelOut(e.c) THEN "drift:differs_from_transcription"
       ELSE "ok"

VARIABLE l
Init == l = 1
Next == l <= NEvents /\ PrintT(<<"V", l, Verdict(Events[l])>>) /\ l' = l + 1
Spec == Init /\ [][Next]_l
AllConsumed == TLCGet("stats").diameter = NEvents + 1
=============================================================================
