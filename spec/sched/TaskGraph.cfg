SPECIFICATION Spec
CONSTANT K = 1
CONSTANT Seed = 0
INVARIANT DepClosed
INVARIANT OrderOK
INVARIANT NoStuck
CHECK_DEADLOCK FALSE
