SPECIFICATION Spec
INVARIANT DepClosed
INVARIANT OrderOK
INVARIANT NoStuck
CHECK_DEADLOCK FALSE
