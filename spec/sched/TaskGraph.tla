------------------------------ MODULE TaskGraph ------------------------------
(* Execution orders of dask task graphs (C05, C06, C13).
   The harness exports the REAL graphs of the computations it is about to run
   (keys renamed 1..n, deps[t] = tasks t waits for) as JSON; a behaviour of this spec is one
   admissible schedule of one graph: any task whose dependencies are done may run next.
   TLC enumerates (small graphs) or samples (-simulate) the linear extensions and prints them;
   a custom scheduler then executes the real tasks in exactly that order.                   *)
EXTENDS Integers, Sequences, FiniteSets, TLC, Json, IOUtils

Graphs == JsonDeserialize(IOEnv.GRAPH_FILE).graphs       \* sequence of [n, deps]
DepsOf(g, t) == {Graphs[g].deps[t][i] : i \in DOMAIN Graphs[g].deps[t]}

VARIABLES g, done, order
vars == <<g, done, order>>

Init == g \in DOMAIN Graphs /\ done = {} /\ order = <<>>
Run(t) == /\ t \notin done /\ DepsOf(g, t) \subseteq done
          /\ done' = done \cup {t} /\ order' = Append(order, t) /\ UNCHANGED g
Next == /\ \E t \in 1..Graphs[g].n : Run(t)
        /\ (Cardinality(done') = Graphs[g].n => PrintT(<<"O", g, order'>>))
Spec == Init /\ [][Next]_vars

\* every prefix of a schedule is dependency closed; a finished schedule runs every task once
DepClosed == \A t \in done : DepsOf(g, t) \subseteq done
OrderOK == /\ Len(order) = Cardinality(done)
           /\ \A i \in DOMAIN order : DepsOf(g, order[i]) \subseteq {order[j] : j \in 1..(i - 1)}
\* the graph is acyclic iff some schedule completes; stuck states other than completion are errors
NoStuck == (\A t \in 1..Graphs[g].n : t \in done \/ ~(DepsOf(g, t) \subseteq done)) => Cardinality(done) = Graphs[g].n
=============================================================================
