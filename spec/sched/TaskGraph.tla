------------------------------ MODULE TaskGraph ------------------------------
(* Execution orders of dask task graphs (C05, C06, C13).
   The harness exports the REAL graphs of the computations it is about to run
   (keys renamed 1..n, deps[t] = tasks t waits for) as JSON; a behaviour of this spec is one
   admissible schedule of one graph: any task whose dependencies are done may run next.
   TLC enumerates (small graphs) or samples (-simulate) the linear extensions and prints them;
   a custom scheduler then executes the real tasks in exactly that order.                   *)
EXTENDS Integers, Sequences, FiniteSets, TLC, Json, IOUtils, SequencesExt

Graphs == JsonDeserialize(IOEnv.GRAPH_FILE).graphs       \* sequence of [n, deps]
DepsOf(g, t) == {Graphs[g].deps[t][i] : i \in DOMAIN Graphs[g].deps[t]}

CONSTANTS K,              \* number of sampled schedules per graph (SpecSampled); 1 for the exhaustive Spec
          Seed            \* seed of the draw in SpecSampled
VARIABLES g, k, done, order
vars == <<g, k, done, order>>

Init == g \in DOMAIN Graphs /\ k \in 1..K /\ done = {} /\ order = <<>>
Run(t) == /\ t \notin done /\ DepsOf(g, t) \subseteq done
          /\ done' = done \cup {t} /\ order' = Append(order, t) /\ UNCHANGED <<g, k>>
Next == /\ \E t \in 1..Graphs[g].n : Run(t)
        /\ (Cardinality(done') = Graphs[g].n => PrintT(<<"O", g, order'>>))
Spec == Init /\ [][Next]_vars
\* one pseudo-random admissible schedule per (graph, k): the same steps, the runnable task drawn (reproducibly, from Seed, the
\* graph, k and the history) instead of branched on - every behaviour of SpecSampled is a behaviour of Spec.  (Big graphs: one
\* path of n states instead of a simulation that generates every successor of every visited state.)
Runnable == {t \in 1..Graphs[g].n : t \notin done /\ DepsOf(g, t) \subseteq done}
M == 65521
Mix(x, y) == (x * 31 + y) % M
Draw == LET last == IF order = <<>> THEN 0 ELSE order[Len(order)]
            r == Mix(Mix(Mix(Mix(Mix(Seed % M, g), k * 7919), Len(order) * 104729), last * 1299709), Cardinality(Runnable))
            q == SetToSortSeq(Runnable, <) IN q[(r % Len(q)) + 1]
NextSampled == /\ Runnable # {} /\ Run(Draw)
               /\ (Cardinality(done') = Graphs[g].n => PrintT(<<"O", g, order'>>))
SpecSampled == Init /\ [][NextSampled]_vars

\* every prefix of a schedule is dependency closed; a finished schedule runs every task once
DepClosed == \A t \in done : DepsOf(g, t) \subseteq done
OrderOK == /\ Len(order) = Cardinality(done)
           /\ \A i \in DOMAIN order : DepsOf(g, order[i]) \subseteq {order[j] : j \in 1..(i - 1)}
\* the graph is acyclic iff some schedule completes; stuck states other than completion are errors
NoStuck == (\A t \in 1..Graphs[g].n : t \in done \/ ~(DepsOf(g, t) \subseteq done)) => Cardinality(done) = Graphs[g].n
=============================================================================
