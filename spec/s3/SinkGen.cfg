SPECIFICATION Spec
INVARIANT ModelOK
