SPECIFICATION MCSpec
CONSTANTS
  NWriters = 2
  Mode = "local"
  FirstUse = FALSE
  Recheck = TRUE
  TrackSched = TRUE
  CellMap = "separate"
INVARIANT AtMostOneInitiate
INVARIANT NoWriterFails
INVARIANT PartsUnderTheOneId
INVARIANT FinaliseUnderTheOneId
INVARIANT CompleteAtEnd
INVARIANT LockFreeAtEnd
INVARIANT OneLocalLock
