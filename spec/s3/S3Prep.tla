-------------------------------- MODULE S3Prep --------------------------------
(* C18 - the SUBMITTING side of the cluster-coordinated writer over several ATTEMPTS to write one object
   (odc/geo/cog/_s3.py  MultiPartUpload.writer -> DelayedS3Writer.prep_client / cleanup_client).

   The shared Variable and the distributed Lock are named after (bucket, key) only, so every attempt to write the same
   object on one cluster meets the Variable of the attempts before it.  An attempt that is abandoned (job failed or was
   cancelled after the upload had been initiated) never reaches cleanup_client and leaves its upload id behind.
   S3Init starts from "Variable holds None": that initial condition is ESTABLISHED by prep_client, which must reset the
   Variable whatever it finds (ResetAlways).  With a conditional reset the workers of a later attempt adopt the id of the
   dead one: no upload is initiated by that attempt and its parts go under a foreign upload (OwnUploadOnly fails).        *)
EXTENDS Naturals, FiniteSets
CONSTANTS MaxAttempts, ResetAlways
VARIABLES var,        \* the shared Variable: 0 = None, else an upload id
          phase,      \* "idle" | "tasks" | "written"
          attempt, nextId,
          created,    \* {<<attempt, id>>} uploads initiated
          under       \* {<<attempt, id>>} id under which an attempt's parts were uploaded
vars == <<var, phase, attempt, nextId, created, under>>
Init == var = 0 /\ phase = "idle" /\ attempt = 0 /\ nextId = 1 /\ created = {} /\ under = {}
\* writer(kw, client=client): prep_client
Prep == /\ phase = "idle" /\ attempt < MaxAttempts
        /\ attempt' = attempt + 1 /\ phase' = "tasks"
        /\ var' = IF ResetAlways \/ var = 0 THEN 0 ELSE var
        /\ UNCHANGED <<nextId, created, under>>
\* the write tasks (S3Init): the first worker initiates unless the Variable already holds an id, everyone uploads under what the Variable holds
Tasks == /\ phase = "tasks" /\ phase' = "written"
         /\ IF var = 0 THEN var' = nextId /\ nextId' = nextId + 1 /\ created' = created \cup {<<attempt, nextId>>}
                       ELSE UNCHANGED <<var, nextId, created>>
         /\ under' = under \cup {<<attempt, var'>>}
         /\ UNCHANGED attempt
\* finalise + cleanup_client: the Variable is deleted
Finalise == phase = "written" /\ phase' = "idle" /\ var' = 0 /\ UNCHANGED <<attempt, nextId, created, under>>
\* the job dies: nothing is cleaned up
Abandon == phase \in {"tasks", "written"} /\ phase' = "idle" /\ UNCHANGED <<var, attempt, nextId, created, under>>
Next == Prep \/ Tasks \/ Finalise \/ Abandon
Spec == Init /\ [][Next]_vars
\* every attempt uploads its parts under an upload that this very attempt initiated, and initiates at most one
OwnUploadOnly == \A u \in under : u \in created
AtMostOnePerAttempt == \A a \in 1..MaxAttempts : Cardinality({c \in created : c[1] = a}) <= 1
=============================================================================
