--------------------------- MODULE UploadLifeTrace ---------------------------
(* Conformance of the real MultiPartUpload with UploadLife: e.steps = the model's behaviour (with its predictions),
   e.obs = what the real object and the stand-in service showed after each call.  Differences are model drift
   (this behaviour lies beyond the listed properties: never a violation).                                          *)
EXTENDS Integers, Sequences, TLC, TraceIO
Verdict(e) ==
  IF Len(e.obs) # Len(e.steps) THEN "drift:replay_stopped_early"
  ELSE IF \E i \in DOMAIN e.steps : e.obs[i].out # e.steps[i].out THEN "drift:outcome_of_a_call_differs_from_model"
  ELSE IF \E i \in DOMAIN e.steps : e.obs[i].uid # e.steps[i].uid \/ e.obs[i].started # e.steps[i].started THEN "drift:upload_id_held_by_the_object_differs_from_model"
  ELSE IF \E i \in DOMAIN e.steps : e.obs[i].nactive # e.steps[i].nactive THEN "drift:uploads_active_in_the_service_differ_from_model"
  ELSE IF \E i \in DOMAIN e.steps : e.steps[i].op = "list_active" /\ e.obs[i].listed # e.steps[i].arg THEN "drift:list_active_differs_from_model"
  ELSE "ok"
VARIABLE l
Init == l = 1
Next == l <= NEvents /\ PrintT(<<"V", l, Verdict(Events[l])>>) /\ l' = l + 1
Spec == Init /\ [][Next]_l
=============================================================================
