SPECIFICATION MCSpec
CONSTANTS
  NWriters = 3
  Mode = "dist"
  FirstUse = FALSE
  Recheck = TRUE
  TrackSched = TRUE
  CellMap = "separate"
INVARIANT AtMostOneInitiate
INVARIANT NoWriterFails
INVARIANT PartsUnderTheOneId
INVARIANT FinaliseUnderTheOneId
INVARIANT CompleteAtEnd
INVARIANT LockFreeAtEnd
