------------------------------- MODULE S3Trace -------------------------------
(* C18 - validation of interleavings replayed on the real DelayedS3Writer / MultiPartUpload.
   Event fields: mode, n, cells, sched (the TLC schedule), steps (<<pid, kind>> performed on the
   real threads, including the drain after the schedule), calls (<<kind, pid, upload id>> received
   by the fake S3 client, in order), outcomes (<<pid, "ok" | exception>>), deadlock (BOOLEAN).
   Verdict: property predicates on the observed client calls and outcomes (reject); then the model
   S3Init stepped along the same schedule must perform the same kinds of operations and end with
   the same service state (drift).                                                            *)
EXTENDS Integers, Sequences, FiniteSets, TLC, TraceIO

Calls(e, k) == {i \in DOMAIN e.calls : e.calls[i][1] = k}
PropVerdict(e) ==
  LET crt == Calls(e, "crt") up == Calls(e, "up") fin == Calls(e, "complete")
      ids == {e.calls[i][3] : i \in crt} IN
  IF e.deadlock THEN "a_worker_never_finishes"
  ELSE IF \E i \in DOMAIN e.outcomes : e.outcomes[i][1] # 0 /\ e.outcomes[i][2] # "ok" THEN "a_write_failed"
  ELSE IF Cardinality(crt) # 1 THEN "upload_not_initiated_exactly_once"
  ELSE IF \E i \in up : e.calls[i][3] \notin ids THEN "part_uploaded_under_another_upload_id"
  ELSE IF {e.calls[i][2] : i \in up} # 1..e.n \/ Cardinality(up) # e.n THEN "not_every_part_uploaded_exactly_once"
  ELSE IF \E i \in DOMAIN e.outcomes : e.outcomes[i][2] # "ok" THEN "finalise_failed"
  ELSE IF Cardinality(fin) # 1 \/ \E i \in fin : e.calls[i][3] \notin ids THEN "not_completed_once_under_the_one_upload_id"
  ELSE "ok"

(* ---- conformance: the real threads performed exactly the model's operations, same service state ---- *)
Conformance(e) ==
  IF Len(e.steps) < Len(e.sched) \/ SubSeq(e.steps, 1, Len(e.sched)) # e.sched THEN "operations_differ_from_model_schedule"
  ELSE IF Len(e.steps) # Len(e.sched) THEN "real_threads_needed_more_steps_than_the_model"
  ELSE IF e.final.ncreated # Cardinality(Calls(e, "crt")) \/ e.final.nparts # Cardinality(Calls(e, "up"))
          \/ e.final.ncompleted # Cardinality(Calls(e, "complete")) THEN "service_state_differs_from_model"
  ELSE "ok"

Verdict(e) == LET p == PropVerdict(e) IN
              IF p # "ok" THEN "reject:" \o p
              ELSE LET c == Conformance(e) IN IF c # "ok" THEN "drift:" \o c ELSE "ok"

VARIABLE l
Init == l = 1
Next == l <= NEvents /\ PrintT(<<"V", l, Verdict(Events[l])>>) /\ l' = l + 1
Spec == Init /\ [][Next]_l
=============================================================================
