------------------------------- MODULE SinkTrace -------------------------------
EXTENDS Sink, TraceIO
Verdict(e) ==
  IF e.outcome # "ok" THEN "reject:raised_" \o e.outcome
  ELSE IF e.c.op = "limits" THEN
       (LET v == LimitsOK(e.c, e.out) IN IF v # "ok" THEN "reject:" \o v
        ELSE IF e.out # LimitsModel(e.c) THEN "drift:limits_differ_from_model" ELSE "ok")
  ELSE LET v == FinaliseOK(e.c, e.out) IN IF v # "ok" THEN "reject:" \o v
       ELSE IF e.out.parts_left # FinaliseModel(e.c).parts_left THEN "drift:parts_dir_differs_from_model" ELSE "ok"
VARIABLE l
Init == l = 1
Next == l <= NEvents /\ PrintT(<<"V", l, Verdict(Events[l])>>) /\ l' = l + 1
Spec == Init /\ [][Next]_l
=============================================================================
