SPECIFICATION Spec
CONSTANTS
  MaxAttempts = 3
  ResetAlways = TRUE
INVARIANT OwnUploadOnly
INVARIANT AtMostOnePerAttempt
CHECK_DEADLOCK FALSE
