SPECIFICATION Spec
CONSTANTS
  MaxAttempts = 3
  ResetAlways = FALSE
INVARIANT OwnUploadOnly
INVARIANT AtMostOnePerAttempt
CHECK_DEADLOCK FALSE
