--------------------------------- MODULE Sink ---------------------------------
(* C18 (sequential part) - the file sink (odc/geo/cog/_mpu_fs.py) and the writers' limits.

   File sink as a small state machine over an abstract file system:
     dir  : part number -> sequence of bytes  (files p<NNNN>.bin of the parts directory)
     dst  : <<>> (absent) or <<bytes>>
   Payload bytes are the positions of the expected output, so the contract
   "destination = concatenation of the parts in the order given" reads dst = <<0, 1, ..., T-1>>. *)
EXTENDS IntMath, Sequences, FiniteSets, TLC

RECURSIVE SumS(_)
SumS(s) == IF s = <<>> THEN 0 ELSE Head(s) + SumS(Tail(s))
Range(lo, n) == [i \in 1..n |-> lo + i - 1]

\* part k (in finalise order) carries the positions after the k-1 parts before it
PartData(c, k) == Range(SumS(SubSeq(c.sizes, 1, k - 1)), c.sizes[k])

\* ---- transcription: __call__ writes a file per part; finalise renames the first and appends the rest
WriteAll(c) == [id \in {c.ids[k] : k \in DOMAIN c.ids} |-> PartData(c, CHOOSE k \in DOMAIN c.ids : c.ids[k] = id)]
RECURSIVE AppendRest(_, _, _)
AppendRest(dir, ids, acc) == IF ids = <<>> THEN acc ELSE AppendRest(dir, Tail(ids), acc \o dir[Head(ids)])
FinaliseModel(c) ==
  LET dir == WriteAll(c) IN
  [dst |-> AppendRest(dir, Tail(c.ids), dir[Head(c.ids)]),
   parts_left |-> IF c.keep THEN Len(c.ids) - 1 ELSE -1]          \* -1: parts directory removed

\* ---- contract
FinaliseOK(c, o) ==
  IF ~o.exists THEN "destination_missing"
  ELSE IF o.dst # Range(0, SumS(c.sizes)) THEN "destination_is_not_the_concatenation_in_the_given_order"
  ELSE IF ~c.keep /\ o.parts_left # -1 THEN "temporary_parts_not_removed"
  ELSE "ok"

(* limits: sizes in KiB.  kw = <<min_write_sz, max_write_sz, min_part, max_part>> as optionals *)
FileDefaults == <<4, 5 * 1024 * 1024, 1, 10000>>
S3Limits == <<5 * 1024, 5 * 1024 * 1024, 1, 10000>>
LimitsModel(c) == IF c.cls = "file" THEN [i \in 1..4 |-> OrElse(c.kw[i], FileDefaults[i])] ELSE S3Limits
LimitsOK(c, o) ==
  IF c.cls = "file" /\ \E i \in 1..4 : c.kw[i] # <<>> /\ o[i] # c.kw[i][1] THEN "configured_limit_not_reported"
  ELSE IF ~(o[2] > o[1] /\ o[4] > o[3]) THEN "maximum_not_above_minimum"
  ELSE "ok"

ModelMeetsContract(c) ==
  IF c.op = "limits" THEN LimitsOK(c, LimitsModel(c)) = "ok"
  ELSE LET m == FinaliseModel(c) IN FinaliseOK(c, [dst |-> m.dst, exists |-> TRUE, parts_left |-> m.parts_left]) = "ok"
=============================================================================
