-------------------------------- MODULE SinkGen --------------------------------
(* C18 - case domain for the file sink and the limits; model check + emission. *)
EXTENDS Sink, CaseIO, SequencesExt
IdSets == {<<1>>, <<1, 2>>, <<2, 1>>, <<1, 2, 3>>, <<3, 1, 2>>, <<2, 5, 9>>, <<1, 2, 3, 4>>, <<4, 2, 3, 1>>}
Sizes == {0, 1, 5}
Perms(q) == {p \in [DOMAIN q -> {q[i] : i \in DOMAIN q}] : \A i, j \in DOMAIN q : i # j => p[i] # p[j]}
\* pre: what is at the destination path when the sink is finalised - nothing, or the (longer) file of an earlier run that is to be replaced
FinCases(ids) == {[op |-> "finalise", ids |-> ids, sizes |-> sz, write_order |-> wo, keep |-> k, base |-> b, pre |-> pr] :
                    sz \in [DOMAIN ids -> Sizes], wo \in Perms(ids), k \in BOOLEAN, b \in {"default", "elsewhere"}, pr \in {"absent", "old"}}
LimCases == {[op |-> "limits", cls |-> cls, kw |-> <<a, b, c, d>>] :
               cls \in {"file", "s3", "delayed"}, a \in Opt({1, 8}), b \in Opt({64, 1024 * 1024}), c \in Opt({0, 2}), d \in Opt({50, 20000})}
VARIABLE c
Init == c \in {[op |-> "chunk", ids |-> ids] : ids \in IdSets} \cup {[op |-> "chunk", ids |-> <<>>]}
Next == c.op = "chunk" /\ c' \in (IF c.ids = <<>> THEN LimCases ELSE FinCases(c.ids)) /\ Emit(c')
Spec == Init /\ [][Next]_c
ModelOK == c.op # "chunk" => ModelMeetsContract(c)
=============================================================================
