----------------------------- MODULE MC_UploadLife -----------------------------
EXTENDS UploadLife, CaseIO
MCNext == Next /\ (Len(steps') = MaxSteps => Emit([steps |-> steps']))
MCSpec == Init /\ [][MCNext]_vars
=============================================================================
