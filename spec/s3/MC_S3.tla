-------------------------------- MODULE MC_S3 --------------------------------
(* C18 - bounded instances of S3Init; every maximal schedule reached is emitted for replay on
   real threads (exhaustively for 2 writers, by simulation for 3).                        *)
EXTENDS S3Init, CaseIO
MCNext == /\ Next
          /\ (TrackSched /\ Terminal') => Emit([mode |-> Mode, n |-> NWriters, cells |-> CellMap, first |-> FirstUse, sched |-> sched',
                 final |-> [ncreated |-> Cardinality(created'), nparts |-> Cardinality(parts'), ncompleted |-> Cardinality(completed'), nfailed |-> Cardinality(failed')]])
MCSpec == Init /\ [][MCNext]_vars
MCFairSpec == MCSpec /\ \A p \in Procs : WF_vars(Step(p))
=============================================================================
