SPECIFICATION MCSpec
CONSTANTS
  NWriters = 3
  Mode = "local"
  FirstUse = TRUE
  Recheck = TRUE
  TrackSched = FALSE
  CellMap = "separate"
INVARIANT AtMostOneInitiate
INVARIANT NoWriterFails
INVARIANT PartsUnderTheOneId
INVARIANT FinaliseUnderTheOneId
INVARIANT CompleteAtEnd
INVARIANT LockFreeAtEnd
INVARIANT OneLocalLock
