------------------------------- MODULE S3Init -------------------------------
(* C18 - lazily initialised S3 multi-part writer raced by several workers
   (odc/geo/cog/_s3.py: DelayedS3Writer._ensure_init / __call__ / finalise,
    MultiPartUpload.initiate / write_part / finalise).

   One label per read or write of shared state, lock operation or storage-client call of the
   code - exactly the points where the replay harness can hand the baton to another thread.

   Mode "local": no dask client; all workers are threads sharing one MultiPartUpload object and
                 the process-local lock.
   Mode "dist":  a dask client exists; Cell[p] says which process (copy of the writer object)
                 worker p runs in; coordination through a distributed Variable and Lock.
   Recheck = TRUE is the code after the fix (started re-tested under the local lock),
   FALSE the code as found.                                                                   *)
EXTENDS Integers, Sequences, FiniteSets, TLC

CONSTANTS NWriters,      \* writers are processes 1..NWriters, the finaliser is process 0
          Mode, Recheck,
          FirstUse,      \* local mode: TRUE = first use in the process (_state holds no lock yet), FALSE = a lock is already stored
          TrackSched,    \* record the schedule in the state (enumerates interleavings) or not (state space only)
          CellMap        \* name of the worker -> object-copy assignment (see Cell)

Writers == 1..NWriters
Procs == 0..NWriters
\* which copy of the MultiPartUpload object a process uses
Cell(p) == CASE Mode = "local" -> 1
             [] CellMap = "separate" -> p + 1                                 \* every process its own copy
             [] CellMap = "pair" -> IF p \in {1, 2} THEN 1 ELSE p + 1         \* workers 1,2 are threads of one process
Cells == {Cell(p) : p \in Procs}

VARIABLES pc,        \* process -> label
          uid,       \* cell -> uploadId of that copy (0 is "")
          lock,      \* lock id -> 0 free, else holder + 1.  Id 0 is the distributed lock, p + 1 the Lock() process p created,
                     \* NWriters + 2 a process-local lock stored before the run
          ltab,      \* _state["mpu_lock"]: 0 = not there, else the id of the stored lock
          mylk,      \* process -> id of the lock object _mpu_local_lock() handed it (0: none yet)
          var,       \* distributed Variable (0 is None)
          tmp,       \* process -> local variable holding an upload id
          nextId, created, parts, completed, failed,
          sched      \* history: the schedule, a sequence of <<process, kind of operation>>
vars == <<pc, uid, lock, ltab, mylk, var, tmp, nextId, created, parts, completed, failed, sched>>
LockIds == 0..(NWriters + 2)
LockId(p) == IF Mode = "local" THEN mylk[p] ELSE 0

Init == /\ pc = [p \in Procs |-> IF p = 0 THEN "wait" ELSE "chk"]
        /\ uid = [c \in Cells |-> 0] /\ lock = [i \in LockIds |-> 0] /\ var = 0 /\ tmp = [p \in Procs |-> 0]
        /\ ltab = (IF FirstUse THEN 0 ELSE NWriters + 2) /\ mylk = [p \in Procs |-> 0]
        /\ nextId = 1 /\ created = {} /\ parts = {} /\ completed = {} /\ failed = {} /\ sched = <<>>

\* the kind of operation a label performs, as the replay harness sees it at its seams
Kind(l) == CASE l \in {"chk", "rechk", "ini_assert", "read_share", "post_assert", "wp_assert", "wp_arg", "fin_assert", "fin_arg"} -> "get"
             [] l \in {"cli", "fin_cli"} -> "cli"
             [] l = "lk_get" -> "sget" [] l = "lk_sd" -> "ssd"
             [] l \in {"acq", "acq_d"} -> "acq"
             [] l \in {"rel", "rel_fail", "rel_ret"} -> "rel"
             [] l \in {"set", "adopt1", "adopt2"} -> "set"
             [] l \in {"get1", "get2"} -> "vget"
             [] l = "crt" -> "crt" [] l = "share" -> "vset" [] l = "wp_up" -> "up"
             [] l = "fin_complete" -> "complete" [] l = "fin_vdel" -> "vdel" [] l = "wait" -> "wait"
             [] OTHER -> "none"

Goto(p, l) == pc' = [pc EXCEPT ![p] = l]
Fail(p) == failed' = failed \cup {p}
\* label after _ensure_init returned: a writer uploads its part, the finaliser completes
After(p) == IF p = 0 THEN "fin_assert" ELSE "wp_assert"

(* one step of process p; the disjunct taken is determined by pc[p] *)
LkUpdate(p) == CASE pc[p] = "lk_get" -> mylk' = [mylk EXCEPT ![p] = ltab] /\ UNCHANGED ltab
                 [] pc[p] = "lk_sd" -> ltab' = (IF ltab = 0 THEN p + 1 ELSE ltab) /\ mylk' = [mylk EXCEPT ![p] = ltab']
                 [] OTHER -> UNCHANGED <<ltab, mylk>>
\* where a process can block
Guard(p) == CASE pc[p] \in {"acq", "acq_d"} -> lock[LockId(p)] = 0
              [] pc[p] = "wait" -> (\A w \in Writers : pc[w] = "done") /\ failed = {}
              [] pc[p] = "done" -> FALSE
              [] OTHER -> TRUE
Step(p) ==
  LET c == Cell(p) IN
  /\ LkUpdate(p)
  /\ sched' = IF TrackSched THEN Append(sched, <<p, Kind(pc[p])>>) ELSE sched
  /\ CASE pc[p] = "wait" ->                      \* the finalise task runs after every write task (data dependency)
            /\ \A w \in Writers : pc[w] = "done"
            /\ failed = {}
            /\ Goto(p, "chk") /\ UNCHANGED <<uid, lock, var, tmp, nextId, created, parts, completed, failed>>
       [] pc[p] = "chk" ->                       \* if mpu.started: return mpu
            /\ Goto(p, IF uid[c] # 0 THEN After(p) ELSE "cli")
            /\ UNCHANGED <<uid, lock, var, tmp, nextId, created, parts, completed, failed>>
       [] pc[p] = "cli" ->                       \* client = _dask_client()
            /\ Goto(p, IF Mode = "local" THEN "lk_get" ELSE "get1")
            /\ UNCHANGED <<uid, lock, var, tmp, nextId, created, parts, completed, failed>>
       (* ---- _mpu_local_lock(): lck = _state.get(k); if None: _state.setdefault(k, Lock())  (the lock table: see LkUpdate) ---- *)
       [] pc[p] = "lk_get" ->
            /\ Goto(p, IF ltab # 0 THEN "acq" ELSE "lk_sd")
            /\ UNCHANGED <<uid, lock, var, tmp, nextId, created, parts, completed, failed>>
       [] pc[p] = "lk_sd" ->                     \* setdefault is atomic: stores the new Lock() only if still absent, returns what is stored
            /\ Goto(p, "acq")
            /\ UNCHANGED <<uid, lock, var, tmp, nextId, created, parts, completed, failed>>
       (* ---- local path ---- *)
       [] pc[p] = "acq" ->                       \* with _mpu_local_lock():
            /\ lock[LockId(p)] = 0 /\ lock' = [lock EXCEPT ![LockId(p)] = p + 1]
            /\ Goto(p, IF Recheck THEN "rechk" ELSE "ini_assert")
            /\ UNCHANGED <<uid, var, tmp, nextId, created, parts, completed, failed>>
       [] pc[p] = "rechk" ->                     \* (fix) if not mpu.started:
            /\ Goto(p, IF uid[c] # 0 THEN "rel" ELSE "ini_assert")
            /\ UNCHANGED <<uid, lock, var, tmp, nextId, created, parts, completed, failed>>
       [] pc[p] = "ini_assert" ->                \* initiate(): assert self.uploadId == ""
            /\ Goto(p, IF uid[c] # 0 THEN "rel_fail" ELSE "crt")
            /\ UNCHANGED <<uid, lock, var, tmp, nextId, created, parts, completed, failed>>
       [] pc[p] = "crt" ->                       \* s3.create_multipart_upload(...)
            /\ created' = created \cup {nextId} /\ tmp' = [tmp EXCEPT ![p] = nextId] /\ nextId' = nextId + 1
            /\ Goto(p, "set")
            /\ UNCHANGED <<uid, lock, var, parts, completed, failed>>
       [] pc[p] = "set" ->                       \* self.uploadId = uploadId
            /\ uid' = [uid EXCEPT ![c] = tmp[p]]
            /\ Goto(p, IF Mode = "local" THEN "rel" ELSE "read_share")
            /\ UNCHANGED <<lock, var, tmp, nextId, created, parts, completed, failed>>
       [] pc[p] = "rel" ->                       \* leaving the with block
            /\ lock' = [lock EXCEPT ![LockId(p)] = 0] /\ Goto(p, IF Mode = "local" THEN After(p) ELSE "post_assert")
            /\ UNCHANGED <<uid, var, tmp, nextId, created, parts, completed, failed>>
       [] pc[p] = "rel_fail" ->                  \* AssertionError propagates out of the with block
            /\ lock' = [lock EXCEPT ![LockId(p)] = 0] /\ Fail(p) /\ Goto(p, "done")
            /\ UNCHANGED <<uid, var, tmp, nextId, created, parts, completed>>
       (* ---- distributed path ---- *)
       [] pc[p] = "get1" ->                      \* uploadId = _safe_get(shared_state)
            /\ tmp' = [tmp EXCEPT ![p] = var]
            /\ Goto(p, IF var # 0 THEN "adopt1" ELSE "acq_d")
            /\ UNCHANGED <<uid, lock, var, nextId, created, parts, completed, failed>>
       [] pc[p] = "adopt1" ->                    \* mpu.uploadId = uploadId; return mpu
            /\ uid' = [uid EXCEPT ![c] = tmp[p]] /\ Goto(p, After(p))
            /\ UNCHANGED <<lock, var, tmp, nextId, created, parts, completed, failed>>
       [] pc[p] = "acq_d" ->                     \* with DLock(...):
            /\ lock[LockId(p)] = 0 /\ lock' = [lock EXCEPT ![LockId(p)] = p + 1] /\ Goto(p, "get2")
            /\ UNCHANGED <<uid, var, tmp, nextId, created, parts, completed, failed>>
       [] pc[p] = "get2" ->                      \* uploadId = _safe_get(shared_state)  (under the lock)
            /\ tmp' = [tmp EXCEPT ![p] = var]
            /\ Goto(p, IF var # 0 THEN "adopt2" ELSE "ini_assert")
            /\ UNCHANGED <<uid, lock, var, nextId, created, parts, completed, failed>>
       [] pc[p] = "adopt2" ->                    \* mpu.uploadId = uploadId; return mpu (releases the lock)
            /\ uid' = [uid EXCEPT ![c] = tmp[p]] /\ Goto(p, "rel_ret")
            /\ UNCHANGED <<lock, var, tmp, nextId, created, parts, completed, failed>>
       [] pc[p] = "rel_ret" ->
            /\ lock' = [lock EXCEPT ![LockId(p)] = 0] /\ Goto(p, After(p))
            /\ UNCHANGED <<uid, var, tmp, nextId, created, parts, completed, failed>>
       [] pc[p] = "read_share" ->                \* shared_state.set(mpu.uploadId): read the attribute
            /\ tmp' = [tmp EXCEPT ![p] = uid[c]] /\ Goto(p, "share")
            /\ UNCHANGED <<uid, lock, var, nextId, created, parts, completed, failed>>
       [] pc[p] = "share" ->                     \* ... and publish it
            /\ var' = tmp[p] /\ Goto(p, "rel")
            /\ UNCHANGED <<uid, lock, tmp, nextId, created, parts, completed, failed>>
       [] pc[p] = "post_assert" ->               \* assert mpu.started or final_write
            /\ IF uid[c] = 0 THEN Fail(p) /\ Goto(p, "done") ELSE Goto(p, After(p)) /\ UNCHANGED failed
            /\ UNCHANGED <<uid, lock, var, tmp, nextId, created, parts, completed>>
       (* ---- MultiPartUpload.write_part ---- *)
       [] pc[p] = "wp_assert" ->                 \* assert self.uploadId != ""
            /\ IF uid[c] = 0 THEN Fail(p) /\ Goto(p, "done") ELSE Goto(p, "wp_arg") /\ UNCHANGED failed
            /\ UNCHANGED <<uid, lock, var, tmp, nextId, created, parts, completed>>
       [] pc[p] = "wp_arg" ->                    \* UploadId=self.uploadId
            /\ tmp' = [tmp EXCEPT ![p] = uid[c]] /\ Goto(p, "wp_up")
            /\ UNCHANGED <<uid, lock, var, nextId, created, parts, completed, failed>>
       [] pc[p] = "wp_up" ->                     \* s3.upload_part(...)
            /\ parts' = parts \cup {<<p, tmp[p]>>} /\ Goto(p, "done")
            /\ UNCHANGED <<uid, lock, var, tmp, nextId, created, completed, failed>>
       (* ---- MultiPartUpload.finalise (process 0 only) ---- *)
       [] pc[p] = "fin_assert" ->                \* assert self.uploadId
            /\ IF uid[c] = 0 THEN Fail(p) /\ Goto(p, "done") ELSE Goto(p, "fin_arg") /\ UNCHANGED failed
            /\ UNCHANGED <<uid, lock, var, tmp, nextId, created, parts, completed>>
       [] pc[p] = "fin_arg" ->
            /\ tmp' = [tmp EXCEPT ![p] = uid[c]] /\ Goto(p, "fin_complete")
            /\ UNCHANGED <<uid, lock, var, nextId, created, parts, completed, failed>>
       [] pc[p] = "fin_complete" ->              \* s3.complete_multipart_upload(...)
            /\ completed' = completed \cup {tmp[p]} /\ Goto(p, "fin_cli")
            /\ UNCHANGED <<uid, lock, var, tmp, nextId, created, parts, failed>>
       [] pc[p] = "fin_cli" ->                   \* client = _dask_client()
            /\ Goto(p, IF Mode = "local" THEN "done" ELSE "fin_vdel")
            /\ UNCHANGED <<uid, lock, var, tmp, nextId, created, parts, completed, failed>>
       [] pc[p] = "fin_vdel" ->                  \* cleanup_client: shared variable deleted
            /\ var' = 0 /\ Goto(p, "done")
            /\ UNCHANGED <<uid, lock, tmp, nextId, created, parts, completed, failed>>
       [] pc[p] = "done" -> FALSE

Next == \E p \in Procs : Step(p)
Spec == Init /\ [][Next]_vars
FairSpec == Spec /\ \A p \in Procs : WF_vars(Step(p))

AllDone == \A p \in Procs : pc[p] = "done"
Terminal == AllDone \/ (failed # {} /\ \A w \in Writers : pc[w] = "done")

(* ------------------------------- properties -------------------------------- *)
AtMostOneInitiate == Cardinality(created) <= 1
NoWriterFails == failed = {}
PartsUnderTheOneId == \A x \in parts : x[2] \in created /\ \A y \in parts : x[2] = y[2]
FinaliseUnderTheOneId == completed \subseteq created /\ \A x \in parts : completed \subseteq {x[2]}
CompleteAtEnd == AllDone => (Cardinality(created) = 1 /\ completed = created /\ {x[1] : x \in parts} = Writers)
LockFreeAtEnd == Terminal => \A i \in LockIds : lock[i] = 0
\* the process-local lock is one object: whoever asks gets the stored one, and only one is ever stored
OneLocalLock == Mode = "local" => \A p, q \in Procs : (mylk[p] # 0 /\ mylk[q] # 0 /\ pc[p] # "lk_sd" /\ pc[q] # "lk_sd") => mylk[p] = mylk[q]
GuardIsEnabled == \A p \in Procs : Guard(p) <=> ENABLED Step(p)
EventuallyDone == <>Terminal
=============================================================================
