------------------------------- MODULE S3Real -------------------------------
(* C18 - trace validation in the other direction: schedules that the REAL threads took (a seeded explorer picks, at every
   seam, one of the threads that can really run) are checked to be behaviours of S3Init.  Each trace is a sequence of
   <<process, kind of operation>>; the model is stepped along it: the process must be at a label of that kind and not
   blocked (Guard).  A trace the model cannot follow means the code has an interleaving the design does not have
   (for instance two workers inside the critical section) - or the model is wrong; either way it is reported, and the
   property predicates on the observed client calls (S3Trace!PropVerdict) say which.
   All traces of one configuration are checked in one run: tid picks the trace, i is the position in it.            *)
EXTENDS S3Init, Json, IOUtils
Traces == JsonDeserialize(IOEnv.TRACE_FILE).events
VARIABLES tid, i
rvars == <<vars, tid, i>>
Steps == Traces[tid].steps
Cur == Steps[i]
CanFollow == /\ Cur[1] \in Procs /\ Kind(pc[Cur[1]]) = Cur[2] /\ Guard(Cur[1])
Count(k) == Cardinality({j \in DOMAIN Traces[tid].calls : Traces[tid].calls[j][1] = k})
RInit == Init /\ tid \in DOMAIN Traces /\ i = 1
RNext == /\ i >= 1 /\ i <= Len(Steps)
         /\ IF CanFollow
            THEN /\ Step(Cur[1]) /\ i' = i + 1 /\ UNCHANGED tid
                 /\ (i' > Len(Steps)) =>
                      PrintT(<<"R", tid, IF \E p \in Procs : pc'[p] # "done" /\ ~(p = 0 /\ failed' # {}) THEN "drift:model_not_finished_at_the_end_of_the_trace"
                                        ELSE IF Cardinality(created') # Count("crt") \/ Cardinality(parts') # Count("up") \/ Cardinality(completed') # Count("complete")
                                             THEN "drift:service_state_differs_from_model" ELSE "ok">>)
            ELSE /\ PrintT(<<"R", tid, "drift:the_model_cannot_take_step_" \o ToString(i) \o "_" \o Cur[2] \o "_of_process_" \o ToString(Cur[1])
                                       \o "_model_is_at_" \o (IF Cur[1] \in Procs THEN pc[Cur[1]] ELSE "?")>>)
                 /\ i' = 0 /\ UNCHANGED <<vars, tid>>
RSpec == RInit /\ [][RNext]_rvars
=============================================================================
