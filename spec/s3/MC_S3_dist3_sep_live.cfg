SPECIFICATION MCFairSpec
CONSTANTS
  NWriters = 3
  Mode = "dist"
  FirstUse = FALSE
  Recheck = TRUE
  TrackSched = FALSE
  CellMap = "separate"
INVARIANT AtMostOneInitiate
INVARIANT NoWriterFails
INVARIANT PartsUnderTheOneId
INVARIANT FinaliseUnderTheOneId
INVARIANT CompleteAtEnd
INVARIANT LockFreeAtEnd
PROPERTY EventuallyDone
