------------------------------ MODULE UploadLife ------------------------------
(* Life cycle of one MultiPartUpload object against the storage service (odc/geo/cog/_s3.py: initiate, write_part,
   finalise, cancel(own | other id | "all"), list_active, started) - behaviour beyond the listed properties, modelled as
   the code behaves and bound to it by replaying every behaviour of the bounded model on the real class against a
   stateful stand-in for the service.

   Service: active[id] = [key, parts] for uploads in progress, done = completed ids, gone = aborted ids.
   Keys: "k" is the object's key, "k+" a sibling key that has "k" as a prefix (listing by Prefix=key returns it too).
   Object: uid = the upload id the object holds ("" = 0).

   Deviations of the code from the obvious contract, modelled as they are and named:
     * FinaliseKeepsId   - finalise() does not clear uploadId: `started` stays true, a second initiate() trips its assertion
                           and a write goes to a completed upload (service error);
     * CancelAllSibling  - cancel("all") lists by prefix and aborts every listed id under the object's own key: a sibling
                           upload makes the service refuse (NoSuchUpload) part-way, the object keeps its id.               *)
EXTENDS Integers, Sequences, FiniteSets, TLC

CONSTANTS MaxIds, MaxSteps
Ids == 1..MaxIds
VARIABLES active, done, gone, uid, nextId, out, steps
vars == <<active, done, gone, uid, nextId, out, steps>>

Init == active = [i \in {} |-> 0] /\ done = {} /\ gone = {} /\ uid = 0 /\ nextId = 1 /\ out = "" /\ steps = <<>>
Act == DOMAIN active
OfKey(k) == {i \in Act : active[i].key = k}
Listed == Act                      \* list_multipart_uploads(Prefix = "k") returns "k" and "k+" uploads alike
Log(op, arg, o) == steps' = Append(steps, [op |-> op, arg |-> arg, out |-> o, uid |-> uid', nactive |-> Cardinality(DOMAIN active'), started |-> uid' # 0]) /\ out' = o
Fresh == nextId <= MaxIds

Initiate ==
  IF uid # 0 THEN UNCHANGED <<active, done, gone, uid, nextId>> /\ Log("initiate", 0, "AssertionError")
  ELSE /\ Fresh /\ active' = [i \in Act \cup {nextId} |-> IF i = nextId THEN [key |-> "k", parts |-> {}] ELSE active[i]]
       /\ uid' = nextId /\ nextId' = nextId + 1 /\ UNCHANGED <<done, gone>> /\ Log("initiate", 0, "ok")
WritePart(n) ==
  IF uid = 0 THEN UNCHANGED <<active, done, gone, uid, nextId>> /\ Log("write_part", n, "AssertionError")
  ELSE IF uid \notin OfKey("k") THEN UNCHANGED <<active, done, gone, uid, nextId>> /\ Log("write_part", n, "NoSuchUpload")
  ELSE active' = [active EXCEPT ![uid].parts = @ \cup {n}] /\ UNCHANGED <<done, gone, uid, nextId>> /\ Log("write_part", n, "ok")
Finalise ==
  IF uid = 0 THEN UNCHANGED <<active, done, gone, uid, nextId>> /\ Log("finalise", 0, "AssertionError")
  ELSE IF uid \notin OfKey("k") THEN UNCHANGED <<active, done, gone, uid, nextId>> /\ Log("finalise", 0, "NoSuchUpload")
  ELSE /\ active' = [i \in Act \ {uid} |-> active[i]] /\ done' = done \cup {uid}
       /\ UNCHANGED <<gone, uid, nextId>> /\ Log("finalise", 0, "ok")                       \* FinaliseKeepsId
Abort(i) == active' = [j \in Act \ {i} |-> active[j]] /\ gone' = gone \cup {i}
CancelOwn ==
  IF uid = 0 THEN UNCHANGED <<active, done, gone, uid, nextId>> /\ Log("cancel", 0, "ok")  \* nothing to do
  ELSE IF uid \notin OfKey("k") THEN UNCHANGED <<active, done, gone, uid, nextId>> /\ Log("cancel", 0, "NoSuchUpload")
  ELSE Abort(uid) /\ uid' = 0 /\ UNCHANGED <<done, nextId>> /\ Log("cancel", 0, "ok")
CancelOther(i) ==
  IF i \notin OfKey("k") THEN UNCHANGED <<active, done, gone, uid, nextId>> /\ Log("cancel_other", i, "NoSuchUpload")
  ELSE Abort(i) /\ uid' = (IF i = uid THEN 0 ELSE uid) /\ UNCHANGED <<done, nextId>> /\ Log("cancel_other", i, "ok")
\* cancel("all"): whatever the object holds, every listed upload is aborted and the object's id cleared
CancelAll ==
  IF OfKey("k+") # {} THEN       \* CancelAllSibling: ids are aborted in listing order (increasing) until the first sibling id
       LET firstSib == CHOOSE s \in OfKey("k+") : \A t \in OfKey("k+") : s <= t
           hit == {i \in OfKey("k") : i < firstSib} IN
       /\ active' = [j \in Act \ hit |-> active[j]] /\ gone' = gone \cup hit
       /\ UNCHANGED <<done, uid, nextId>> /\ Log("cancel_all", 0, "NoSuchUpload")
  ELSE /\ active' = [j \in Act \ OfKey("k") |-> active[j]] /\ gone' = gone \cup OfKey("k") /\ uid' = 0
       /\ UNCHANGED <<done, nextId>> /\ Log("cancel_all", 0, "ok")
ListActive == UNCHANGED <<active, done, gone, uid, nextId>> /\ Log("list_active", Cardinality(Listed), "ok")
\* environment: another writer (an earlier, crashed run) starts an upload for the same key, or for a sibling key
Foreign(k) == /\ Fresh /\ active' = [i \in Act \cup {nextId} |-> IF i = nextId THEN [key |-> k, parts |-> {}] ELSE active[i]]
              /\ nextId' = nextId + 1 /\ UNCHANGED <<done, gone, uid>> /\ Log("foreign", IF k = "k" THEN 0 ELSE 1, "ok")

Next == /\ Len(steps) < MaxSteps
        /\ \/ Initiate \/ (\E n \in 1..2 : WritePart(n)) \/ Finalise \/ CancelOwn \/ (\E i \in Ids : i < nextId /\ CancelOther(i)) \/ CancelAll
           \/ ListActive \/ Foreign("k") \/ Foreign("k+")
Spec == Init /\ [][Next]_vars

(* ---- what holds of the design ---- *)
IdsPartition == /\ Act \cap done = {} /\ Act \cap gone = {} /\ done \cap gone = {} /\ Act \cup done \cup gone = 1..(nextId - 1)
\* the object never holds the id of an upload it did not start or adopt, and a held id is active, completed or aborted BY SOMEBODY ELSE's call
HeldIdKnown == uid # 0 => uid \in Act \cup done \cup gone
\* a successful cancel of the own upload or cancel("all") leaves the object idle and the service without that upload
CancelReleases == (out = "ok" /\ steps # <<>> /\ steps[Len(steps)].op \in {"cancel", "cancel_all"}) => uid = 0
CancelAllCleans == (out = "ok" /\ steps # <<>> /\ steps[Len(steps)].op = "cancel_all") => OfKey("k") = {}
\* data is never added to a completed or aborted upload
PartsOnlyWhileActive == \A i \in Act : active[i].parts \subseteq 1..2
=============================================================================
