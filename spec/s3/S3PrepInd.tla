------------------------------ MODULE S3PrepInd ------------------------------
(* Inductive invariant of S3Prep for ANY number of attempts (Apalache): IndInv is inductive and implies the properties. *)
EXTENDS Naturals, FiniteSets, Apalache
VARIABLES
  \* @type: Int;
  var,
  \* @type: Str;
  phase,
  \* @type: Int;
  attempt,
  \* @type: Int;
  nextId,
  \* @type: Set(<<Int, Int>>);
  created,
  \* @type: Set(<<Int, Int>>);
  under
MaxAttempts == 1000000
ResetAlways == TRUE
INSTANCE S3Prep
IndInv ==
  /\ phase \in {"idle", "tasks", "written"}
  /\ attempt >= 0 /\ nextId >= 1 /\ var >= 0
  /\ under \subseteq created
  /\ \A c \in created : c[1] >= 1 /\ c[1] <= attempt /\ c[2] >= 1 /\ c[2] < nextId
  /\ \A c1, c2 \in created : c1[1] = c2[1] => c1 = c2
  /\ phase = "tasks" => (var = 0 /\ \A c \in created : c[1] < attempt)
  /\ phase = "written" => <<attempt, var>> \in created
  /\ phase # "idle" => attempt >= 1
IndInit == /\ var \in Nat /\ attempt \in Nat /\ nextId \in Nat /\ phase \in {"idle", "tasks", "written"}
           /\ created = Gen(5) /\ under = Gen(5)
           /\ IndInv
Props == OwnUploadOnly /\ (\A a \in 1..3 : Cardinality({c \in created : c[1] = a}) <= 1)
==============================================================================
