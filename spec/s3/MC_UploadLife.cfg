SPECIFICATION MCSpec
CONSTANTS
  MaxIds = 3
  MaxSteps = 5
INVARIANT IdsPartition
INVARIANT HeldIdKnown
INVARIANT CancelReleases
INVARIANT CancelAllCleans
INVARIANT PartsOnlyWhileActive
CHECK_DEADLOCK FALSE
