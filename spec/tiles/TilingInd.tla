------------------------------ MODULE TilingInd ------------------------------
(* C04 - regular tilings of ONE axis for ANY axis length N and tile size n (Apalache, unbounded integers): laying the tiles
   roi.Tiles hands out, in index order, covers [0, N) exactly - tiles abut, none is empty, the last one ends at N - and the
   tile count is the one the constructor computes (ceil(N / n), characterised without division: (T - 1) n < N <= T n).
   State: i tiles laid, covering [0, covered).  Tile i is [i n, min((i + 1) n, N)) as in Tiles.__getitem__; its size is the
   one Tiles.tile_shape reports (n, except the last: N - i n).  IndInv is inductive (checked with --length=1 from IndInit)
   and implies the properties; TLC's bounded Tiling model and the trace validation bind the same rule to the code.        *)
EXTENDS Integers
VARIABLES
  \* @type: Int;
  N,
  \* @type: Int;
  n,
  \* @type: Int;
  T,
  \* @type: Int;
  i,
  \* @type: Int;
  covered
Min2(a, b) == IF a < b THEN a ELSE b
Lo(k) == k * n
Hi(k) == Min2((k + 1) * n, N)
\* Tiles.tile_shape: every tile but the last has the nominal size
Size(k) == IF k < T - 1 THEN n ELSE N - k * n
CeilDef == (T - 1) * n < N /\ N <= T * n
Init == /\ N \in Int /\ n \in Int /\ T \in Int /\ N >= 1 /\ n >= 1 /\ CeilDef
        /\ i = 0 /\ covered = 0
Next == /\ i < T
        /\ i' = i + 1 /\ covered' = Hi(i)
        /\ UNCHANGED <<N, n, T>>
IndInv == /\ N >= 1 /\ n >= 1 /\ T >= 1 /\ CeilDef
          /\ 0 <= i /\ i <= T
          /\ covered = Min2(i * n, N)
\* the properties (each implied by IndInv)
Abut == i < T => Lo(i) = covered                                   \* the next tile starts where the covered part ends: no gap, no overlap
NonEmpty == i < T => Lo(i) < Hi(i)                                 \* no empty tile
SizeAgrees == i < T => Hi(i) - Lo(i) = Size(i)                     \* tile_shape agrees with the region
Complete == i = T => covered = N                                   \* the last tile ends at N
\* NOT a property (the last tile is usually smaller): Apalache must refute it - the proof obligations above are not vacuous
AllNominal == i < T => Hi(i) - Lo(i) = n
IndInit == N \in Int /\ n \in Int /\ T \in Int /\ i \in Int /\ covered \in Int /\ IndInv
==============================================================================
