------------------------------ MODULE TilingTrace ------------------------------
(* C04 - verdicts on tables logged from real Tiles / VariableSizedTiles / GeoboxTiles / BlockAssembler. *)
EXTENDS Blocks, TraceIO

\* affine <<a, b, c, d, e, f>> translated by x0 columns and y0 rows (pixel (0,0) of the crop)
Shift(A, x0, y0) == <<A[1], A[2], A[1] * x0 + A[2] * y0 + A[3], A[4], A[5], A[4] * x0 + A[5] * y0 + A[6]>>
GbxVerdict(e) ==
  LET R == e.regions IN
  IF \E r \in DOMAIN R : \E c \in DOMAIN R[r] :
        e.tgb[r][c] # <<R[r][c][2] - R[r][c][1], R[r][c][4] - R[r][c][3]>> \o Shift(e.gb, R[r][c][3], R[r][c][1]) THEN "tile_geobox_is_not_the_parent_cropped_to_the_region"
  ELSE IF e.parent # <<>> /\ (LET p == e.parent[1] g == p.preg[p.q[1] + 1][p.q[3] + 1] IN e.gb # Shift(p.pgb, g[3], g[1])) THEN "cropped_tiling_not_anchored_at_the_cropped_rectangle"
  ELSE IF e.parent = <<>> /\ e.gb # e.d.aff THEN "base_geobox_changed"
  ELSE "ok"
Verdict(e) ==
  IF e.kind = "blocks" THEN (LET v == BlocksVerdict(e) IN IF v # "ok" THEN "reject:" \o v ELSE "ok")
  ELSE IF e.outcome # "ok" THEN "reject:raised_" \o e.outcome
  ELSE LET v == TableVerdict(e) IN IF v # "ok" THEN "reject:" \o v
       ELSE LET g == GbxVerdict(e) IN IF g # "ok" THEN "reject:" \o g
       ELSE IF e.chunks # CropChunks(ModelChunks(e.d), e.crops) THEN "drift:chunks_differ_from_model" ELSE "ok"
VARIABLE l
Init == l = 1
Next == l <= NEvents /\ PrintT(<<"V", l, Verdict(Events[l])>>) /\ l' = l + 1
Spec == Init /\ [][Next]_l
=============================================================================
