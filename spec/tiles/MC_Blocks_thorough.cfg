SPECIFICATION Spec
CONSTANTS
  ChYs = {"a", "b", "c"}
  ChXs = {"d", "e", "f"}
INVARIANT FullMosaicOK
