------------------------------- MODULE TilingGen -------------------------------
(* C04 - domain of tilings, crops and parent grids; design-level check of the 1-d model; emission. *)
EXTENDS Tiling, CaseIO
CONSTANTS MaxN, MaxTile

\* all compositions of n into at most k positive parts, plus a few with an empty chunk
RECURSIVE Comps(_, _)
Comps(n, k) == IF n = 0 THEN {<<>>} ELSE IF k = 0 THEN {}
               ELSE UNION {{<<h>> \o t : t \in Comps(n - h, k - 1)} : h \in 1..n}
VarAxes == UNION {Comps(n, 4) : n \in 1..(MaxN - 1)} \cup {<<0, 3>>, <<2, 0, 2>>, <<3, 0>>}
Affs == {<<10, 0, 100, 0, -10, 200>>, <<0, 10, 100, 10, 0, 200>>, <<2, 1, 5, 1, 3, 7>>}

Quads(ny, nx) == {<<r0, r1, c0, c1>> : r0 \in 0..(ny - 1), r1 \in 1..ny, c0 \in 0..(nx - 1), c1 \in 1..nx} 
ValidQ(q) == q[1] < q[2] /\ q[3] < q[4]
CropsFor(ch) == LET ny == Len(ch[1]) nx == Len(ch[2])
                    qs == {q \in Quads(ny, nx) : ValidQ(q)} IN
  {<<>>} \cup {<<q>> : q \in qs}
  \cup {<<q, q2>> : q \in {x \in qs : x[2] - x[1] >= 2 \/ x[4] - x[3] >= 2},
                    q2 \in {<<0, 1, 0, 1>>, <<1, 2, 0, 1>>, <<0, 1, 1, 2>>, <<0, 2, 0, 1>>}}
Fits(ch, crops) == \/ Len(crops) < 2
                   \/ LET c1 == CropChunks(ch, <<crops[1]>>) IN crops[2][2] <= Len(c1[1]) /\ crops[2][4] <= Len(c1[2])

Descs(kind, N) ==
  IF kind = "reg" THEN UNION {{[kind |-> "reg", base |-> <<N, nx>>, tile |-> <<ty, tx>>, aff |-> a] :
                                  ty \in 1..MaxTile, tx \in 1..MaxTile, a \in IF N = nx THEN Affs ELSE {<<10, 0, 100, 0, -10, 200>>}} : nx \in 1..MaxN}
  ELSE {[kind |-> "var", cy |-> cy, cx |-> cx, aff |-> <<10, 0, 100, 0, -10, 200>>] : cy \in {v \in VarAxes : SumSeq(v) = N}, cx \in VarAxes}
CasesFor(kind, N) == UNION {{[d |-> d, crops |-> cr] : cr \in {x \in CropsFor(ModelChunks(d)) : Fits(ModelChunks(d), x)}} : d \in Descs(kind, N)}

VARIABLE c
\* (empty rectangles are outside the statement: 1 <= N)
Init == c \in {[op |-> "chunk", kind |-> k, N |-> n] : k \in {"reg", "var"}, n \in 1..MaxN}
Next == c.op = "chunk" /\ c' \in {[op |-> "case"] @@ x : x \in CasesFor(c.kind, c.N)} /\ Emit(c')
Spec == Init /\ [][Next]_c
\* design-level: the 1-d model is an exact partition with inverse lookup; regular crop = chunk slicing
AxisModelOK == c.op = "chunk" =>
   /\ \A n \in 1..MaxTile : AxisOK(RegChunks(c.N, n), c.N) /\ RegCropOK(c.N, n)
   \* the rule proved for unbounded N, n in TilingInd.tla (tile k = [k n, min((k + 1) n, N)), count T with (T - 1) n < N <= T n) IS this model's rule
   /\ \A n \in 1..MaxTile : LET ch == RegChunks(c.N, n) T == Len(ch) IN
        /\ (T - 1) * n < c.N /\ c.N <= T * n
        /\ \A k \in 0..(T - 1) : Region(ch, k, k + 1) = <<k * n, IF (k + 1) * n < c.N THEN (k + 1) * n ELSE c.N>>
   /\ \A v \in {x \in VarAxes : SumSeq(x) = c.N} : AxisOK(v, c.N)
CropModelOK == c.op = "case" => LET ch == CropChunks(ModelChunks(c.d), c.crops) IN
   AxisOK(ch[1], SumSeq(ch[1])) /\ AxisOK(ch[2], SumSeq(ch[2]))
=============================================================================
