------------------------------- MODULE BlocksGen -------------------------------
EXTENDS Blocks, CaseIO, SequencesExt
CONSTANTS ChYs, ChXs
Lay(name) == CASE name = "a" -> <<2>> [] name = "b" -> <<1, 2>> [] name = "c" -> <<2, 1, 1>> [] name = "d" -> <<3>> [] name = "e" -> <<2, 2>> [] name = "f" -> <<1, 1, 2>>
Tiles(chy, chx) == {<<r, c>> : r \in 0..(Len(chy) - 1), c \in 0..(Len(chx) - 1)}
Wins(H, W) == {<<y0, y1, x0, x1>> : y0 \in 0..(H - 1), y1 \in 1..H, x0 \in 0..(W - 1), x1 \in 1..W}
\* variant (axis position, extra axes, dtype, fill, plane pick) is a function of the case so that the
\* product does not multiply: every variant occurs for many (present, window) combinations
Variants == << [axis |-> 0, pre |-> 0, post |-> 0, dtype |-> "int16", fill |-> 0, fillarg |-> <<>>, pick |-> <<>>],
               [axis |-> 0, pre |-> 0, post |-> 2, dtype |-> "uint8", fill |-> 0, fillarg |-> <<>>, pick |-> <<>>],
               [axis |-> 1, pre |-> 2, post |-> 0, dtype |-> "int8", fill |-> 0, fillarg |-> <<>>, pick |-> <<>>],
               [axis |-> 1, pre |-> 2, post |-> 0, dtype |-> "float32", fill |-> -1, fillarg |-> <<>>, pick |-> <<1>>],
               [axis |-> 0, pre |-> 0, post |-> 0, dtype |-> "float64", fill |-> -1, fillarg |-> <<>>, pick |-> <<>>],
               [axis |-> 0, pre |-> 0, post |-> 0, dtype |-> "bool", fill |-> 0, fillarg |-> <<>>, pick |-> <<>>],
               [axis |-> 0, pre |-> 0, post |-> 0, dtype |-> "int16", fill |-> -7, fillarg |-> <<-7>>, pick |-> <<>>],
               [axis |-> 1, pre |-> 1, post |-> 2, dtype |-> "uint8", fill |-> 200, fillarg |-> <<200>>, pick |-> <<0>>],
               [axis |-> 1, pre |-> 2, post |-> 0, dtype |-> "int32", fill |-> 0, fillarg |-> <<>>, pick |-> <<0>>],
               \* mixed: the first block handed over has a narrower dtype of the same kind than the others (the mosaic has their common type)
               [axis |-> 0, pre |-> 0, post |-> 0, dtype |-> "int16", fill |-> 0, fillarg |-> <<>>, pick |-> <<>>, mixed |-> "int8"],
               [axis |-> 0, pre |-> 0, post |-> 2, dtype |-> "uint16", fill |-> 0, fillarg |-> <<>>, pick |-> <<>>, mixed |-> "uint8"],
               \* a fill value the blocks' own type cannot hold: absent tiles must still carry exactly that value (the result is of a wider type)
               [axis |-> 0, pre |-> 0, post |-> 0, dtype |-> "int16", fill |-> 40000, fillarg |-> <<40000>>, pick |-> <<>>],
               [axis |-> 1, pre |-> 2, post |-> 0, dtype |-> "int8", fill |-> 200, fillarg |-> <<200>>, pick |-> <<>>],
               [axis |-> 0, pre |-> 0, post |-> 2, dtype |-> "uint8", fill |-> 300, fillarg |-> <<300>>, pick |-> <<>>] >>
CasesFor(ny, nx) == LET chy == Lay(ny) chx == Lay(nx) H == SumSeq(chy) W == SumSeq(chx) IN
  {[chy |-> chy, chx |-> chx, present |-> SetToSeq(p), win |-> w] @@
     Variants[((Cardinality(p) + w[1] + 2 * w[2] + 3 * w[3] + 5 * w[4]) % Len(Variants)) + 1] :
       p \in SUBSET Tiles(chy, chx), w \in {x \in Wins(H, W) : x[1] < x[2] /\ x[3] < x[4]}}
VARIABLE c
Init == c \in {[op |-> "chunk", ny |-> a, nx |-> b] : a \in ChYs, b \in ChXs}
Next == c.op = "chunk" /\ c' \in {[op |-> "case"] @@ x : x \in CasesFor(c.ny, c.nx)} /\ Emit(c')
Spec == Init /\ [][Next]_c
\* design-level sanity of the model: a window of the mosaic built from ALL blocks contains every id once
FullMosaicOK == c.op = "case" =>
  LET e == [c EXCEPT !.present = SetToSeq(Tiles(c.chy, c.chx))] @@ [vk |-> "id", nplanes |-> 1, outcome |-> "ok"]
      m == Extract([e EXCEPT !.pick = <<>>]) IN
  \A r \in DOMAIN m[1] : \A cc \in DOMAIN m[1][r] : m[1][r][cc] = Id(SumSeq(c.chy), SumSeq(c.chx), 0, c.win[1] + r - 1, c.win[3] + cc - 1)
=============================================================================
