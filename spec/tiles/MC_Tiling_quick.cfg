SPECIFICATION Spec
CONSTANTS
  MaxN = 5
  MaxTile = 6
INVARIANT AxisModelOK
INVARIANT CropModelOK
