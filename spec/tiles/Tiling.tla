-------------------------------- MODULE Tiling --------------------------------
(* C04 - regular and variable-sized tilings of a pixel rectangle (odc/geo/roi.py Tiles,
   VariableSizedTiles, clip_tiles; odc/geo/geobox.py GeoboxTiles).
   The code treats the two axes independently, so the implementation-shaped model is 1-d:
   an axis tiling is the sequence of tile sizes; everything else derives from it.
   The contract is 2-d and is stated on the tables the harness logs from the real objects. *)
EXTENDS IntMath, Sequences, FiniteSets, TLC

RECURSIVE SumSeq(_)
SumSeq(s) == IF s = <<>> THEN 0 ELSE Head(s) + SumSeq(Tail(s))

(* ------------------------- implementation-shaped model ------------------------- *)
\* Tiles(N, n): ceil(N/n) tiles, the last one clamped  (N >= 0, n >= 1)
RegChunks(N, n) == LET cnt == CeilDiv(N, n) IN [i \in 1..cnt |-> IF i < cnt THEN n ELSE N - (cnt - 1) * n]
\* offsets as VariableSizedTiles keeps them: 0, c1, c1+c2, ...
Offsets(ch) == [i \in 1..(Len(ch) + 1) |-> SumSeq(SubSeq(ch, 1, i - 1))]
\* region of tiles [a, b) (0-based, half open) as <<start, stop>>
Region(ch, a, b) == <<Offsets(ch)[a + 1], Offsets(ch)[b + 1]>>
\* tile containing pixel p: searchsorted(offsets[1:], p, "right")
Locate(ch, p) == Cardinality({i \in 1..Len(ch) : Offsets(ch)[i + 1] <= p})
\* crop to tiles [a, b): regular tilings are rebuilt from the cropped length, variable ones slice the chunks
CropReg(N, n, a, b) == RegChunks(Region(RegChunks(N, n), a, b)[2] - Region(RegChunks(N, n), a, b)[1], n)
CropVar(ch, a, b) == SubSeq(ch, a + 1, b)

\* design-level facts (checked by TLC over all small axes)
AxisOK(ch, N) ==
  /\ SumSeq(ch) = N
  /\ \A i \in 1..Len(ch) : Region(ch, i - 1, i)[2] - Region(ch, i - 1, i)[1] = ch[i]
  /\ \A i \in 1..(Len(ch) - 1) : Region(ch, i - 1, i)[2] = Region(ch, i, i + 1)[1]          \* abut: disjoint, no gap
  /\ Len(ch) > 0 => (Region(ch, 0, 1)[1] = 0 /\ Region(ch, Len(ch) - 1, Len(ch))[2] = N)     \* cover exactly
  /\ \A p \in 0..(N - 1) : LET t == Locate(ch, p) IN Region(ch, t, t + 1)[1] <= p /\ p < Region(ch, t, t + 1)[2]
RegCropOK(N, n) == \A a \in 0..Len(RegChunks(N, n)), b \in 0..Len(RegChunks(N, n)) : a < b =>
  CropReg(N, n, a, b) = CropVar(RegChunks(N, n), a, b)       \* rebuilding from the cropped length = slicing the chunks

(* ---------------------- contract on logged 2-d tables ---------------------- *)
(* e.t: [ny, nx] tile counts; e.base: <<NY, NX>>; e.chunks: <<chy, chx>>;
   e.regions[r][c] = <<y0, y1, x0, x1>>; e.neg[r][c] = the same looked up with negative indices;
   e.tshape[r][c] = <<h, w>>; e.locate[y][x] = <<r, c>> for every pixel;
   e.rois = sequence of [q: <<r0, r1, c0, c1>>, out: <<y0, y1, x0, x1>>] (tile-index slices);
   e.parent = <<>> or <<[q, preg, chunks]>>: this tiling is parent.crop(q); preg[r][c] = parent regions  *)
Pix(reg) == {<<y, x>> : y \in reg[1]..(reg[2] - 1), x \in reg[3]..(reg[4] - 1)}
TableVerdict(e) ==
  LET NY == e.base[1] NX == e.base[2] ny == e.t[1] nx == e.t[2] R == e.regions IN
  IF ny # Len(e.chunks[1]) \/ nx # Len(e.chunks[2]) \/ Len(R) # ny \/ (ny > 0 /\ \E r \in 1..ny : Len(R[r]) # nx) THEN "shape_and_tables_disagree"
  ELSE IF \E r \in 1..ny, c \in 1..nx : ~(0 <= R[r][c][1] /\ R[r][c][1] <= R[r][c][2] /\ R[r][c][2] <= NY /\ 0 <= R[r][c][3] /\ R[r][c][3] <= R[r][c][4] /\ R[r][c][4] <= NX) THEN "tile_outside_rectangle"
  ELSE IF \E r1, r2 \in 1..ny, c1, c2 \in 1..nx : <<r1, c1>> # <<r2, c2>> /\ Pix(R[r1][c1]) \cap Pix(R[r2][c2]) # {} THEN "tiles_overlap"
  ELSE IF UNION {Pix(R[r][c]) : r \in 1..ny, c \in 1..nx} # Pix(<<0, NY, 0, NX>>) THEN "tiles_do_not_cover_rectangle"
  ELSE IF \E r \in 1..ny, c \in 1..nx : e.tshape[r][c] # <<R[r][c][2] - R[r][c][1], R[r][c][4] - R[r][c][3]>> THEN "tile_shape_ne_region_shape"
  ELSE IF \E r \in 1..ny, c \in 1..nx : e.chunks[1][r] # R[r][c][2] - R[r][c][1] \/ e.chunks[2][c] # R[r][c][4] - R[r][c][3] THEN "chunks_ne_region_shapes"
  ELSE IF e.neg # R THEN "negative_index_differs"
  \* e.oob = indices / pixels outside the tiling that were ANSWERED instead of refused (IndexError): <<kind, y, x>>
  ELSE IF e.oob # <<>> THEN "index_or_pixel_outside_the_tiling_was_not_refused"
  ELSE IF \E y \in 1..NY, x \in 1..NX : LET t == e.locate[y][x] IN ~(t[1] \in 0..(ny - 1) /\ t[2] \in 0..(nx - 1) /\ <<y - 1, x - 1>> \in Pix(R[t[1] + 1][t[2] + 1])) THEN "locate_not_inverse_of_region"
  ELSE IF \E k \in DOMAIN e.rois : LET q == e.rois[k].q o == e.rois[k].out IN
          Pix(o) # UNION {Pix(R[r][c]) : r \in (q[1] + 1)..q[2], c \in (q[3] + 1)..q[4]} THEN "roi_lookup_is_not_the_union_of_its_tiles"
  ELSE IF e.parent # <<>> /\ (LET p == e.parent[1] q == p.q
                                 y0 == p.preg[q[1] + 1][q[3] + 1][1] x0 == p.preg[q[1] + 1][q[3] + 1][3] IN
          \/ ny # q[2] - q[1] \/ nx # q[4] - q[3]
          \/ Len(p.preg) < q[2] \/ (\E r \in (q[1] + 1)..q[2] : Len(p.preg[r]) < q[4])         \* (the parent's own table is short: verdicts stay total)
          \/ \E r \in 1..ny, c \in 1..nx : LET g == p.preg[q[1] + r][q[3] + c] IN
                R[r][c] # <<g[1] - y0, g[2] - y0, g[3] - x0, g[4] - x0>>) THEN "crop_is_not_the_rebased_tiling_of_the_cropped_rectangle"
  ELSE "ok"
\* conformance with the 1-d model
ModelChunks(d) == IF d.kind = "reg" THEN <<RegChunks(d.base[1], d.tile[1]), RegChunks(d.base[2], d.tile[2])>> ELSE <<d.cy, d.cx>>
\* clip(selection of tiles) = crop to the bounding block of the selection (per-axis min / max of the indices, whatever the
\* order or shape of the selection), with the selected indices re-based to the block's corner
BlockOf(sel) == <<SetMin({s[1] : s \in sel}), SetMax({s[1] : s \in sel}) + 1, SetMin({s[2] : s \in sel}), SetMax({s[2] : s \in sel}) + 1>>
RECURSIVE CropChunks(_, _)
CropChunks(ch, crops) == IF crops = <<>> THEN ch
                         ELSE CropChunks(<<SubSeq(ch[1], Head(crops)[1] + 1, Head(crops)[2]), SubSeq(ch[2], Head(crops)[3] + 1, Head(crops)[4])>>, Tail(crops))
=============================================================================
