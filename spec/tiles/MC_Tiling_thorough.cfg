SPECIFICATION Spec
CONSTANTS
  MaxN = 7
  MaxTile = 8
INVARIANT AxisModelOK
INVARIANT CropModelOK
