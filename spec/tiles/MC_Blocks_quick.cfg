SPECIFICATION Spec
CONSTANTS
  ChYs = {"a", "b"}
  ChXs = {"d", "e", "f"}
INVARIANT FullMosaicOK
