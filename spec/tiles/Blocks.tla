-------------------------------- MODULE Blocks --------------------------------
(* C04 - assembling 2-d (or N-d with leading / trailing axes) blocks placed at tile positions
   (odc/geo/_blocks.py BlockAssembler.extract / __getitem__).
   The mosaic is an image of unique pixel ids  id(p, y, x) = 1 + x + W*(y + H*p)  (p = plane over the
   extra axes); a present block holds the ids of its region; Extract(window) must be exactly the
   window of the full mosaic with absent tiles replaced by the fill value.
   Extract is a FUNCTION of (blocks, window): no history of earlier extractions, and nothing the caller
   does to the arrays it got back, can change a later answer or the caller's own blocks.  The driver
   therefore runs half of the cases after an "extract, overwrite the result" history (outcomes
   input_blocks_were_modified_through_an_earlier_result / a wrong measured window).              *)
EXTENDS Tiling

Id(H, W, p, y, x) == 1 + x + W * (y + H * p)
TileOf(ch, p) == Locate(ch, p)
\* expected value at plane p, mosaic pixel (y, x); vk = "id" | "parity" (bool blocks carry id % 2)
Cell(e, H, W, p, y, x) ==
  IF <<TileOf(e.chy, y), TileOf(e.chx, x)>> \in {e.present[i] : i \in DOMAIN e.present}
  THEN (IF e.vk = "parity" THEN Id(H, W, p, y, x) % 2 ELSE Id(H, W, p, y, x))
  ELSE e.fill
\* planes requested: all of them, or the single one picked with an integer index
Planes(e) == IF e.pick = <<>> THEN [i \in 1..e.nplanes |-> i - 1] ELSE <<e.pick[1]>>
Extract(e) ==
  LET H == SumSeq(e.chy) W == SumSeq(e.chx) w == e.win IN
  [k \in 1..Len(Planes(e)) |-> [r \in 1..(w[2] - w[1]) |-> [c \in 1..(w[4] - w[3]) |->
      Cell(e, H, W, Planes(e)[k], w[1] + r - 1, w[3] + c - 1)]]]
BlocksVerdict(e) == IF e.outcome # "ok" THEN "raised_" \o e.outcome
                    ELSE IF e.out # Extract(e) THEN "window_is_not_the_mosaic_window_with_fill" ELSE "ok"
=============================================================================
