------------------------------- MODULE CaseIO -------------------------------
(* Emission of the cases / behaviours TLC visits, for execution on the real code.
   When the environment variable VH_EMIT is set, every case state reached by the model
   checking run is printed as one JSON line; the harness collects them.  (Serialising a
   whole case set with JsonSerialize needs the set normalised, which is far slower.)   *)
EXTENDS TLC, Json, IOUtils
EmitOn == "VH_EMIT" \in DOMAIN IOEnv
Emit(x) == IF EmitOn THEN PrintT(<<"C", ToJson(x)>>) ELSE TRUE
=============================================================================
