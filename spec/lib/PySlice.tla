------------------------------ MODULE PySlice ------------------------------
(* Python / numpy basic slicing semantics, from first principles
   (the language reference's slice.indices()), independent of odc-geo.
   A slice is a record [start, stop, step] of optional integers (see IntMath.Opt);
   an integer index i is the record [int |-> i].                                   *)
EXTENDS IntMath, Sequences, FiniteSets

Sl(start, stop, step) == [start |-> start, stop |-> stop, step |-> step]
Sl2(a, b) == Sl(<<a>>, <<b>>, <<>>)
IsInt(s) == "int" \in DOMAIN s

StepOf(s) == OrElse(s.step, 1)

\* lower/upper bound as computed by slice.indices(n)
LoOf(s, n) ==
  IF StepOf(s) > 0
  THEN IF s.start = <<>> THEN 0
       ELSE IF s.start[1] < 0 THEN Max2(s.start[1] + n, 0) ELSE Min2(s.start[1], n)
  ELSE IF s.start = <<>> THEN n - 1
       ELSE IF s.start[1] < 0 THEN Max2(s.start[1] + n, -1) ELSE Min2(s.start[1], n - 1)
HiOf(s, n) ==
  IF StepOf(s) > 0
  THEN IF s.stop = <<>> THEN n
       ELSE IF s.stop[1] < 0 THEN Max2(s.stop[1] + n, 0) ELSE Min2(s.stop[1], n)
  ELSE IF s.stop = <<>> THEN -1
       ELSE IF s.stop[1] < 0 THEN Max2(s.stop[1] + n, -1) ELSE Min2(s.stop[1], n - 1)

Count(s, n) ==
  LET st == StepOf(s) lo == LoOf(s, n) hi == HiOf(s, n) IN
  IF st > 0 THEN Max2(0, CeilDiv(hi - lo, st)) ELSE Max2(0, CeilDiv(lo - hi, -st))

\* the sequence of indices X[s] selects from an array of length n
Indices(s, n) ==
  IF IsInt(s)
  THEN LET i == IF s.int < 0 THEN s.int + n ELSE s.int IN
       IF 0 <= i /\ i < n THEN <<i>> ELSE <<>>         \* (numpy raises for out of range)
  ELSE [k \in 1..Count(s, n) |-> LoOf(s, n) + (k - 1) * StepOf(s)]
IntInRange(s, n) == IsInt(s) => (-n <= s.int /\ s.int < n)

SeqRange(q) == {q[k] : k \in DOMAIN q}
IndexSet(s, n) == SeqRange(Indices(s, n))

\* X[a][b]: indices of the original array selected by slicing twice
Compose(a, b, n) == LET ia == Indices(a, n) ib == Indices(b, Len(ia)) IN
                    [k \in 1..Len(ib) |-> ia[ib[k] + 1]]
=============================================================================
