------------------------------ MODULE TraceIO ------------------------------
(* Reading traces recorded from the real code.  One JSON document per batch:
   {"meta": {...}, "events": [ {...}, ... ]} ; path in the TRACE_FILE env variable. *)
EXTENDS Integers, Sequences, TLC, Json, IOUtils

TraceDoc == JsonDeserialize(IOEnv.TRACE_FILE)
Events == TraceDoc.events
Meta == TraceDoc.meta
NEvents == Len(Events)
Has(r, f) == f \in DOMAIN r
=============================================================================
