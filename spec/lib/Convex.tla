-------------------------------- MODULE Convex --------------------------------
(* Separating-axis tests for convex polygons with integer vertices (sequences of <<x, y>>),
   exact; validated against shapely's intersection area / distance in the design phase.   *)
EXTENDS Integers, Sequences, FiniteSets
CvxEdges(P) == {<<P[i], P[(i % Len(P)) + 1]>> : i \in 1..Len(P)}
CvxNormal(e) == <<-(e[2][2] - e[1][2]), e[2][1] - e[1][1]>>
CvxDot(n, p) == n[1] * p[1] + n[2] * p[2]
CvxProj(n, P) == {CvxDot(n, P[i]) : i \in 1..Len(P)}
CvxMax(S) == CHOOSE x \in S : \A y \in S : y <= x
CvxMin(S) == CHOOSE x \in S : \A y \in S : x <= y
CvxAxes(P, Q) == {CvxNormal(e) : e \in CvxEdges(P) \cup CvxEdges(Q)} \ {<<0, 0>>}
\* interiors intersect <=> on every axis the projections overlap with positive length
InteriorOverlap(P, Q) == \A n \in CvxAxes(P, Q) : CvxMax(CvxProj(n, P)) > CvxMin(CvxProj(n, Q)) /\ CvxMax(CvxProj(n, Q)) > CvxMin(CvxProj(n, P))
\* closed sets disjoint <=> some axis separates strictly
StrictlyDisjoint(P, Q) == \E n \in CvxAxes(P, Q) : CvxMax(CvxProj(n, P)) < CvxMin(CvxProj(n, Q)) \/ CvxMax(CvxProj(n, Q)) < CvxMin(CvxProj(n, P))
RectPoly(x0, y0, x1, y1) == <<<<x0, y0>>, <<x1, y0>>, <<x1, y1>>, <<x0, y1>>>>
=============================================================================
