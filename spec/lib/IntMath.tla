------------------------------ MODULE IntMath ------------------------------
(* Integer helpers shared by all odc-geo models.  Everything is exact.      *)
EXTENDS Integers

Abs(a) == IF a < 0 THEN -a ELSE a
Min2(a, b) == IF a < b THEN a ELSE b
Max2(a, b) == IF a > b THEN a ELSE b
Sgn(a) == IF a > 0 THEN 1 ELSE IF a < 0 THEN -1 ELSE 0
Clamp(v, lo, hi) == IF v < lo THEN lo ELSE IF v > hi THEN hi ELSE v

\* floor / ceil of a / b for either sign of a and b (b # 0); TLC's \div floors for b > 0
FloorDiv(a, b) == IF b > 0 THEN a \div b ELSE (-a) \div (-b)
CeilDiv(a, b)  == -FloorDiv(-a, b)
\* truncation toward zero (C / Python int(), math.fmod companion)
TruncDiv(a, b) == IF (a >= 0) = (b > 0) THEN Abs(a) \div Abs(b) ELSE -(Abs(a) \div Abs(b))
\* Python's % (result has the sign of b)
PyMod(a, b) == a - b * FloorDiv(a, b)

AlignDown(x, a) == x - PyMod(x, a)
AlignUp(x, a)   == AlignDown(x + (a - 1), a)

RECURSIVE Pow2(_)
Pow2(n) == IF n <= 0 THEN 1 ELSE 2 * Pow2(n - 1)
RECURSIVE Pow2UpFrom(_, _)
Pow2UpFrom(x, p) == IF p >= x THEN p ELSE Pow2UpFrom(x, 2 * p)
\* smallest power of two >= x (x >= 1)
Pow2Up(x) == Pow2UpFrom(x, 1)
RECURSIVE Pow2DownFrom(_, _)
Pow2DownFrom(x, p) == IF 2 * p > x THEN p ELSE Pow2DownFrom(x, 2 * p)
\* largest power of two <= x (x >= 1)
Pow2Down(x) == Pow2DownFrom(x, 1)

SetMax(S) == CHOOSE x \in S : \A y \in S : y <= x
SetMin(S) == CHOOSE x \in S : \A y \in S : x <= y

\* optional values: <<>> is None, <<v>> is Some(v)  (TLC cannot compare an int with a string)
None == <<>>
Some(v) == <<v>>
IsNone(o) == o = <<>>
Opt(S) == {<<>>} \cup {<<v>> : v \in S}
OrElse(o, d) == IF o = <<>> THEN d ELSE o[1]
=============================================================================
