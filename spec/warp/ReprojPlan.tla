------------------------------- MODULE ReprojPlan -------------------------------
(* C03 / C10 - reprojection planning for grids sharing a CRS (odc/geo/overlap.py:
   compute_axis_overlap, box_overlap, _can_paste, _pick_read_scale, compute_reproject_roi, and the
   sampled path through roi_from_points), in exact rational arithmetic.

   The destination-to-source pixel map is  xs = (A[1]*xd + A[2]*yd + A[3]) / D,  ys = (A[4]*xd + A[5]*yd + A[6]) / D
   with integer numerators (D = 960 = 64*3*5 carries sub-pixel residues k/64, scales 1/3, 2/3, 3/2 and 3-4-5 rotations).
   ROIs are <<y0, y1, x0, x1>>.                                                                  *)
EXTENDS IntMath, Sequences, FiniteSets, TLC

D == 960
IsST(A) == A[2] = 0 /\ A[4] = 0

(* ------------------ first principles: which pixels are needed ------------------ *)
\* twice the source position of the centre of destination pixel (xd, yd), over D
Cx2(A, xd, yd) == A[1] * (2 * xd + 1) + A[2] * (2 * yd + 1) + 2 * A[3]
Cy2(A, xd, yd) == A[4] * (2 * xd + 1) + A[5] * (2 * yd + 1) + 2 * A[6]
MapsInside(c, xd, yd) == /\ 0 <= Cx2(c.A, xd, yd) /\ Cx2(c.A, xd, yd) < 2 * D * c.ws
                         /\ 0 <= Cy2(c.A, xd, yd) /\ Cy2(c.A, xd, yd) < 2 * D * c.hs
Needed(c) == {<<xd, yd>> \in (0..(c.wd - 1)) \X (0..(c.hd - 1)) : MapsInside(c, xd, yd)}
SrcPix(c, p) == <<FloorDiv(Cx2(c.A, p[1], p[2]), 2 * D), FloorDiv(Cy2(c.A, p[1], p[2]), 2 * D)>>
InRoi(roi, x, y) == roi[3] <= x /\ x < roi[4] /\ roi[1] <= y /\ y < roi[2]
Area(roi) == Max2(0, roi[2] - roi[1]) * Max2(0, roi[4] - roi[3])

(* ------------------------- transcription: exact paste path ------------------------- *)
\* compute_axis_overlap(Ns, Nd, s, t) with s = S0/D, t = T0/D  ->  [s0, s1, d0, d1]
AxisOverlap(Ns, Nd, S0, T0) ==
  LET flip == S0 < 0
      S == IF flip THEN -S0 ELSE S0
      T == IF flip THEN Ns * D - T0 ELSE T0
      inS == IF T < 0 THEN 0 ELSE Min2(FloorDiv(T, D), Ns)
      inD == IF T < 0 THEN Min2(FloorDiv(-T, S), Nd) ELSE 0
      a   == CeilDiv(Nd * S + T, D)
      outS == IF a <= Ns THEN Max2(a, 0) ELSE Ns
      outD == IF a <= Ns THEN Nd ELSE Max2(0, CeilDiv(Ns * D - T, S))
  IN [s0 |-> IF flip THEN Ns - outS ELSE inS, s1 |-> IF flip THEN Ns - inS ELSE outS, d0 |-> inD, d1 |-> outD]
\* scale of an S+T map and the read-shrink choice (_pick_read_scale with the near-integer snap; lattice scales are exact)
ScaleNum(A) == Min2(Abs(A[1]), Abs(A[5]))
Shrink(A) == IF ScaleNum(A) < D THEN 1 ELSE ScaleNum(A) \div D
\* |frac(n/d)| <= tol  with tol = tn/td  (is_almost_int)
NearInt(n, d, tn, td) == LET m == PyMod(n, d) IN Min2(m, d - m) * td < tn * d
\* _can_paste
CanPaste(A, ttn, ttd, stn, std) ==
  /\ IsST(A)
  /\ NearInt(ScaleNum(A), D, stn, std)
  /\ LET k == Shrink(A) IN
     /\ Abs(A[1]) = k * D /\ Abs(A[5]) = k * D                         \* |s|/k = 1 on both axes (lattice: exact or off by >= 1/64)
     /\ NearInt(A[3], k * D, ttn, ttd) /\ NearInt(A[6], k * D, ttn, ttd)
\* translation snapped to the nearest integer number of (overview) pixels, as snap_affine does inside the tolerance
SnapT(t, kd) == LET m == PyMod(t, kd) IN IF 2 * m <= kd THEN t - m ELSE t + (kd - m)
PastePlan(c) ==
  LET A == c.A k == Shrink(A)
      sgnx == Sgn(A[1]) sgny == Sgn(A[5])
      \* map into the overview (zoom_out(k)) pixel space, snapped: scale +-1, integer translation
      tx == SnapT(A[3], k * D) \div k ty == SnapT(A[6], k * D) \div k
      ws == IF k = 1 THEN c.ws ELSE Max2(1, CeilDiv(c.ws, k)) hs == IF k = 1 THEN c.hs ELSE Max2(1, CeilDiv(c.hs, k))
      ox == AxisOverlap(ws, c.wd, sgnx * D, tx) oy == AxisOverlap(hs, c.hd, sgny * D, ty) IN
  [roi_src |-> <<oy.s0 * k, oy.s1 * k, ox.s0 * k, ox.s1 * k>>, roi_dst |-> <<oy.d0, oy.d1, ox.d0, ox.d1>>]

(* ------------------------- transcription: sampled path (pts_per_side = 2) ------------------------- *)
\* corners of the destination image mapped into source pixels (numerators over D), enveloped, padded, aligned, clipped
CornersD(c) == {<<0, 0>>, <<c.wd, 0>>, <<c.wd, c.hd>>, <<0, c.hd>>}
Fx(A, p) == A[1] * p[1] + A[2] * p[2] + A[3]
Fy(A, p) == A[4] * p[1] + A[5] * p[2] + A[6]
EnvAxis(vals, n, pad, align) ==
  LET lo0 == FloorDiv(SetMin(vals), D) - pad hi0 == CeilDiv(SetMax(vals), D) + pad
      lo == IF align = <<>> THEN lo0 ELSE AlignDown(lo0, align[1]) hi == IF align = <<>> THEN hi0 ELSE AlignUp(hi0, align[1]) IN
  <<Clamp(lo, 0, n), Clamp(hi, 0, n)>>
SampledSrcRoi(c, pad) ==
  LET ex == EnvAxis({Fx(c.A, p) : p \in CornersD(c)}, c.ws, pad, c.align) ey == EnvAxis({Fy(c.A, p) : p \in CornersD(c)}, c.hs, pad, c.align) IN
  <<ey[1], ey[2], ex[1], ex[2]>>

\* squared per-axis pixel size ratio (numerators over D): column norms of the linear part
ScaleSq(A) == Min2(A[1] * A[1] + A[4] * A[4], A[2] * A[2] + A[5] * A[5])

(* ------------------------------- contract (C03) ------------------------------- *)
\* padding=None means 1 source pixel whenever the exact paste path is not taken (also for scale+translation maps)
PadOf(c) == IF c.pad = <<>> THEN 1 ELSE c.pad[1]
\* the destination image, mapped into source pixels, stays farther than pad (+ alignment) from the source image
Separated(c) ==
  LET xs == {Fx(c.A, p) : p \in CornersD(c)} ys == {Fy(c.A, p) : p \in CornersD(c)}
      m == (PadOf(c) + 1 + (IF c.align = <<>> THEN 0 ELSE c.align[1])) * D IN
  \/ SetMax(xs) < -m \/ SetMin(xs) > c.ws * D + m \/ SetMax(ys) < -m \/ SetMin(ys) > c.hs * D + m
PlanOK(c, o) ==
  LET k == o.shrink rs == o.roi_src rd == o.roi_dst IN
  IF k < 1 THEN "read_shrink_not_a_positive_integer"
  ELSE IF ~(0 <= rd[1] /\ rd[1] <= rd[2] /\ rd[2] <= c.hd /\ 0 <= rd[3] /\ rd[3] <= rd[4] /\ rd[4] <= c.wd) THEN "destination_region_outside_image"
  ELSE IF ~(0 <= rs[1] /\ rs[1] <= rs[2] /\ rs[2] <= AlignUp(c.hs, k) /\ 0 <= rs[3] /\ rs[3] <= rs[4] /\ rs[4] <= AlignUp(c.ws, k)) THEN "source_region_outside_image"
  ELSE IF \E p \in Needed(c) : ~InRoi(rd, p[1], p[2]) THEN "needed_destination_pixel_outside_destination_region"
  ELSE IF \E p \in Needed(c) : ~InRoi(rs, SrcPix(c, p)[1], SrcPix(c, p)[2]) THEN "source_location_of_needed_pixel_outside_source_region"
  ELSE IF Separated(c) /\ (Area(rs) # 0 \/ Area(rd) # 0) THEN "separated_rasters_give_non_empty_regions"
  ELSE IF k > 1 /\ (k * D - 15) * (k * D - 15) > Max2(ScaleSq(c.A), o.scale) THEN "read_shrink_exceeds_scale_by_more_than_the_tolerance"
  \* o.scale is logged squared (times D * D).  For a sheared map (columns not orthogonal) "pixel size along an axis" has more than one
  \* reading (the code takes the rotation-shear-scale decomposition); the statement quantifies over scales, mirrors and rotations only
  ELSE IF c.A[1] * c.A[2] + c.A[4] * c.A[5] = 0 /\ o.scale # ScaleSq(c.A) THEN "scale_is_not_the_smaller_pixel_size_ratio"
  ELSE "ok"

(* ------------------ large rasters: the same contract on a sample of pixels ------------------
   A map that differs from scale + translation by a rotation / shear below the paste tolerances drifts by whole pixels only over thousands of
   pixels.  Cases carry their own denominator c.den (2^14: rotations of 2^-11 per pixel); the needed set is not enumerated - TLC probes, exactly,
   the ring of destination pixels just OUTSIDE the planned destination region (none of them may be needed) and the ring just INSIDE it (the source
   location of every needed one lies in the planned source region), 17 positions per side, plus the four corners of the destination image.   *)
MapsInsideD(c, xd, yd) == /\ 0 <= Cx2(c.A, xd, yd) /\ Cx2(c.A, xd, yd) < 2 * c.den * c.ws
                          /\ 0 <= Cy2(c.A, xd, yd) /\ Cy2(c.A, xd, yd) < 2 * c.den * c.hs
SrcPixD(c, p) == <<FloorDiv(Cx2(c.A, p[1], p[2]), 2 * c.den), FloorDiv(Cy2(c.A, p[1], p[2]), 2 * c.den)>>
Along(lo, hi) == {lo + ((hi - 1 - lo) * k) \div 16 : k \in 0..16}              \* 17 positions in lo..hi-1 (hi > lo)
RingOutside(c, rd) ==
  IF rd[2] <= rd[1] \/ rd[4] <= rd[3] THEN {<<x, y>> \in {0, c.wd \div 2, c.wd - 1} \X {0, c.hd \div 2, c.hd - 1} : TRUE}
  ELSE {p \in UNION { {<<rd[3] - 1, y>> : y \in Along(rd[1], rd[2])}, {<<rd[4], y>> : y \in Along(rd[1], rd[2])},
                      {<<x, rd[1] - 1>> : x \in Along(rd[3], rd[4])}, {<<x, rd[2]>> : x \in Along(rd[3], rd[4])},
                      {<<0, 0>>, <<c.wd - 1, 0>>, <<0, c.hd - 1>>, <<c.wd - 1, c.hd - 1>>} } :
          0 <= p[1] /\ p[1] < c.wd /\ 0 <= p[2] /\ p[2] < c.hd /\ ~InRoi(rd, p[1], p[2])}
RingInside(c, rd) ==
  IF rd[2] <= rd[1] \/ rd[4] <= rd[3] THEN {}
  ELSE UNION { {<<rd[3], y>> : y \in Along(rd[1], rd[2])}, {<<rd[4] - 1, y>> : y \in Along(rd[1], rd[2])},
               {<<x, rd[1]>> : x \in Along(rd[3], rd[4])}, {<<x, rd[2] - 1>> : x \in Along(rd[3], rd[4])} }
BigPlanOK(c, o) ==
  LET k == o.shrink rs == o.roi_src rd == o.roi_dst IN
  IF k < 1 THEN "read_shrink_not_a_positive_integer"
  ELSE IF "huge" \in DOMAIN c THEN      \* only destination pixel (0, 0) can be evaluated within 32 bits - and it is the needed one
       (IF ~MapsInsideD(c, 0, 0) THEN "model:huge_case_construction"
        ELSE IF ~InRoi(rd, 0, 0) THEN "needed_destination_pixel_outside_destination_region"
        ELSE IF ~InRoi(rs, SrcPixD(c, <<0, 0>>)[1], SrcPixD(c, <<0, 0>>)[2]) THEN "source_location_of_needed_pixel_outside_source_region"
        ELSE IF ~(0 <= rs[1] /\ rs[1] <= rs[2] /\ rs[2] <= AlignUp(c.hs, k) /\ 0 <= rs[3] /\ rs[3] <= rs[4] /\ rs[4] <= AlignUp(c.ws, k)) THEN "source_region_outside_image"
        ELSE "ok")
  ELSE IF ~(0 <= rd[1] /\ rd[1] <= rd[2] /\ rd[2] <= c.hd /\ 0 <= rd[3] /\ rd[3] <= rd[4] /\ rd[4] <= c.wd) THEN "destination_region_outside_image"
  ELSE IF ~(0 <= rs[1] /\ rs[1] <= rs[2] /\ rs[2] <= AlignUp(c.hs, k) /\ 0 <= rs[3] /\ rs[3] <= rs[4] /\ rs[4] <= AlignUp(c.ws, k)) THEN "source_region_outside_image"
  ELSE IF \E p \in RingOutside(c, rd) : MapsInsideD(c, p[1], p[2]) THEN "needed_destination_pixel_outside_destination_region"
  ELSE IF \E p \in RingInside(c, rd) : MapsInsideD(c, p[1], p[2]) /\ ~InRoi(rs, SrcPixD(c, p)[1], SrcPixD(c, p)[2]) THEN "source_location_of_needed_pixel_outside_source_region"
  ELSE "ok"

\* direct use of the per-axis arithmetic (box_overlap / compute_axis_overlap) with ANY scale and translation (no snapping):
\* the 1-d version of the contract.  x = [ns, nd, s, t] with s, t numerators over D; o = <<s0, s1, d0, d1>>
AxisNeeded(x) == {d \in 0..(x.nd - 1) : 0 <= x.s * (2 * d + 1) + 2 * x.t /\ x.s * (2 * d + 1) + 2 * x.t < 2 * D * x.ns}
AxisOK(x, o) ==
  IF ~(0 <= o[1] /\ o[1] <= x.ns /\ 0 <= o[2] /\ o[2] <= x.ns /\ 0 <= o[3] /\ o[3] <= x.nd /\ 0 <= o[4] /\ o[4] <= x.nd) THEN "axis_region_outside_image"
  ELSE IF \E d \in AxisNeeded(x) : ~(o[3] <= d /\ d < o[4]) THEN "needed_destination_pixel_outside_destination_region"
  ELSE IF \E d \in AxisNeeded(x) : LET sp == FloorDiv(x.s * (2 * d + 1) + 2 * x.t, 2 * D) IN ~(o[1] <= sp /\ sp < o[2]) THEN "source_location_of_needed_pixel_outside_source_region"
  ELSE "ok"

(* ------------------------------- contract (C10) ------------------------------- *)
\* paste-ability may only be reported for an integer scale equal on both axes and a whole-pixel shift within tolerance
PasteSoundOK(c, o) ==
  IF ~o.paste_ok THEN "ok"
  ELSE IF ~IsST(c.A) THEN "paste_reported_for_rotation_or_shear"
  ELSE IF ~(c.align = <<>> \/ c.align = <<0>>) \/ ~(c.pad = <<>> \/ c.pad = <<0>>) THEN "paste_reported_with_padding_or_alignment"
  ELSE IF ~NearInt(Abs(c.A[1]), D, c.stol[1], c.stol[2]) \/ Abs(c.A[1]) # Abs(c.A[5]) \/ Abs(c.A[1]) < D THEN "paste_reported_for_fractional_or_unequal_scale"
  \* "whole-pixel shift": in destination pixels, or in read-shrink x source pixels (the code's measure) - with a scale that is an integer only
  \* up to stol the two differ by up to stol per pixel of shift, and the statement does not say which is meant: either is accepted
  ELSE IF ~(\/ (NearInt(c.A[3], Abs(c.A[1]), c.ttol[1], c.ttol[2]) /\ NearInt(c.A[6], Abs(c.A[1]), c.ttol[1], c.ttol[2]))
            \/ (o.shrink >= 1 /\ NearInt(c.A[3], o.shrink * D, c.ttol[1], c.ttol[2]) /\ NearInt(c.A[6], o.shrink * D, c.ttol[1], c.ttol[2])))
       THEN "paste_reported_for_sub_pixel_shift_beyond_tolerance"
  ELSE IF o.shrink > 1 /\ ~(o.roi_src[2] - o.roi_src[1] = o.shrink * (o.roi_dst[2] - o.roi_dst[1]) /\ o.roi_src[4] - o.roi_src[3] = o.shrink * (o.roi_dst[4] - o.roi_dst[3])) THEN "source_region_is_not_destination_region_times_shrink"
  ELSE "ok"
\* the planned regions of a paste: inside their images (the source region up to the next multiple of the shrink factor), the source
\* region is the destination region times the shrink factor, and every destination pixel of the region has source under its footprint
FootprintTouchesSource(c, q, r) ==
  LET x0 == c.A[1] * q + c.A[3] x1 == c.A[1] * (q + 1) + c.A[3] y0 == c.A[5] * r + c.A[6] y1 == c.A[5] * (r + 1) + c.A[6] IN
  Min2(x0, x1) < c.ws * D /\ Max2(x0, x1) > 0 /\ Min2(y0, y1) < c.hs * D /\ Max2(y0, y1) > 0
PasteRegionsOK(c, o) ==
  LET rs == o.roi_src rd == o.roi_dst k == o.shrink IN
  IF ~o.paste_ok \/ ~IsST(c.A) THEN "ok"
  ELSE IF k < 1 THEN "read_shrink_not_a_positive_integer"
  ELSE IF ~(0 <= rd[1] /\ rd[1] <= rd[2] /\ rd[2] <= c.hd /\ 0 <= rd[3] /\ rd[3] <= rd[4] /\ rd[4] <= c.wd) THEN "planned_destination_region_outside_image"
  ELSE IF ~(0 <= rs[1] /\ rs[1] <= rs[2] /\ rs[2] <= AlignUp(c.hs, k) /\ 0 <= rs[3] /\ rs[3] <= rs[4] /\ rs[4] <= AlignUp(c.ws, k)) THEN "planned_source_region_outside_image"
  ELSE IF ~(rs[2] - rs[1] = k * (rd[2] - rd[1]) /\ rs[4] - rs[3] = k * (rd[4] - rd[3])) THEN "source_region_is_not_destination_region_times_shrink"
  ELSE IF \E r \in rd[1]..(rd[2] - 1), q \in rd[3]..(rd[4] - 1) : ~FootprintTouchesSource(c, q, r) THEN "destination_region_has_a_pixel_with_no_source_under_it"
  ELSE "ok"
\* nearest-neighbour warp from first principles: destination pixel <- source pixel under its centre, else nodata
NNImage(c, src, nodata) ==
  [r \in 1..c.hd |-> [q \in 1..c.wd |->
     IF MapsInside(c, q - 1, r - 1) THEN LET sp == SrcPix(c, <<q - 1, r - 1>>) IN src[sp[2] + 1][sp[1] + 1] ELSE nodata]]
\* paste of the planned regions (mirrored where the grids are mirrored), rest nodata
PasteImage(c, o, src, nodata) ==
  LET rs == o.roi_src rd == o.roi_dst IN
  [r \in 1..c.hd |-> [q \in 1..c.wd |->
     IF InRoi(rd, q - 1, r - 1)
     THEN LET i == (r - 1) - rd[1] j == (q - 1) - rd[3]
              sr == IF c.A[5] < 0 THEN rs[2] - 1 - i ELSE rs[1] + i
              sc == IF c.A[1] < 0 THEN rs[4] - 1 - j ELSE rs[3] + j IN src[sr + 1][sc + 1]
     ELSE nodata]]
\* residues of exactly half a pixel are ties: GDAL decides, the statement does not
HasTie(c) == \E p \in (0..(c.wd - 1)) \X (0..(c.hd - 1)) : Cx2(c.A, p[1], p[2]) % (2 * D) = 0 \/ Cy2(c.A, p[1], p[2]) % (2 * D) = 0
=============================================================================
