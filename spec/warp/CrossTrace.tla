-------------------------------- MODULE CrossTrace --------------------------------
EXTENDS CrossPlan, TraceIO
Verdict(e) == IF e.outcome # "ok" THEN "reject:raised_" \o e.outcome ELSE LET v == CrossOK(e) IN IF v # "ok" THEN "reject:" \o v ELSE "ok"
VARIABLE l
TInit == l = 1
TNext == l <= NEvents /\ PrintT(<<"V", l, Verdict(Events[l])>>) /\ l' = l + 1
TSpec == TInit /\ [][TNext]_l
=============================================================================
