SPECIFICATION Spec
CONSTANT Tier = "thorough"
INVARIANT ModelOK
INVARIANT AxisModelOK
