-------------------------------- MODULE ChunkTrace --------------------------------
EXTENDS ChunkedWarp, TraceIO
Verdict(e) == IF e.outcome # "ok" THEN "reject:raised_" \o e.outcome
              ELSE LET v == ImagesV(e) IN IF v = "ok" THEN "ok" ELSE IF v = "drift" THEN "drift:whole_array_result_differs_from_first_principles_nearest_neighbour" ELSE "reject:" \o v
VARIABLE l
Init == l = 1
Next == l <= NEvents /\ PrintT(<<"V", l, Verdict(Events[l])>>) /\ l' = l + 1
Spec == Init /\ [][Next]_l
=============================================================================
