-------------------------------- MODULE ChunkTrace --------------------------------
EXTENDS ChunkedWarp, TraceIO
\* really different CRSs: GDAL approximates per chunk, so only robust facts are demanded (e.holes / e.extra count destination pixels
\* whose whole 3x3 neighbourhood has data in the whole-array result but fill in the chunked one, and the converse)
RealV(e) == IF e.outcome = "skip_destination_outside_the_valid_area_of_its_crs" THEN "skip"
            ELSE IF e.outcome # "ok" THEN "reject:raised_" \o e.outcome
            ELSE IF ~e.same_shape THEN "reject:dtype_or_shape_differs_between_chunked_and_whole"
            ELSE IF e.holes > 0 THEN "reject:chunked_result_has_fill_where_the_whole_array_result_has_data"
            ELSE IF e.extra > 0 THEN "reject:chunked_result_has_data_where_no_source_pixel_reaches"
            ELSE "ok"
Verdict(e) == IF "op" \in DOMAIN e.c /\ e.c.op = "real" THEN RealV(e)
              ELSE IF e.outcome # "ok" THEN "reject:raised_" \o e.outcome
              ELSE LET v == ImagesV(e) IN IF v = "ok" THEN "ok" ELSE IF v = "drift" THEN "drift:whole_array_result_differs_from_first_principles_nearest_neighbour" ELSE "reject:" \o v
VARIABLE l
Init == l = 1
Next == l <= NEvents /\ PrintT(<<"V", l, Verdict(Events[l])>>) /\ l' = l + 1
Spec == Init /\ [][Next]_l
=============================================================================
