SPECIFICATION Spec
CONSTANT Tier = "quick"
INVARIANT ModelOK
INVARIANT HoleIfMissing
