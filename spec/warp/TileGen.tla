-------------------------------- MODULE TileGen --------------------------------
EXTENDS TileQuery, CaseIO
CONSTANTS Tier
Bases == {<<8, 0, 96, 0, -8, 160>>, <<-8, 0, 96, 0, -8, 160>>, <<8, 0, 96, 0, 8, 160>>, <<0, 8, 96, 8, 0, 160>>, <<6, -8, 100, 8, 6, 200>>}
Tilings == {[chy |-> <<2, 2, 2>>, chx |-> <<3, 3>>], [chy |-> <<4, 2>>, chx |-> <<4, 1>>], [chy |-> <<1, 2, 3>>, chx |-> <<2, 1, 3>>], [chy |-> <<6>>, chx |-> <<5>>]}
\* query polygons in pixel coordinates of the base (quarter pixels would not be lattice after rotation: whole and half pixels, scaled by 2 in the base)
PixPolys == UNION { {<<<<x0, y0>>, <<x0 + w, y0>>, <<x0 + w, y0 + h>>, <<x0, y0 + h>>>> : x0 \in {-3, -1, 0, 2, 4, 7}, y0 \in {-2, 0, 3, 6}, w \in {1, 3, 9}, h \in {2, 5}},
                    {<<<<x0, y0>>, <<x0 + 4, y0 + 1>>, <<x0 + 1, y0 + 4>>>> : x0 \in {-5, -1, 0, 2, 5}, y0 \in {-5, -2, 0, 3}},
                    {<<<<x0, y0 - 2>>, <<x0 + 2, y0>>, <<x0, y0 + 2>>, <<x0 - 2, y0>>>> : x0 \in {-1, 0, 2, 3, 6}, y0 \in {0, 2, 3, 7}} }
QueryCases(B) == {[op |-> "query", B |-> B, chy |-> t.chy, chx |-> t.chx, pq |-> p, how |-> hw] :
                    t \in Tilings, p \in PixPolys, hw \in {"geom", "geom_other_crs", "bbox", "range", "line"}}       \* line: the segment between the first two vertices (a query without area)
\* pairs: a reduced set of destination-to-source maps (see ReprojGen), 2 shape/tiling pairs, same CRS or the exact-translation CRS (general path)
PScales == {960, -960, 1920, 480, 1440}
PShifts == {k * 960 + r : k \in IF Tier = "quick" THEN {-7, -3, 0, 2, 5} ELSE -8..8, r \in {0, 60, -60, 480}}
PairTilings == {[sy |-> <<2, 2, 2>>, sx |-> <<3, 3>>, dy |-> <<2, 3>>, dx |-> <<2, 2, 2>>], [sy |-> <<1, 2, 3>>, sx |-> <<4, 2>>, dy |-> <<3, 3>>, dx |-> <<4, 1>>],
                \* rasters of the SAME shape (with the identity map: one grid tiled twice): same number of tiles with other boundaries, the same tiling,
                \* regular tile sizes that do not divide the image
                [sy |-> <<1, 2, 3>>, sx |-> <<4, 2>>, dy |-> <<3, 2, 1>>, dx |-> <<2, 4>>], [sy |-> <<2, 2, 2>>, sx |-> <<3, 3>>, dy |-> <<2, 2, 2>>, dx |-> <<3, 3>>],
                [sy |-> <<4, 2>>, sx |-> <<4, 2>>, dy |-> <<5, 1>>, dx |-> <<5, 1>>]}
Mk2(t, A, crs) == [op |-> "pair", hs |-> SumTo(t.sy, Len(t.sy)), ws |-> SumTo(t.sx, Len(t.sx)), hd |-> SumTo(t.dy, Len(t.dy)), wd |-> SumTo(t.dx, Len(t.dx)),
                   A |-> A, sy |-> t.sy, sx |-> t.sx, dy |-> t.dy, dx |-> t.dx, crs |-> crs]
PairCases(sx) == {Mk2(t, <<sx, 0, tx, 0, sy, ty>>, crs) : tx \in PShifts, sy \in {Abs(sx), -Abs(sx)}, ty \in {0, 2880, -1980, 7000}, t \in PairTilings, crs \in {"same", "other"}}
                 \cup {Mk2(t, <<0, -sx, tx, sx, 0, ty>>, "same") : tx \in {0, 4800, 9000}, ty \in {0, -3000, 7000}, t \in PairTilings}
                 \cup {Mk2(t, <<576, -768, tx, 768, 576, ty>>, "same") : tx \in {0, 4800, 9000}, ty \in {0, -3000, 7000}, t \in PairTilings}
\* ONE grid tiled twice (identity map, same CRS): every pair of tilings of a 6 x 6 image - equal, same tile count with other boundaries, other counts
Tilings6 == {<<<<2, 2, 2>>, <<3, 3>>>>, <<<<1, 2, 3>>, <<4, 2>>>>, <<<<3, 2, 1>>, <<2, 4>>>>, <<<<4, 2>>, <<4, 2>>>>, <<<<5, 1>>, <<5, 1>>>>, <<<<6>>, <<1, 5>>>>, <<<<1, 1, 4>>, <<6>>>>}
SameGridPairs == {Mk2([sy |-> s[1], sx |-> s[2], dy |-> d[1], dx |-> d[2]], <<960, 0, 0, 0, 960, 0>>, "same") : s \in Tilings6, d \in Tilings6}
\* tiled pairs in really different CRSs (curved footprints): placement of the destination relative to the source footprint in tenths of its span
RPairs == {[op |-> "rpair", pair |-> pr, dx |-> dx, dy |-> dy, st |-> st, dt |-> dt, zoom |-> z] :
             pr \in {"32633>4326", "32633>3035", "4326>3857", "3035>32633", "3577>4326", "3575>4326"}, dx \in {-7, -3, 0, 4, 30}, dy \in {-6, 0, 5},
             st \in {<<<<20, 20, 20>>, <<20, 20, 20>>>>, <<<<10, 30, 20>>, <<60>>>>, <<<<1, 59>>, <<30, 29, 1>>>>}, dt \in {<<<<16, 16, 16>>, <<16, 16, 16>>>>, <<<<48>>, <<1, 40, 7>>>>}, z \in {"same", "coarser"}}
\* a source that wraps the whole globe (lon/lat -180..180 x -90..90, or the web-mercator world square) under a regional destination raster:
\* the source footprint does not survive projection into the destination CRS, the dependencies must still be complete
GPairs == {[op |-> "rpair", pair |-> pr, dx |-> 0, dy |-> 0, st |-> st, dt |-> dt, zoom |-> "global"] :
             pr \in {"4326G>32633", "4326G>3035", "4326G>3577", "4326G>3575", "3857G>32633", "3857G>4326"},
             st \in {<<<<20, 20, 20>>, <<30, 30, 30, 30>>>>, <<<<10, 30, 20>>, <<60, 60>>>>}, dt \in {<<<<16, 16, 16>>, <<16, 16, 16>>>>, <<<<48>>, <<1, 40, 7>>>>}}
\* destination tiles tens of degrees wide (one row of lon/lat tiles 30 / 60 / 30 or 40 / 40 / 40 degrees wide, low-latitude edge at +-50) over a polar-projection
\* source of 2 km pixels cut into 10 km tiles along that edge: the edge is a strongly curved arc in the source CRS
Fives(n) == [i \in 1..n |-> 5]
WPairs == {[op |-> "rpair", pair |-> pr, dx |-> 0, dy |-> 0, st |-> <<Fives(ny), Fives(40)>>, dt |-> dt, zoom |-> "wide"] :
             pr \in {"3031>4326W", "3413>4326W", "3575>4326W"}, ny \in {20, 30}, dt \in {<<<<8>>, <<30, 60, 30>>>>, <<<<4, 4>>, <<40, 40, 40>>>>}}
\* geometry queries in a REALLY different CRS: ellipses in lon/lat (centre and half-axes in tenths of a degree) against grids in polar / conic projections,
\* where the sides of the query's bounding box bend when projected.  Environment table: sample points inside the ellipse projected with fresh pyproj;
\* a tile holding three or more of them, well inside, is intersected by the query beyond doubt.
RQueries == {[op |-> "rquery", grid |-> gr, lon |-> lo, lat |-> la, a |-> a, b |-> b, tiling |-> tl] :
               gr \in {"3575", "3035", "32633"}, lo \in {-100, 150, 300}, la \in {450, 550, 600}, a \in {30, 120, 250}, b \in {20, 60, 100},
               tl \in {<<<<10, 10, 10, 10, 10, 10>>, <<10, 10, 10, 10, 10, 10>>>>, <<<<20, 40>>, <<5, 25, 30>>>>}}
VARIABLE c
Init == c \in {[k |-> "r", v |-> 0]} \cup {[k |-> "q", v |-> B] : B \in Bases} \cup {[k |-> "p", v |-> s] : s \in PScales}
Next == "k" \in DOMAIN c /\ c' \in (IF c.k = "q" THEN QueryCases(c.v) ELSE IF c.k = "r" THEN UNION {RPairs, GPairs, WPairs, RQueries} ELSE IF c.v = 960 THEN PairCases(c.v) \cup SameGridPairs ELSE PairCases(c.v)) /\ Emit(c')
Spec == Init /\ [][Next]_c
\* design level: the transcribed linear path lists every needed source tile
ModelOK == ("op" \in DOMAIN c /\ c.op = "pair" /\ IsST(c.A)) => LinearComplete([c |-> c, sy |-> c.sy, sx |-> c.sx, dy |-> c.dy, dx |-> c.dx])
=============================================================================
