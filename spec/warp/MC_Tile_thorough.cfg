SPECIFICATION Spec
CONSTANT Tier = "thorough"
INVARIANT ModelOK
