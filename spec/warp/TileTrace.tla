-------------------------------- MODULE TileTrace --------------------------------
EXTENDS TileQuery, TraceIO
Verdict(e) == IF e.outcome = "skip_destination_outside_the_valid_area_of_its_crs" THEN "skip"
              ELSE IF e.outcome # "ok" THEN "reject:raised_" \o e.outcome
              ELSE LET v == IF e.op = "query" THEN QueryV(e) ELSE IF e.op = "rpair" THEN RGraphV(e) ELSE GraphV(e) IN IF v # "ok" THEN "reject:" \o v ELSE "ok"
VARIABLE l
Init == l = 1
Next == l <= NEvents /\ PrintT(<<"V", l, Verdict(Events[l])>>) /\ l' = l + 1
Spec == Init /\ [][Next]_l
=============================================================================
