-------------------------------- MODULE TileTrace --------------------------------
EXTENDS TileQuery, TraceIO
Verdict(e) == IF e.outcome = "skip_destination_outside_the_valid_area_of_its_crs" THEN "skip"
              ELSE IF e.outcome # "ok" THEN "reject:raised_" \o e.outcome
              ELSE IF e.op = "rquery" THEN
                   (IF \E k \in DOMAIN e.need : e.need[k] \notin {e.out[j] : j \in DOMAIN e.out} THEN "reject:intersecting_tile_not_returned"
                    ELSE IF Len(e.out) # Cardinality({e.out[j] : j \in DOMAIN e.out}) THEN "reject:tile_returned_twice"
                    ELSE IF \E j \in DOMAIN e.out : e.out[j] \in {e.far[k] : k \in DOMAIN e.far} THEN "reject:returned_tile_is_far_from_the_query"
                    ELSE "ok")
              ELSE LET v == IF e.op = "query" THEN QueryV(e) ELSE IF e.op = "rpair" THEN RGraphV(e) ELSE GraphV(e) IN IF v # "ok" THEN "reject:" \o v ELSE "ok"
VARIABLE l
Init == l = 1
Next == l <= NEvents /\ PrintT(<<"V", l, Verdict(Events[l])>>) /\ l' = l + 1
Spec == Init /\ [][Next]_l
=============================================================================
