SPECIFICATION Spec
CONSTANT Tier = "quick"
INVARIANT ModelOK
