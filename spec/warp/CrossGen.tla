-------------------------------- MODULE CrossGen --------------------------------
(* C03 - reprojection planning between DIFFERENT CRSs: case domain and the contract relative to an
   environment table.  The projection itself is not modelled: the harness tabulates, with a fresh pyproj
   transformer, where the centre of every destination pixel falls in source pixel coordinates
   (T[r][q] = <<x64, y64>> in 1/64 source pixels, <<>> when not finite); TLC decides the PLAN given T.   *)
EXTENDS CrossPlan, CaseIO

Pairs == {"4326>3857", "3857>4326", "32633>4326", "4326>32633", "3857>32633", "6933>3035", "3035>4326"}
Cases == {[pair |-> p, dx |-> dx, dy |-> dy, zoom |-> z, pad |-> o.pad, align |-> o.align] :
            p \in Pairs, dx \in {-3, -1, 0, 1, 3}, dy \in {-3, -1, 0, 2}, z \in {"same", "coarser", "finer"},
            o \in {[pad |-> <<>>, align |-> <<>>], [pad |-> <<0>>, align |-> <<>>], [pad |-> <<2>>, align |-> <<2>>], [pad |-> <<>>, align |-> <<4>>]}}
\* continental extents with strong curvature (polar azimuthal <-> geographic): here the sampled envelope alone is not enough, the default padding matters.
\* Explicit padding 0 is not generated for this family (the statement does not promise completeness when the caller removes the margin on such transforms).
BigCases == {[pair |-> p, dx |-> dx, dy |-> dy, zoom |-> z, pad |-> o.pad, align |-> o.align] :
               p \in {"3575>4326big", "4326>3575big"}, dx \in 0..3, dy \in 0..5, z \in {"same", "coarser"},
               o \in {[pad |-> <<>>, align |-> <<>>], [pad |-> <<1>>, align |-> <<>>], [pad |-> <<2>>, align |-> <<4>>]}}
\* a lon/lat source reaching to within half a degree of a pole under small kilometre tiles of a polar projection placed between 84 and 89 degrees:
\* every latitude up to +-90 is a valid source coordinate
PolarCases == {[pair |-> p, dx |-> dx, dy |-> dy, zoom |-> z, pad |-> o.pad, align |-> o.align] :
                 p \in {"4326>3413polar", "4326>3575polar", "4326>3031polar"}, dx \in {-2, 0, 3}, dy \in {-3, 0, 1, 4}, z \in {"same", "coarser"},
                 o \in {[pad |-> <<>>, align |-> <<>>], [pad |-> <<1>>, align |-> <<>>]}}
\* a polar-projection raster CONTAINING the pole (inside the projection's valid area) read into small lon/lat rasters next to the pole (dy: how close,
\* dx: which longitude sector).  Nothing is discontinuous in the projected pixel plane; the raster's lon/lat outline is (it winds round the pole).
PoleCases == {[pair |-> p, dx |-> dx, dy |-> dy, zoom |-> z, pad |-> o.pad, align |-> o.align] :
                p \in {"3031>4326pole", "3413>4326pole"}, dx \in {-1, 0, 1, 2}, dy \in {0, 1, 2}, z \in {"same", "coarser"},
                o \in {[pad |-> <<>>, align |-> <<>>], [pad |-> <<1>>, align |-> <<>>]}}
\* the other way round: a lon/lat source (dy = 0: up to the pole, 1: up to 89 degrees) warped onto a polar raster that contains the pole
\* (dx = 0: centred exactly on it, 1 / 2: 35 / 155 km off centre).  The image of the destination's INTERIOR is then not bounded by the image of its outline.
CapCases == {[pair |-> p, dx |-> dx, dy |-> dy, zoom |-> "same", pad |-> o.pad, align |-> o.align] :
               p \in {"4326>3413cap", "4326>3031cap"}, dx \in {0, 1, 2}, dy \in {0, 1}, o \in {[pad |-> <<>>, align |-> <<>>], [pad |-> <<1>>, align |-> <<>>]}}
VARIABLE c
Init == c \in {[k |-> p] : p \in Pairs \cup {"big", "polar", "pole", "cap"}}
Next == "k" \in DOMAIN c /\ c' \in (IF c.k = "big" THEN BigCases ELSE IF c.k = "polar" THEN PolarCases ELSE IF c.k = "pole" THEN PoleCases ELSE IF c.k = "cap" THEN CapCases ELSE {x \in Cases : x.pair = c.k}) /\ Emit(c')
Spec == Init /\ [][Next]_c

=============================================================================
