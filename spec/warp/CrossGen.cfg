SPECIFICATION Spec
