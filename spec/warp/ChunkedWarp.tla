-------------------------------- MODULE ChunkedWarp --------------------------------
(* C13 - chunked (dask) reprojection equals whole-array reprojection (odc/geo/_dask.py).

   Composition of the tiling model (TileQuery: chunks of source and destination), the dependency graph
   (C12) and the nearest-neighbour warp (ReprojPlan!NNImage, C10):
     a destination chunk is computed from the source blocks its dependency list names, assembled with
     fill where a block is absent, and warped into the chunk; chunks without dependencies are constant fill.
   Design-level theorem (TLC): if the dependency lists contain every EXACTLY needed source tile, the assembled
   result equals the whole-array warp for every destination pixel, in any order of chunk computation
   (chunks are independent: the order only matters through the task graph, see TaskGraph).                  *)
EXTENDS TileQuery

\* exact need: the centre of some pixel of d maps inside source tile s (no margin); the family has no ties
ExactNeeds(e, d, s) == \E xd \in Lo(e.dx, d[2])..(Hi(e.dx, d[2]) - 1), yd \in Lo(e.dy, d[1])..(Hi(e.dy, d[1]) - 1) :
   /\ MapsInside(e.c, xd, yd)
   /\ LET sp == SrcPix(e.c, <<xd, yd>>) IN Lo(e.sx, s[2]) <= sp[1] /\ sp[1] < Hi(e.sx, s[2]) /\ Lo(e.sy, s[1]) <= sp[2] /\ sp[2] < Hi(e.sy, s[1])
\* value a chunk-local warp produces at destination pixel (xd, yd) given the dependency relation Dep(d) (set of source tiles)
TileOf(chy, chx, x, y) == <<Cardinality({k \in 1..Len(chy) : Hi(chy, k) <= y}) + 1, Cardinality({k \in 1..Len(chx) : Hi(chx, k) <= x}) + 1>>
ChunkedPixel(e, Dep(_), src, fill, xd, yd) ==
  LET d == TileOf(e.dy, e.dx, xd, yd) IN
  IF Dep(d) = {} THEN fill
  ELSE IF ~MapsInside(e.c, xd, yd) THEN fill
  ELSE LET sp == SrcPix(e.c, <<xd, yd>>) s == TileOf(e.sy, e.sx, sp[1], sp[2]) IN
       IF s \in Dep(d) THEN src[sp[2] + 1][sp[1] + 1] ELSE fill
WholePixel(e, src, fill, xd, yd) == IF MapsInside(e.c, xd, yd) THEN LET sp == SrcPix(e.c, <<xd, yd>>) IN src[sp[2] + 1][sp[1] + 1] ELSE fill
IdImage(h, w) == [r \in 1..h |-> [q \in 1..w |-> (r - 1) * w + q]]
ChunkedEqualsWhole(e, Dep(_)) == \A xd \in 0..(e.c.wd - 1), yd \in 0..(e.c.hd - 1) :
   ChunkedPixel(e, Dep, IdImage(e.c.hs, e.c.ws), 0, xd, yd) = WholePixel(e, IdImage(e.c.hs, e.c.ws), 0, xd, yd)
NoTies(c) == ~HasTie(c)

(* fill rule: destination nodata, else source nodata, else NaN for floats, else 0.  Encoded values: NaN is -1 *)
FillRule(cfg) == IF cfg.dst_nodata # <<>> THEN cfg.dst_nodata[1] ELSE IF cfg.src_nodata # <<>> THEN cfg.src_nodata[1] ELSE IF cfg.float THEN -1 ELSE 0

\* source pixels holding the source nodata value are "no data": the destination pixels fed from them hold the fill value
Masked(img, cfg, fill) == IF cfg.src_nodata = <<>> THEN img ELSE [r \in DOMAIN img |-> [q \in DOMAIN img[r] |-> IF img[r][q] = cfg.src_nodata[1] THEN fill ELSE img[r][q]]]
(* verdict on logged images: e.dask, e.numpy = sequences (planes) of matrices; e.src = planes of id matrices *)
ImagesV(e) ==
  LET fill == FillRule(e.cfg) IN
  IF e.dask # e.numpy THEN "chunked_result_differs_from_whole_array_result"
  ELSE IF \E p \in DOMAIN e.dask, yd \in 0..(e.c.hd - 1), xd \in 0..(e.c.wd - 1) : ~MapsInside(e.c, xd, yd) /\ e.dask[p][yd + 1][xd + 1] # fill THEN "uncovered_pixel_does_not_hold_the_fill_value"
  ELSE IF \E p \in DOMAIN e.numpy : e.numpy[p] # Masked(NNImage(e.c, e.src[p], fill), e.cfg, fill) THEN "drift"
  ELSE "ok"
=============================================================================
