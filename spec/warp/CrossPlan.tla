-------------------------------- MODULE CrossPlan --------------------------------
(* C03 - contract of a reprojection plan between different CRSs, relative to the tabulated transform (see CrossGen). *)
EXTENDS IntMath, Sequences, FiniteSets, TLC
(* ---- contract given the table ---- *)
InRoi(roi, x, y) == roi[3] <= x /\ x < roi[4] /\ roi[1] <= y /\ y < roi[2]
Area(roi) == Max2(0, roi[2] - roi[1]) * Max2(0, roi[4] - roi[3])
Fin(T, r, q) == T[r][q] # <<>>
\* destination pixel (q-1, r-1) is needed when its centre maps inside the source image by a margin of 1/16 pixel
NeededT(e) == {<<r, q>> \in (1..e.hd) \X (1..e.wd) : Fin(e.T, r, q) /\ 4 <= e.T[r][q][1] /\ e.T[r][q][1] <= 64 * e.ws - 4
                                                                    /\ 4 <= e.T[r][q][2] /\ e.T[r][q][2] <= 64 * e.hs - 4}
PadOfE(e) == IF e.c.pad = <<>> THEN 1 ELSE e.c.pad[1]
FarAway(e) == LET m == 64 * (PadOfE(e) + 3 + (IF e.c.align = <<>> THEN 0 ELSE e.c.align[1])) IN
  \/ \A r \in 1..e.hd, q \in 1..e.wd : Fin(e.T, r, q) => e.T[r][q][1] < -m
  \/ \A r \in 1..e.hd, q \in 1..e.wd : Fin(e.T, r, q) => e.T[r][q][1] > 64 * e.ws + m
  \/ \A r \in 1..e.hd, q \in 1..e.wd : Fin(e.T, r, q) => e.T[r][q][2] < -m
  \/ \A r \in 1..e.hd, q \in 1..e.wd : Fin(e.T, r, q) => e.T[r][q][2] > 64 * e.hs + m
\* local scale at the centre of the planned destination region from finite differences of the table (squared, 1/64 px units)
FdSq(e, r, q, dr, dq) == LET a == e.T[r][q] b == e.T[r + dr][q + dq] IN (b[1] - a[1]) * (b[1] - a[1]) + (b[2] - a[2]) * (b[2] - a[2])
CrossOK(e) ==
  LET o == e.o rs == o.roi_src rd == o.roi_dst k == o.shrink IN
  IF e.paste_ok THEN "paste_reported_across_crs"
  ELSE IF k < 1 THEN "read_shrink_not_a_positive_integer"
  ELSE IF ~(0 <= rd[1] /\ rd[1] <= rd[2] /\ rd[2] <= e.hd /\ 0 <= rd[3] /\ rd[3] <= rd[4] /\ rd[4] <= e.wd) THEN "destination_region_outside_image"
  ELSE IF ~(0 <= rs[1] /\ rs[1] <= rs[2] /\ rs[2] <= AlignUp(e.hs, k) /\ 0 <= rs[3] /\ rs[3] <= rs[4] /\ rs[4] <= AlignUp(e.ws, k)) THEN "source_region_outside_image"
  ELSE IF \E p \in NeededT(e) : ~InRoi(rd, p[2] - 1, p[1] - 1) THEN "needed_destination_pixel_outside_destination_region"
  ELSE IF \E p \in NeededT(e) : ~InRoi(rs, FloorDiv(e.T[p[1]][p[2]][1], 64), FloorDiv(e.T[p[1]][p[2]][2], 64)) THEN "source_location_of_needed_pixel_outside_source_region"
  ELSE IF FarAway(e) /\ (Area(rs) # 0 \/ Area(rd) # 0) THEN "separated_rasters_give_non_empty_regions"
  ELSE IF Area(rd) = 0 THEN "ok"
  ELSE LET r == Clamp((rd[1] + rd[2]) \div 2 + 1, 1, e.hd - 1) q == Clamp((rd[3] + rd[4]) \div 2 + 1, 1, e.wd - 1) IN
       IF ~(Fin(e.T, r, q) /\ Fin(e.T, r + 1, q) /\ Fin(e.T, r, q + 1)) THEN "ok"
       ELSE LET fd == Min2(FdSq(e, r, q, 0, 1), FdSq(e, r, q, 1, 0)) s == o.scale64
                \* the images of a step along the destination's x and y axis; where they are far from orthogonal (a strongly anisotropic source grid seen
                \* under a rotation, e.g. 2 x 0.25 degree pixels next to a pole) "pixel size along an axis" has more than one reading - as for sheared
                \* same-CRS maps the scale clause is then not demanded (the region clauses above are)
                a == e.T[r][q] u0 == <<e.T[r][q + 1][1] - a[1], e.T[r][q + 1][2] - a[2]>> v0 == <<e.T[r + 1][q][1] - a[1], e.T[r + 1][q][2] - a[2]>>
                m == SetMax({Abs(u0[1]), Abs(u0[2]), Abs(v0[1]), Abs(v0[2])}) \div 40 + 1          \* quantised to 1/40 of the largest component (32-bit integers)
                u == <<u0[1] \div m, u0[2] \div m>> v == <<v0[1] \div m, v0[2] \div m>>
                dot == u[1] * v[1] + u[2] * v[2] IN
            IF fd < 1024 THEN "ok"         \* a destination pixel spans less than half a source pixel: the table (1/64 pixel) is too coarse to measure the ratio
            ELSE IF 25 * dot * dot > (u[1] * u[1] + u[2] * u[2]) * (v[1] * v[1] + v[2] * v[2]) THEN "ok"          \* |cos| > 0.2
            ELSE IF ~(100 * s * s >= 64 * fd /\ 64 * s * s <= 100 * fd) THEN "scale_is_not_the_local_pixel_size_ratio_at_the_overlap_centre"     \* within 25%
            ELSE IF k > 1 /\ (64 * k - 2) > s THEN "read_shrink_exceeds_scale_by_more_than_the_tolerance"
            ELSE "ok"
=============================================================================
