-------------------------------- MODULE ReprojTrace --------------------------------
(* C03 / C10 - verdicts on ReprojectInfo values (and GDAL nearest-neighbour images) logged from the real code.
   meta.prop selects the property.  e.c = the case, e.o = [roi_src, roi_dst, paste_ok, shrink, scale (numerator over D)],
   for C10 additionally e.src (source image of unique ids), e.gdal (rio_reproject nearest output), e.nodata.      *)
EXTENDS ReprojPlan, TraceIO

Dyadic(A) == \A i \in 1..6 : A[i] % 15 = 0
ModelPasteOK(c) == (c.align = <<>> \/ c.align = <<0>>) /\ (c.pad = <<>> \/ c.pad = <<0>>) /\ CanPaste(c.A, c.ttol[1], c.ttol[2], c.stol[1], c.stol[2])
VAxis(e) == LET v == AxisOK(e.c, e.o) r == AxisOverlap(e.c.ns, e.c.nd, e.c.s, e.c.t) IN
  IF e.outcome # "ok" THEN "reject:raised_" \o e.outcome ELSE IF v # "ok" THEN "reject:" \o v
  ELSE IF e.c.s % 15 = 0 /\ 960 % Abs(e.c.s \div 15) = 0 /\ e.o # <<r.s0, r.s1, r.d0, r.d1>> THEN "drift:axis_overlap_differs_from_model" ELSE "ok"
VBig(e) == IF e.outcome # "ok" THEN "reject:raised_" \o e.outcome
           ELSE LET v == BigPlanOK(e.c, e.o) IN IF v # "ok" THEN "reject:" \o v ELSE "ok"
VXCrs(e) == IF e.outcome # "ok" THEN "reject:raised_" \o e.outcome
            ELSE IF e.o.paste_ok THEN "reject:paste_reported_for_grids_in_different_coordinate_reference_systems" ELSE "ok"
V03(e) ==
  IF "ns" \in DOMAIN e.c THEN VAxis(e) ELSE IF "den" \in DOMAIN e.c THEN VBig(e) ELSE IF "xcrs" \in DOMAIN e.c THEN VXCrs(e) ELSE
  LET c == e.c o == e.o v == PlanOK(c, o) IN
  IF e.outcome # "ok" THEN "reject:raised_" \o e.outcome
  ELSE IF v # "ok" THEN "reject:" \o v
  ELSE IF ~Dyadic(c.A) THEN "ok"                    \* thirds / fifths are not exact in floating point: verdict only
  ELSE IF o.paste_ok # ModelPasteOK(c) THEN "drift:paste_decision_differs_from_model"
  ELSE IF o.paste_ok /\ (o.roi_src # PastePlan(c).roi_src \/ o.roi_dst # PastePlan(c).roi_dst) THEN "drift:paste_regions_differ_from_model"
  ELSE IF ~o.paste_ok /\ o.roi_src # SampledSrcRoi(c, PadOf(c)) THEN "drift:sampled_source_region_differs_from_model"
  ELSE "ok"
V10(e) ==
  LET c == e.c o == e.o v == PasteSoundOK(c, o) w == PasteRegionsOK(c, o) IN
  IF "xcrs" \in DOMAIN c THEN VXCrs(e)
  ELSE IF "den" \in DOMAIN c THEN        \* rasters of thousands of pixels (own denominator): only the paste decision is judged here, nothing is warped
       (IF e.outcome # "ok" THEN "reject:raised_" \o e.outcome
        ELSE IF o.paste_ok /\ (c.A[2] # 0 \/ c.A[4] # 0) THEN "reject:paste_reported_for_a_rotated_or_sheared_map"
        ELSE IF o.paste_ok THEN "ok" ELSE "skip")
  ELSE IF e.outcome # "ok" THEN "reject:raised_" \o e.outcome
  ELSE IF v # "ok" THEN "reject:" \o v
  ELSE IF w # "ok" THEN "reject:" \o w
  ELSE IF ~o.paste_ok \/ o.shrink # 1 THEN (IF o.paste_ok THEN "ok" ELSE "skip")
  ELSE IF HasTie(c) THEN "skip"
  ELSE IF PasteImage(c, o, e.src, e.nodata) # e.gdal THEN "reject:paste_differs_from_nearest_neighbour_warp"
  ELSE IF NNImage(c, e.src, e.nodata) # e.gdal THEN "drift:gdal_differs_from_first_principles_nearest_neighbour"
  ELSE "ok"
Verdict(e) == IF Meta.prop = "C03" THEN V03(e) ELSE V10(e)
VARIABLE l
Init == l = 1
Next == l <= NEvents /\ PrintT(<<"V", l, Verdict(Events[l])>>) /\ l' = l + 1
Spec == Init /\ [][Next]_l
=============================================================================
