-------------------------------- MODULE ChunkGen --------------------------------
EXTENDS ChunkedWarp, CaseIO
CONSTANTS Tier
CScales == {960, -960, 1920, 480, 1440}
CShifts == {k * 960 + r : k \in IF Tier = "quick" THEN {-7, -2, 0, 3} ELSE -8..8, r \in {0, 60, -60, 240}}          \* no half-pixel residues: no ties
CTilings == {[sy |-> <<2, 2, 2>>, sx |-> <<3, 3>>, dy |-> <<2, 3>>, dx |-> <<2, 2, 2>>], [sy |-> <<1, 2, 3>>, sx |-> <<4, 2>>, dy |-> <<3, 3>>, dx |-> <<4, 1, 1>>],
             [sy |-> <<1, 1, 1, 1, 1, 1>>, sx |-> <<6>>, dy |-> <<5>>, dx |-> <<1, 1, 1, 1, 1, 1>>],
             \* equal chunks followed by a LARGER last one (what concatenation / balanced rechunking leaves behind): not a regular tiling
             [sy |-> <<2, 2, 4>>, sx |-> <<1, 5>>, dy |-> <<2, 2, 3>>, dx |-> <<2, 4>>]}
\* tchunks: chunking of the leading time axis (non-dividing chunks included); both nodata values set and different in some
Cfgs == << [dtype |-> "uint8", float |-> FALSE, src_nodata |-> <<>>, dst_nodata |-> <<>>, time |-> 0, tchunks |-> <<>>],
           [dtype |-> "float32", float |-> TRUE, src_nodata |-> <<>>, dst_nodata |-> <<>>, time |-> 0, tchunks |-> <<>>],
           [dtype |-> "int16", float |-> FALSE, src_nodata |-> <<-5>>, dst_nodata |-> <<>>, time |-> 2, tchunks |-> <<1, 1>>],
           [dtype |-> "float64", float |-> TRUE, src_nodata |-> <<>>, dst_nodata |-> <<-99>>, time |-> 0, tchunks |-> <<>>],
           [dtype |-> "uint8", float |-> FALSE, src_nodata |-> <<>>, dst_nodata |-> <<200>>, time |-> 2, tchunks |-> <<2>>],
           [dtype |-> "int8", float |-> FALSE, src_nodata |-> <<>>, dst_nodata |-> <<>>, time |-> 0, tchunks |-> <<>>],
           [dtype |-> "float32", float |-> TRUE, src_nodata |-> <<-7>>, dst_nodata |-> <<-7>>, time |-> 0, tchunks |-> <<>>],
           [dtype |-> "int16", float |-> FALSE, src_nodata |-> <<-5>>, dst_nodata |-> <<77>>, time |-> 0, tchunks |-> <<>>],
           [dtype |-> "uint8", float |-> FALSE, src_nodata |-> <<250>>, dst_nodata |-> <<200>>, time |-> 3, tchunks |-> <<2, 1>>],
           [dtype |-> "float32", float |-> TRUE, src_nodata |-> <<-7>>, dst_nodata |-> <<-9>>, time |-> 0, tchunks |-> <<>>],
           [dtype |-> "int16", float |-> FALSE, src_nodata |-> <<>>, dst_nodata |-> <<>>, time |-> 3, tchunks |-> <<1, 2>>],
           \* mask: part of the SOURCE holds the source nodata value ("top" = upper half of every plane, "all", "t1" = the whole first time step);
           \* floating point data with an explicit destination nodata of zero
           [dtype |-> "int16", float |-> FALSE, src_nodata |-> <<-5>>, dst_nodata |-> <<>>, time |-> 0, tchunks |-> <<>>, mask |-> "top"],
           [dtype |-> "uint8", float |-> FALSE, src_nodata |-> <<250>>, dst_nodata |-> <<200>>, time |-> 0, tchunks |-> <<>>, mask |-> "top"],
           [dtype |-> "int16", float |-> FALSE, src_nodata |-> <<-5>>, dst_nodata |-> <<>>, time |-> 2, tchunks |-> <<1, 1>>, mask |-> "t1"],
           [dtype |-> "uint8", float |-> FALSE, src_nodata |-> <<250>>, dst_nodata |-> <<>>, time |-> 0, tchunks |-> <<>>, mask |-> "all"],
           [dtype |-> "float32", float |-> TRUE, src_nodata |-> <<>>, dst_nodata |-> <<0>>, time |-> 0, tchunks |-> <<>>],
           [dtype |-> "float64", float |-> TRUE, src_nodata |-> <<-7>>, dst_nodata |-> <<0>>, time |-> 0, tchunks |-> <<>>, mask |-> "top"] >>
MkC(t, A, crs, k) == [hs |-> SumTo(t.sy, Len(t.sy)), ws |-> SumTo(t.sx, Len(t.sx)), hd |-> SumTo(t.dy, Len(t.dy)), wd |-> SumTo(t.dx, Len(t.dx)),
                      A |-> A, sy |-> t.sy, sx |-> t.sx, dy |-> t.dy, dx |-> t.dx, crs |-> crs, cfg |-> Cfgs[(k % Len(Cfgs)) + 1], pad |-> <<>>, align |-> <<>>]
Cases(sx) == {MkC(t, <<sx, 0, tx, 0, sy, ty>>, crs, Abs(tx) \div 60 + Abs(ty) \div 60 + Len(t.sy)) : tx \in CShifts, sy \in {Abs(sx), -Abs(sx)}, ty \in {60, 2940, -1980, 7000}, t \in CTilings, crs \in {"same", "other"}}
             \cup {MkC(t, <<0, -sx, tx, sx, 0, ty>>, "same", tx \div 60 + Len(t.sx)) : tx \in {60, 4860, 9000}, ty \in {60, -3000, 7000}, t \in CTilings}
\* ONE grid: the destination is the source grid itself, or the source grid moved by whole chunks, with the SAME chunking (a destination chunk then coincides with
\* one source chunk - nothing to resample, but nodata translation and the fill rule still apply); every nodata / mask configuration
SameTilings == {[sy |-> <<2, 2, 2>>, sx |-> <<3, 3>>, dy |-> <<2, 2, 2>>, dx |-> <<3, 3>>], [sy |-> <<3, 3>>, sx |-> <<2, 2, 2>>, dy |-> <<3, 3>>, dx |-> <<2, 2, 2>>]}
SameGridCases == UNION {{MkC(t, <<960, 0, tx * 960, 0, 960, ty * 960>>, "same", k) : tx \in {0, t.sx[1], 0 - t.sx[1]}, ty \in {0, t.sy[1]}, k \in 1..Len(Cfgs)} : t \in SameTilings}
\* chunked reprojection between really different CRSs (curved tile footprints): placement in tenths of the footprint's span
RealCases == {[op |-> "real", pair |-> pr, dx |-> dx, dy |-> dy, sch |-> sch, dch |-> dch, zoom |-> z] :
                pr \in {"3575>4326", "32633>4326", "4326>3035", "3577>4326"}, dx \in {-3, 0, 4}, dy \in {-6, 0, 5},
                sch \in {<<20, 20>>, <<60, 15>>}, dch \in {<<16, 16>>, <<48, 12>>, <<12, 48>>}, z \in {"same", "coarser"}}
VARIABLE c
Init == c \in {[k |-> 0]} \cup {[k |-> s] : s \in CScales}
Next == "k" \in DOMAIN c /\ c' \in (IF c.k = 0 THEN RealCases ELSE IF c.k = 960 THEN {x \in Cases(c.k) : NoTies(x)} \cup SameGridCases ELSE {x \in Cases(c.k) : NoTies(x)}) /\ Emit(c')
Spec == Init /\ [][Next]_c
\* design level: with the transcribed linear dependency path, and with ANY superset of the exact need, chunked = whole
AsE(x) == [c |-> x, sy |-> x.sy, sx |-> x.sx, dy |-> x.dy, dx |-> x.dx]
ModelOK == ("hs" \in DOMAIN c /\ IsST(c.A)) =>
   /\ \A d \in AllTiles(c.dy, c.dx), s \in AllTiles(c.sy, c.sx) : ExactNeeds(AsE(c), d, s) => s \in LinearDeps(AsE(c), d)
   /\ ChunkedEqualsWhole(AsE(c), LAMBDA d : LinearDeps(AsE(c), d))
   /\ ChunkedEqualsWhole(AsE(c), LAMBDA d : {s \in AllTiles(c.sy, c.sx) : ExactNeeds(AsE(c), d, s)})
\* and conversely a missing needed tile makes a hole (ties C12 to C13): checked on the first needed pair of each case
HoleIfMissing == ("hs" \in DOMAIN c /\ IsST(c.A)) =>
   \A d \in AllTiles(c.dy, c.dx), s \in AllTiles(c.sy, c.sx) : ExactNeeds(AsE(c), d, s) =>
      ~ChunkedEqualsWhole(AsE(c), LAMBDA dd : IF dd = d THEN {t \in AllTiles(c.sy, c.sx) : ExactNeeds(AsE(c), dd, t)} \ {s} ELSE {t \in AllTiles(c.sy, c.sx) : ExactNeeds(AsE(c), dd, t)})
         \/ {t \in AllTiles(c.sy, c.sx) : ExactNeeds(AsE(c), d, t)} = {s}
=============================================================================
