SPECIFICATION Spec
CONSTANT Tier = "thorough"
INVARIANT ModelOK
INVARIANT HoleIfMissing
