-------------------------------- MODULE TileQuery --------------------------------
(* C12 - tile queries and tile-to-tile dependency graphs (odc/geo/geobox.py GeoboxTiles.tiles,
   range_from_bbox, grid_intersect).

   Tile footprints are convex lattice quadrilaterals (images of tile rectangles under the integer base
   affine); overlap with a convex lattice query polygon is decided by the exact separating-axis test.
   Dependency need, from first principles: destination tile d needs source tile s when some pixel of d
   has its centre mapped inside s by at least 1/8 source pixel.                                       *)
EXTENDS ReprojPlan, Convex

RECURSIVE SumTo(_, _)
SumTo(q, n) == IF n = 0 THEN 0 ELSE q[n] + SumTo(q, n - 1)
\* tile k (1-based) of a chunk tuple covers [Lo, Hi)
Lo(ch, k) == SumTo(ch, k - 1)
Hi(ch, k) == SumTo(ch, k)
\* footprint of tile (r, c) of a box with base affine B = <<a, b, c, d, e, f>> (integers)
Img(B, x, y) == <<B[1] * x + B[2] * y + B[3], B[4] * x + B[5] * y + B[6]>>
TileQuad(B, chy, chx, r, c) == <<Img(B, Lo(chx, c), Lo(chy, r)), Img(B, Hi(chx, c), Lo(chy, r)), Img(B, Hi(chx, c), Hi(chy, r)), Img(B, Lo(chx, c), Hi(chy, r))>>
AllTiles(chy, chx) == (1..Len(chy)) \X (1..Len(chx))

\* ---- geometry / bounding-box queries: e.q = query polygon (lattice vertices, world coordinates of the base CRS)
QueryV(e) ==
  LET T == AllTiles(e.chy, e.chx)
      got == {<<e.out[k][1] + 1, e.out[k][2] + 1>> : k \in DOMAIN e.out}
      Q(t) == TileQuad(e.B, e.chy, e.chx, t[1], t[2]) IN
  IF ~(got \subseteq T) THEN "tile_index_out_of_range"
  ELSE IF \E t \in T : InteriorOverlap(Q(t), e.q) /\ t \notin got THEN "intersecting_tile_not_returned"
  ELSE IF e.exact /\ \E t \in got : StrictlyDisjoint(Q(t), e.q) THEN "returned_tile_does_not_intersect_the_query"
  ELSE "ok"

\* ---- dependency graph: e.c = pair case (ReprojPlan map A from destination to source pixels), e.sy/e.sx/e.dy/e.dx chunk tuples,
\*      e.deps = sequence of [d |-> <<r, c>>, s |-> sequence of <<r, c>>] (0-based)
NeedsPix(c, xd, yd, x0, x1, y0, y1) ==     \* centre of (xd, yd) inside source rectangle [x0, x1) x [y0, y1) by 1/8 px
  /\ 2 * D * x0 + D \div 4 <= Cx2(c.A, xd, yd) /\ Cx2(c.A, xd, yd) <= 2 * D * x1 - D \div 4
  /\ 2 * D * y0 + D \div 4 <= Cy2(c.A, xd, yd) /\ Cy2(c.A, xd, yd) <= 2 * D * y1 - D \div 4
Needs(e, d, s) == \E xd \in Lo(e.dx, d[2])..(Hi(e.dx, d[2]) - 1), yd \in Lo(e.dy, d[1])..(Hi(e.dy, d[1]) - 1) :
                     NeedsPix(e.c, xd, yd, Lo(e.sx, s[2]), Hi(e.sx, s[2]), Lo(e.sy, s[1]), Hi(e.sy, s[1]))
DepsOf(e, d) == LET ks == {k \in DOMAIN e.deps : e.deps[k].d = <<d[1] - 1, d[2] - 1>>} IN
                UNION {{<<e.deps[k].s[i][1] + 1, e.deps[k].s[i][2] + 1>> : i \in DOMAIN e.deps[k].s} : k \in ks}
\* the destination image mapped into source pixels misses the source image by at least one pixel
Apart(c) == LET xs == {Fx(c.A, p) : p \in CornersD(c)} ys == {Fy(c.A, p) : p \in CornersD(c)} IN
            \/ SetMax(xs) <= -D \/ SetMin(xs) >= (c.ws + 1) * D \/ SetMax(ys) <= -D \/ SetMin(ys) >= (c.hs + 1) * D
\* ---- transcription of the linear path (_grid_intersect_linear + range_from_bbox): destination tile box mapped by the
\*      scale+translation map, rounded outwards, clamped to the source image, then tile lookup per axis
TileOfPix(ch, p) == Cardinality({k \in 1..Len(ch) : Hi(ch, k) <= p}) + 1
AxisRange(ch, lo, hi) == LET N == SumTo(ch, Len(ch))
                             a1 == Clamp(FloorDiv(lo, D), 0, N - 1) a2 == Clamp(CeilDiv(hi, D), 1, N) - 1 IN
                         TileOfPix(ch, a1)..TileOfPix(ch, a2)
LinearDeps(e, d) ==
  LET A == e.c.A
      xa == A[1] * Lo(e.dx, d[2]) + A[3] xb == A[1] * Hi(e.dx, d[2]) + A[3]
      ya == A[5] * Lo(e.dy, d[1]) + A[6] yb == A[5] * Hi(e.dy, d[1]) + A[6] IN
  AxisRange(e.sy, Min2(ya, yb), Max2(ya, yb)) \X AxisRange(e.sx, Min2(xa, xb), Max2(xa, xb))
LinearComplete(e) == \A d \in AllTiles(e.dy, e.dx), s \in AllTiles(e.sy, e.sx) : Needs(e, d, s) => s \in LinearDeps(e, d)
\* pairs in really different CRSs: the projection is an environment table.  e.need = <<dy, dx, sy, sx>> pairs whose overlap is beyond
\* doubt (several destination pixel centres fall well inside the source tile, fresh pyproj), e.apart = the rasters are far apart
RDeps(e, d) == LET m == {i \in DOMAIN e.deps : e.deps[i].d = d} IN IF m = {} THEN {} ELSE LET i == CHOOSE i \in m : TRUE IN {e.deps[i].s[j] : j \in DOMAIN e.deps[i].s}
RGraphV(e) ==
  IF \E i \in DOMAIN e.need : <<e.need[i][3], e.need[i][4]>> \notin RDeps(e, <<e.need[i][1], e.need[i][2]>>) THEN "overlapping_source_tile_missing_from_dependencies"
  ELSE IF \E i \in DOMAIN e.deps : \E j \in DOMAIN e.deps[i].s : ~(e.deps[i].s[j][1] \in 0..(Len(e.sy) - 1) /\ e.deps[i].s[j][2] \in 0..(Len(e.sx) - 1)) THEN "dependency_on_a_tile_that_does_not_exist"
  ELSE IF e.apart /\ \E i \in DOMAIN e.deps : e.deps[i].s # <<>> THEN "rasters_do_not_overlap_but_dependencies_listed"
  ELSE "ok"
GraphV(e) ==
  IF \E d \in AllTiles(e.dy, e.dx), s \in AllTiles(e.sy, e.sx) : Needs(e, d, s) /\ s \notin DepsOf(e, d) THEN "overlapping_source_tile_missing_from_dependencies"
  ELSE IF \E d \in AllTiles(e.dy, e.dx) : ~(DepsOf(e, d) \subseteq AllTiles(e.sy, e.sx)) THEN "dependency_on_a_tile_that_does_not_exist"
  ELSE IF Apart(e.c) /\ \E d \in AllTiles(e.dy, e.dx) : DepsOf(e, d) # {} THEN "rasters_do_not_overlap_but_dependencies_listed"
  ELSE "ok"
=============================================================================
