-------------------------------- MODULE ReprojGen --------------------------------
(* C03 / C10 - domain of same-CRS grid pairs, design-level check of the transcription, emission. *)
EXTENDS ReprojPlan, CaseIO
CONSTANTS Tier
Scales == {960, -960, 1920, -1920, 2880, 480, 320, 1440, 640, 975, -480}
Res == {0, 15, -15, 30, -30, 60, -60, 240, -240, 480}      \* 0, +-1/64, +-1/32, +-1/16, +-1/4, 1/2 pixel
Ks == IF Tier = "quick" THEN {-7, -2, -1, 0, 1, 3, 5, 8} ELSE -8..13
Shapes == {<<<<3, 4>>, <<4, 3>>>>, <<<<5, 5>>, <<2, 6>>>>, <<<<1, 6>>, <<5, 2>>>>, <<<<6, 6>>, <<6, 6>>>>}      \* <<src (h, w), dst (h, w)>>
Opts == {[pad |-> <<>>, align |-> <<>>], [pad |-> <<0>>, align |-> <<>>], [pad |-> <<1>>, align |-> <<>>], [pad |-> <<2>>, align |-> <<2>>], [pad |-> <<>>, align |-> <<4>>]}
Tols == {[ttol |-> <<1, 20>>, stol |-> <<1, 1000>>], [ttol |-> <<1, 100>>, stol |-> <<1, 1000>>]}
Pick(q, k) == q[(k % Len(q)) + 1]
Mk(sh, A, o, t) == [hs |-> sh[1][1], ws |-> sh[1][2], hd |-> sh[2][1], wd |-> sh[2][2], A |-> A, pad |-> o.pad, align |-> o.align, ttol |-> t.ttol, stol |-> t.stol]
\* scale + translation: the x axis sweeps scales x shifts, the y axis takes a few values (and the roles swap with `sw`)
STCases(sx) ==
  {LET ax == <<sx, k * 960 + r>> ay == <<sy, ty>>
       A == IF sw THEN <<ay[1], 0, ay[2], 0, ax[1], ax[2]>> ELSE <<ax[1], 0, ax[2], 0, ay[1], ay[2]>> IN
     Mk(sh, A, o, Pick(<<[ttol |-> <<1, 20>>, stol |-> <<1, 1000>>], [ttol |-> <<1, 100>>, stol |-> <<1, 1000>>]>>, k + r)) :
     k \in Ks, r \in Res, sy \in {Abs(sx), -Abs(sx), 960}, ty \in IF Tier = "quick" THEN {0, 1935, -960} ELSE {0, 1935, -960, 1440}, sw \in BOOLEAN, sh \in Shapes, o \in Opts}
\* rotations (90, -90, Pythagorean 3-4-5 and 5-12-13) with scale 1 and 2, lattice shifts
RotCases ==
  {Mk(sh, <<m * l[1], m * l[2], tx, m * l[3], m * l[4], ty>>, o, [ttol |-> <<1, 20>>, stol |-> <<1, 1000>>]) :
     l \in {<<0, -960, 960, 0>>, <<0, 960, -960, 0>>, <<576, -768, 768, 576>>, <<-768, -576, 576, -768>>},       \* 90, -90, (3/5, 4/5), its 90-degree companion
     m \in {1, 2}, tx \in {0, 2000, -1500, 4500}, ty \in {0, 3000, 7000}, sh \in Shapes, o \in Opts}
\* isotropic scales just below / above an integer (inside and outside the read-shrink and paste tolerances), with the caller's tolerances varied
NearScales == {2842, 1881, 2879, 2881, 1939, 2841}
NearCases(sx) ==
  {Mk(sh, <<sx, 0, k * 960 + r, 0, sy, ty>>, o, t) :
     \* k = 30000: the same residues between rasters tens of thousands of pixels apart (tolerances are absolute, in pixels)
     k \in {-2, 0, 3, 30000}, r \in {0, 15, 60}, sy \in {sx, -sx}, ty \in {0, 1935}, sh \in Shapes, o \in {[pad |-> <<>>, align |-> <<>>], [pad |-> <<0>>, align |-> <<>>], [pad |-> <<1>>, align |-> <<>>]},
     t \in {[ttol |-> <<1, 20>>, stol |-> <<1, 1000>>], [ttol |-> <<1, 20>>, stol |-> <<1, 20>>], [ttol |-> <<1, 5>>, stol |-> <<1, 1000>>], [ttol |-> <<1, 100>>, stol |-> <<1, 50>>]}}
\* a shear / rotation of 1/64 or 1/16 pixel per pixel on an otherwise whole-pixel map (either off-diagonal term alone, or both): never scale + translation, whatever the tolerances
ShearCases ==
  {Mk(sh, <<m * 960, bd[1], tx, bd[2], m * 960, ty>>, o, t) :
     m \in {1, 2}, bd \in ({0, 15, -15, 60} \X {0, 15, -15}) \ {<<0, 0>>}, tx \in {0, 1920, -960}, ty \in {0, 960}, sh \in Shapes, o \in {[pad |-> <<>>, align |-> <<>>], [pad |-> <<0>>, align |-> <<>>]},
     t \in {[ttol |-> <<1, 20>>, stol |-> <<1, 1000>>], [ttol |-> <<1, 20>>, stol |-> <<1, 20>>], [ttol |-> <<1, 5>>, stol |-> <<1, 10>>]}}
\* rasters of thousands of pixels related by a whole-pixel shift plus a rotation / shear of 2^-11 .. 2^-9 per pixel (below the default scale tolerance
\* 1e-3 or just above it), partially overlapping: den = 2^14
BigDen == 16384
BigCases ==
  {Mk(<<<<n, n>>, <<n, n>>>>, <<BigDen, bd[1], tx * BigDen, bd[2], BigDen, ty * BigDen>>, [pad |-> <<>>, align |-> <<>>], t) @@ [den |-> BigDen] :
     n \in {3000}, bd \in ({0, 8, -8, 32} \X {-8, 8, 0}) \ {<<0, 0>>}, tx \in {20, -500, 1500}, ty \in {0, 700, -30},
     t \in {[ttol |-> <<1, 20>>, stol |-> <<1, 1000>>], [ttol |-> <<1, 20>>, stol |-> <<1, 100>>]}}
\* whole-pixel scales 1 and 2 with residues on both sides of the translation tolerances, far apart
FarCases ==
  {Mk(sh, <<sx, 0, k * 960 + r, 0, sx, ty>>, [pad |-> <<>>, align |-> <<>>], t) :
     sx \in {960, 1920}, k \in {30000, -30000}, r \in {0, 15, 30, 60, -60, 240}, ty \in {0, 960 * 20000 + 30}, sh \in {<<<<3, 4>>, <<4, 3>>>>},
     t \in {[ttol |-> <<1, 20>>, stol |-> <<1, 1000>>], [ttol |-> <<1, 100>>, stol |-> <<1, 1000>>], [ttol |-> <<1, 5>>, stol |-> <<1, 1000>>]}}
\* a destination of 8 x 8 pixels, each 2^29 source pixels wide, whose first pixel has its centre inside a 100 x 100 source: the destination reaches
\* 2^32 source pixels away (beyond the 32-bit range the boundary samples are cast to).  Only pixel (0, 0) is needed; TLC evaluates exactly that one.
HugeCases ==
  {Mk(<<<<100, 100>>, <<8, 8>>>>, <<sx * 536870912, 0, (100 - sx * 536870912) \div 2, 0, sy * 536870912, (100 - sy * 536870912) \div 2>>, o,
      [ttol |-> <<1, 20>>, stol |-> <<1, 1000>>]) @@ [den |-> 1, huge |-> TRUE] :
     sx \in {1, -1}, sy \in {1, -1}, o \in {[pad |-> <<>>, align |-> <<>>], [pad |-> <<2>>, align |-> <<>>], [pad |-> <<1>>, align |-> <<4>>], [pad |-> <<3>>, align |-> <<>>]}}
\* the same whole-pixel maps between grids tagged with two DIFFERENT coordinate reference systems (two custom transverse-Mercator systems without an
\* EPSG code, fresh CRS objects): whatever the numbers say, paste-ability may only be reported for grids sharing a CRS
XCrsCases ==
  {Mk(sh, <<sx, 0, k * 960, 0, sy, ty>>, [pad |-> <<>>, align |-> <<>>], [ttol |-> <<1, 20>>, stol |-> <<1, 1000>>]) @@ [xcrs |-> TRUE] :
     sx \in {960, 1920}, sy \in {960, -960, 1920}, k \in {-2, 0, 3}, ty \in {0, 960}, sh \in Shapes}
AxisCases(s) == {[ns |-> ns, nd |-> nd, s |-> s, t |-> k * 960 + r] : ns \in 1..5, nd \in 1..5, k \in -8..13, r \in Res \cup {320, -320, 640}}
VARIABLE c
Init == c \in {[k |-> "st", v |-> s] : s \in Scales} \cup {[k |-> "near", v |-> s] : s \in NearScales} \cup {[k |-> "rot", v |-> 0], [k |-> "shear", v |-> 0], [k |-> "big", v |-> 0], [k |-> "far", v |-> 0], [k |-> "xcrs", v |-> 0]} \cup {[k |-> "axis", v |-> s] : s \in Scales}
Next == "k" \in DOMAIN c /\ c' \in (IF c.k = "st" THEN STCases(c.v) ELSE IF c.k = "near" THEN NearCases(c.v) ELSE IF c.k = "shear" THEN ShearCases ELSE IF c.k = "big" THEN BigCases \cup HugeCases ELSE IF c.k = "far" THEN FarCases ELSE IF c.k = "xcrs" THEN XCrsCases ELSE IF c.k = "axis" THEN AxisCases(c.v) ELSE RotCases) /\ Emit(c')
Spec == Init /\ [][Next]_c
\* design level: the transcribed plan meets the contract
ModelPlan(x) ==
  LET tight == (x.align = <<>> \/ x.align = <<0>>) /\ (x.pad = <<>> \/ x.pad = <<0>>)
      paste == tight /\ CanPaste(x.A, x.ttol[1], x.ttol[2], x.stol[1], x.stol[2]) IN
  IF paste THEN PastePlan(x) @@ [paste_ok |-> TRUE, shrink |-> Shrink(x.A)]
  ELSE [roi_src |-> SampledSrcRoi(x, PadOf(x)), paste_ok |-> FALSE, shrink |-> 0]
AxisModelOK == "ns" \in DOMAIN c => LET r == AxisOverlap(c.ns, c.nd, c.s, c.t) IN AxisOK(c, <<r.s0, r.s1, r.d0, r.d1>>) = "ok"
ModelOK == ("hs" \in DOMAIN c /\ "den" \notin DOMAIN c /\ "xcrs" \notin DOMAIN c) =>
  LET m == ModelPlan(c) IN
  IF m.paste_ok THEN /\ \A p \in Needed(c) : InRoi(m.roi_dst, p[1], p[2]) /\ InRoi(m.roi_src, SrcPix(c, p)[1], SrcPix(c, p)[2])
                     /\ PasteSoundOK(c, [paste_ok |-> TRUE, shrink |-> m.shrink, roi_src |-> m.roi_src, roi_dst |-> m.roi_dst]) = "ok"
  ELSE \A p \in Needed(c) : InRoi(m.roi_src, SrcPix(c, p)[1], SrcPix(c, p)[2])
=============================================================================
