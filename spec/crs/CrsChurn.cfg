SPECIFICATION Spec
CONSTANTS
  Classes = {"c4326", "c3857", "c3577", "c32601", "c32602", "c32603", "c32604", "c32605", "c32606"}
  Ns = {6, 24, 70}
INVARIANT WellFormed
