SPECIFICATION MCSpec
CONSTANTS
  Classes = {"c4326", "c3857"}
  Addrs = {1, 2, 3}
  NRefs = 2
  Evict = TRUE
  TrackHist = TRUE
  TrackStr = FALSE
  AllRoutes = FALSE
  WhatIf = TRUE
  Depth = 11
INVARIANT CacheKeepsAlive
INVARIANT RefsAlive
CONSTRAINT Bound
