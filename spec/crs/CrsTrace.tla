------------------------------- MODULE CrsTrace -------------------------------
(* C19 (history part) - one event per step of a TLC history replayed on the real odc.geo.crs in a
   fresh interpreter: st = the model's step (with its predictions), ob = what was observed.
   Property clauses (reject):
     * a CRS built from a specification has the string form / hash / token a program that builds only
       that specification sees (ob.stable), whatever was created, dropped or collected before;
     * the new object equals exactly the live objects of its class (ob.eq_ok);
     * a transformer converts between exactly the two systems asked for (ob.tr_ok, against a fresh pyproj one).
   Conformance (drift): observed string form and object sharing = the model's prediction.           *)
EXTENDS Integers, Sequences, FiniteSets, TLC, TraceIO

SeqSet(q) == {q[i] : i \in DOMAIN q}
Verdict(e) ==
  LET st == e.st ob == e.ob IN
  IF ob.outcome # "ok" THEN "reject:raised_" \o ob.outcome
  ELSE IF st.op \in {"make", "copy", "pickle"} THEN
       (IF ~ob.eq_ok THEN "reject:equivalent_specs_unequal_or_different_ones_equal"
        ELSE IF ~ob.stable THEN "reject:str_hash_token_depend_on_history"
        ELSE IF e.whatif THEN "ok"       \* what-if history of the evicting model: predictions do not apply
        ELSE IF ob.form # st.form THEN "drift:string_form_differs_from_model"
        ELSE IF SeqSet(ob.same) # SeqSet(st.same) THEN "drift:object_sharing_differs_from_model"
        ELSE "ok")
  ELSE IF st.op = "transform" THEN (IF ~ob.tr_ok THEN "reject:transformer_converts_between_other_systems" ELSE "ok")
  ELSE "ok"

VARIABLE l
Init == l = 1
Next == l <= NEvents /\ PrintT(<<"V", l, Verdict(Events[l])>>) /\ l' = l + 1
Spec == Init /\ [][Next]_l
=============================================================================
