------------------------------ MODULE ValueTrace ------------------------------
(* C19 (value part) - verdicts on observations of real objects.
   kind "pair": di, dj descriptors; eq_ij, eq_ji, ne_ij (the != operator), hashable, hash_eq, tok_eq; ueq_ij, ueq_ji, uhash_eq: the same
                comparisons repeated after every object of the family has been used
   kind "obj":  d; refl; pickle ("ok" | exception); pickle_eq, pickle_tok, copy_tok, hash_stable;
                the same once more AFTER USE (every view / derived attribute of the object read, which fills its caches): a value is what it was
                before somebody looked at it - used ("ok" | exception while reading), used_eq, used_tok, used_hash, used_pickle, used_pickle_eq, used_pickle_tok
   kind "trans": fam, eq = matrix of observed ==                                                    *)
EXTENDS ValueLaws, TraceIO

PairVerdict(e) ==
  IF e.outcome # "ok" THEN "reject:comparison_raised_" \o e.outcome
  ELSE IF e.eq_ij # e.eq_ji THEN "reject:eq_not_symmetric"
  ELSE IF e.ne_ij = e.eq_ij THEN "reject:ne_is_not_the_negation_of_eq"
  ELSE IF e.eq_ij /\ e.hashable /\ ~e.hash_eq THEN "reject:equal_objects_hash_differently"
  ELSE IF ~e.eq_ij /\ e.tok_eq THEN "reject:unequal_objects_share_a_token"
  ELSE IF e.ueq_ij # e.eq_ij \/ e.ueq_ji # e.eq_ji THEN "reject:equality_of_a_pair_changes_with_use"
  ELSE IF e.eq_ij /\ e.hashable /\ ~e.uhash_eq THEN "reject:equal_objects_hash_differently_after_use"
  ELSE IF e.di.t = "crs" /\ ExpectedEq(e.di, e.dj) /\ ~e.eq_ij THEN "reject:equivalent_crs_specifications_unequal"
  ELSE IF e.eq_ij # ExpectedEq(e.di, e.dj) THEN "drift:eq_differs_from_fieldwise_model"
  ELSE "ok"
ObjVerdict(e) ==
  IF e.outcome # "ok" THEN "reject:construction_raised_" \o e.outcome
  ELSE IF ~e.refl THEN "reject:eq_not_reflexive"
  ELSE IF e.pickle # "ok" THEN "reject:pickle_failed_" \o e.pickle
  ELSE IF ~e.pickle_eq THEN "reject:unpickled_clone_not_equal"
  ELSE IF ~e.pickle_tok THEN "reject:unpickled_clone_has_another_token"
  ELSE IF ~e.copy_tok THEN "reject:copy_has_another_token"
  ELSE IF ~e.hash_stable THEN "reject:clone_hashes_differently"
  ELSE IF ~e.used_eq THEN "reject:object_differs_from_its_earlier_copy_after_use"
  ELSE IF ~e.used_tok THEN "reject:token_changes_with_use"
  ELSE IF ~e.used_hash THEN "reject:hash_changes_with_use"
  ELSE IF e.used_pickle # "ok" THEN "reject:pickle_of_a_used_object_failed_" \o e.used_pickle
  ELSE IF ~e.used_pickle_eq THEN "reject:unpickled_clone_of_a_used_object_not_equal"
  ELSE IF ~e.used_pickle_tok THEN "reject:unpickled_clone_of_a_used_object_has_another_token"
  ELSE "ok"
TransVerdict(e) ==
  LET n == Len(e.eq) IN
  IF \E i, j, k \in 1..n : e.eq[i][j] /\ e.eq[j][k] /\ ~e.eq[i][k] THEN "reject:eq_not_transitive" ELSE "ok"
Verdict(e) == CASE e.kind = "pair" -> PairVerdict(e) [] e.kind = "obj" -> ObjVerdict(e) [] e.kind = "trans" -> TransVerdict(e)

VARIABLE l
Init == l = 1
Next == l <= NEvents /\ PrintT(<<"V", l, Verdict(Events[l])>>) /\ l' = l + 1
Spec == Init /\ [][Next]_l
=============================================================================
