------------------------------- MODULE CrsCache -------------------------------
(* C19 (history part) - the CRS construction cache and the transformer cache of odc/geo/crs.py.

   heap      address -> class of the pyproj object living there, or free
   crsCache  set of [key, addr, form]   (_crs_cache: normalised spec -> (pyproj object, str, epsg))
   trCache   set of [a1, a2, src, dst]  (_make_crs_transform cache keyed by the objects' id())
   refs      client variable -> [addr, form, cls] | NoRef   (CRS wrappers the program holds)

   The key rule is the code's: ints and "epsg:NNNN" strings in any letter case normalise to one key;
   a pyproj object (also the one a PROJJSON dict is converted to) is its own key, and pyproj objects hash
   and compare like their WKT text, so a WKT string and pyproj objects of any origin can share one
   cache entry (for which classes exactly is pyproj's business: see KeyGroup).  The string form (str / hash / dask token derive from it) is whatever the creator of the
   cache entry produced.  The unbounded cache keeps every pyproj object alive, which is what makes
   identity-keyed transformer caching sound; Evict = TRUE models a hypothetical bounded cache.      *)
EXTENDS Integers, Sequences, FiniteSets, TLC, Json, IOUtils

CONSTANTS Classes, Addrs, NRefs, Evict, TrackHist, Depth,
          TrackStr,   \* record history dependence of the string form in `bad` (the known finding)
          AllRoutes   \* FALSE: one representative route per (key group, string form) - same reachable states

Refs == 1..NRefs
Routes == IF AllRoutes THEN {"int", "epsgstr", "wkt", "dict", "jsonstr", "obj_epsg", "obj_wkt", "obj_dict"}
          ELSE {"int", "wkt", "dict", "jsonstr", "obj_epsg"}
SrsForm(route) == CASE route \in {"int", "epsgstr", "obj_epsg"} -> "EPSG"
                    [] route \in {"wkt", "obj_wkt"} -> "WKT"
                    [] OTHER -> "JSON"
\* Which specifications share a cache entry is decided by pyproj's __hash__ / __eq__ of the key objects
\* (environment): the harness tabulates, per class and route, the group of the key the code's rule
\* produces (strings upper-cased when they start with "epsg:", ints as "EPSG:n", pyproj objects and
\* dict-derived pyproj objects as themselves), grouping keys that hash and compare equal.
KeyTab == JsonDeserialize(IOEnv.KEY_TABLE)
KeyGroup(cls, route) == KeyTab[cls][route]
\* unpickling runs CRS(<the string form>): the string route for that form
FormRoute(form) == CASE form = "EPSG" -> "epsgstr" [] form = "WKT" -> "wkt" [] OTHER -> "jsonstr"

VARIABLES heap, crsCache, trCache, refs, bad, hist
vars == <<heap, crsCache, trCache, refs, bad, hist>>

NoRef == [addr |-> 0, form |-> "", cls |-> ""]
FreeCell == [cls |-> "free"]
Free == {a \in Addrs : heap[a] = FreeCell}
HasKey(k) == \E e \in crsCache : e.key = k
CacheVal(k) == CHOOSE e \in crsCache : e.key = k
Live == {r \in Refs : refs[r] # NoRef}
SameObj(r, rf) == {x \in Refs : rf[x] # NoRef /\ x # r /\ rf[x].addr = rf[r].addr}
Log(e) == hist' = IF TrackHist THEN Append(hist, e) ELSE hist

Init == /\ heap = [a \in Addrs |-> FreeCell] /\ crsCache = {} /\ trCache = {}
        /\ refs = [r \in Refs |-> NoRef] /\ bad = "ok" /\ hist = <<>>

\* CRS(spec): cache hit or miss.  `r` receives the wrapper.
Construct(r, cls, route, op, src) ==
  LET k == <<KeyGroup(cls, route), cls>> IN
  IF HasKey(k) THEN
     LET e == CacheVal(k) IN
     /\ refs' = [refs EXCEPT ![r] = [addr |-> e.addr, form |-> e.form, cls |-> cls]]
     /\ UNCHANGED <<heap, crsCache>>
     /\ bad' = IF TrackStr /\ e.form # SrsForm(route) /\ bad = "ok" THEN "StrNotStable" ELSE bad
     /\ Log([op |-> op, r |-> r, src |-> src, cls |-> cls, route |-> route, form |-> e.form,
             same |-> SameObj(r, refs')])
  ELSE \E a \in Free :
     /\ heap' = [heap EXCEPT ![a] = [cls |-> cls]]
     /\ crsCache' = crsCache \cup {[key |-> k, addr |-> a, form |-> SrsForm(route)]}
     /\ refs' = [refs EXCEPT ![r] = [addr |-> a, form |-> SrsForm(route), cls |-> cls]]
     /\ UNCHANGED bad
     /\ Log([op |-> op, r |-> r, src |-> src, cls |-> cls, route |-> route, form |-> SrsForm(route),
             same |-> SameObj(r, refs')])

Make(r, cls, route) == refs[r] = NoRef /\ Construct(r, cls, route, "make", 0) /\ UNCHANGED trCache
\* CRS(other_crs): shares the pyproj object and the string form
Copy(r, src) == /\ refs[r] = NoRef /\ refs[src] # NoRef
                /\ refs' = [refs EXCEPT ![r] = refs[src]]
                /\ Log([op |-> "copy", r |-> r, src |-> src, cls |-> refs[src].cls, route |-> "crsobj", form |-> refs[src].form,
                        same |-> SameObj(r, refs')])
                /\ UNCHANGED <<heap, crsCache, trCache, bad>>
\* pickle.loads(pickle.dumps(crs))
Pickle(r, src) == /\ refs[r] = NoRef /\ refs[src] # NoRef
                  /\ Construct(r, refs[src].cls, FormRoute(refs[src].form), "pickle", src) /\ UNCHANGED trCache
Drop(r) == /\ refs[r] # NoRef /\ refs' = [refs EXCEPT ![r] = NoRef]
           /\ Log([op |-> "drop", r |-> r, src |-> 0, cls |-> "", route |-> "", form |-> "", same |-> {}])
           /\ UNCHANGED <<heap, crsCache, trCache, bad>>
Reachable == {refs[r].addr : r \in Live} \cup {e.addr : e \in crsCache}
GC == /\ \E a \in Addrs : heap[a] # FreeCell /\ a \notin Reachable
      /\ heap' = [a \in Addrs |-> IF a \in Reachable THEN heap[a] ELSE FreeCell]
      /\ Log([op |-> "gc", r |-> 0, src |-> 0, cls |-> "", route |-> "", form |-> "", same |-> {}])
      /\ UNCHANGED <<crsCache, trCache, refs, bad>>
EvictOne == /\ Evict /\ \E e \in crsCache : crsCache' = crsCache \ {e}
            /\ Log([op |-> "evict", r |-> 0, src |-> 0, cls |-> "", route |-> "", form |-> "", same |-> {}])
            /\ UNCHANGED <<heap, trCache, refs, bad>>
\* crs1.transformer_to_crs(crs2): identity keyed lookup
GetTransformer(r1, r2) ==
  /\ refs[r1] # NoRef /\ refs[r2] # NoRef
  /\ LET a1 == refs[r1].addr a2 == refs[r2].addr IN
     IF \E t \in trCache : t.a1 = a1 /\ t.a2 = a2 THEN
        LET t == CHOOSE t \in trCache : t.a1 = a1 /\ t.a2 = a2 IN
        /\ bad' = IF t.src # refs[r1].cls \/ t.dst # refs[r2].cls THEN "WrongTransformer" ELSE bad
        /\ UNCHANGED trCache
     ELSE /\ trCache' = trCache \cup {[a1 |-> a1, a2 |-> a2, src |-> refs[r1].cls, dst |-> refs[r2].cls]}
          /\ UNCHANGED bad
  /\ Log([op |-> "transform", r |-> r1, src |-> r2, cls |-> refs[r1].cls, route |-> refs[r2].cls, form |-> "", same |-> {}])
  /\ UNCHANGED <<heap, crsCache, refs>>

Next == \/ \E r \in Refs, c \in Classes, rt \in Routes : Make(r, c, rt)
        \/ \E r, s \in Refs : Copy(r, s) \/ Pickle(r, s)
        \/ \E r \in Refs : Drop(r)
        \/ GC \/ EvictOne
        \/ \E r1, r2 \in Refs : GetTransformer(r1, r2)
Spec == Init /\ [][Next]_vars

TransformerMatchesRequest == bad # "WrongTransformer"
StrStable == bad # "StrNotStable"
\* every cached pyproj object is alive and of the class its key says (what the transformer cache relies on)
CacheKeepsAlive == \A e \in crsCache : heap[e.addr] # FreeCell /\ heap[e.addr].cls = e.key[2]
RefsAlive == \A r \in Live : heap[refs[r].addr] # FreeCell /\ heap[refs[r].addr].cls = refs[r].cls
=============================================================================
