------------------------------- MODULE CrsChurn -------------------------------
(* C19 - directed histories for the mechanism CrsCache!TransformerMatchesRequest rests on.
   The evicting what-if model (MC_CrsCache_evict) shows HOW a bounded cache would hand out a stale
   transformer: cache a transformer for (X, Y), lose the last reference to X's pyproj object, let a new
   object of another class be allocated at its address, ask for (new, Y).  A scenario does exactly
   that on the real code, with `n` constructions of distinct specifications in between (cache
   pressure); on the real unbounded cache every transformer must still be right.                    *)
EXTENDS Integers, Sequences, FiniteSets, TLC, CaseIO, SequencesExt
CONSTANTS Classes, Ns
Routes == <<"int", "wkt", "jsonstr", "obj_wkt", "dict", "obj_epsg", "epsgstr", "obj_dict">>
\* "projdict": a PROJ-parameter dict ({"proj": "utm", "zone": n, ...}) - a small pyproj object that is its own cache key.
\* Only for classes whose parameter form pyproj identifies with the EPSG form (UTM zones, web mercator).
PClasses == Classes \ {"c4326", "c3577"}
ClassSeq == SetToSeq(Classes)
Step(op, r, src, cls, route) == [op |-> op, r |-> r, src |-> src, cls |-> cls, route |-> route, form |-> "", same |-> {}]
\* i-th churn specification: cycles through classes other than `a` and all routes
ChurnClsIn(a, i, S) == LET others == SelectSeq(ClassSeq, LAMBDA c : c # a /\ c \in S) IN others[((i - 1) % Len(others)) + 1]
ChurnCls(a, i) == ChurnClsIn(a, i, Classes)
ChurnRoute(i) == Routes[(((i - 1) \div (Cardinality(Classes) - 1)) % Len(Routes)) + 1]
\* mode "cycle": the churn walks through all routes; mode "same": every churn specification comes by the scenario's own
\* route, so the objects allocated after the drop have the size of the dropped one (an address is re-used at once if free)
RECURSIVE Churn(_, _, _, _, _)
Churn(a, i, n, rt, mode) ==
  IF i > n THEN <<>>
  ELSE LET cl == IF rt = "projdict" /\ mode = "same" THEN ChurnClsIn(a, i, PClasses) ELSE ChurnCls(a, i) IN
       <<Step("make", 3, 0, cl, IF mode = "same" THEN rt ELSE ChurnRoute(i)), Step("transform", 3, 2, cl, "?"),
         Step("drop", 3, 0, "", ""), Step("gc", 0, 0, "", "")>> \o Churn(a, i + 1, n, rt, mode)
Scenario(a, b, rt, n, mode) ==
  <<Step("make", 1, 0, a, rt), Step("make", 2, 0, b, "int"), Step("transform", 1, 2, a, b), Step("drop", 1, 0, "", ""), Step("gc", 0, 0, "", "")>>
  \o Churn(a, 1, n, rt, mode)
VARIABLE c
Init == c \in {[op |-> "chunk", a |-> a, b |-> b] : a \in Classes, b \in Classes}
Next == c.op = "chunk" /\ \E rt \in {"wkt", "obj_epsg", "dict", "obj_dict", "jsonstr", "projdict"}, n \in Ns, mode \in {"cycle", "same"} :
           (rt = "projdict" => c.a \in PClasses) /\
           c' = [hist |-> Scenario(c.a, c.b, rt, n, mode), whatif |-> TRUE, op |-> "scenario", mode |-> mode, rt |-> rt] /\ Emit(c')
Spec == Init /\ [][Next]_c
\* well-formedness of the generated histories: a reference is dropped only when held, made only when free
WellFormed == c.op = "scenario" =>
   \A k \in DOMAIN c.hist : c.hist[k].op = "transform" => c.hist[k].src = 2
=============================================================================
