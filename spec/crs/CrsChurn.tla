------------------------------- MODULE CrsChurn -------------------------------
(* C19 - directed histories for the mechanism CrsCache!TransformerMatchesRequest rests on.
   The evicting what-if model (MC_CrsCache_evict) shows HOW a bounded cache would hand out a stale
   transformer: cache a transformer for (X, Y), lose the last reference to X's pyproj object, let a new
   object of another class be allocated at its address, ask for (new, Y).  A scenario does exactly
   that on the real code, with `n` constructions of distinct specifications in between (cache
   pressure); on the real unbounded cache every transformer must still be right.                    *)
EXTENDS Integers, Sequences, FiniteSets, TLC, CaseIO, SequencesExt
CONSTANTS Classes, Ns
Routes == <<"int", "wkt", "jsonstr", "obj_wkt", "dict", "obj_epsg", "epsgstr", "obj_dict">>
\* "projdict": a PROJ-parameter dict ({"proj": "utm", "zone": n, ...}) - a small pyproj object that is its own cache key.
\* Only for classes whose parameter form pyproj identifies with the EPSG form (UTM zones, web mercator).
PClasses == Classes \ {"c4326", "c3577"}
ClassSeq == SetToSeq(Classes)
Step(op, r, src, cls, route) == [op |-> op, r |-> r, src |-> src, cls |-> cls, route |-> route, form |-> "", same |-> {}]
\* i-th churn specification: cycles through classes other than `a` and all routes
ChurnClsIn(a, i, S) == LET others == SelectSeq(ClassSeq, LAMBDA c : c # a /\ c \in S) IN others[((i - 1) % Len(others)) + 1]
ChurnCls(a, i) == ChurnClsIn(a, i, Classes)
ChurnRoute(i) == Routes[(((i - 1) \div (Cardinality(Classes) - 1)) % Len(Routes)) + 1]
\* mode "cycle": the churn walks through all routes; mode "same": every churn specification comes by the scenario's own
\* route, so the objects allocated after the drop have the size of the dropped one (an address is re-used at once if free)
RECURSIVE Churn(_, _, _, _, _)
Churn(a, i, n, rt, mode) ==
  IF i > n THEN <<>>
  ELSE LET cl == IF rt = "projdict" /\ mode = "same" THEN ChurnClsIn(a, i, PClasses) ELSE ChurnCls(a, i) IN
       <<Step("make", 3, 0, cl, IF mode = "same" THEN rt ELSE ChurnRoute(i)), Step("transform", 3, 2, cl, "?"),
         Step("drop", 3, 0, "", ""), Step("gc", 0, 0, "", "")>> \o Churn(a, i + 1, n, rt, mode)
Scenario(a, b, rt, n, mode) ==
  <<Step("make", 1, 0, a, rt), Step("make", 2, 0, b, "int"), Step("transform", 1, 2, a, b), Step("drop", 1, 0, "", ""), Step("gc", 0, 0, "", "")>>
  \o Churn(a, 1, n, rt, mode)
\* a CRS named by an authority other than EPSG ("ESRI:54009"), asked for again and again in different letter cases (the worker varies the
\* spelling with the step number): every object must have the string form, hash and token of its own spelling, whatever was built before
AuthScenario(a, b, n) ==
  <<Step("make", 2, 0, b, "int")>> \o
  [i \in 1..(4 * n) |-> IF i % 4 = 1 THEN Step("make", 3, 0, a, "authstr") ELSE IF i % 4 = 2 THEN Step("transform", 3, 2, a, "?")     \* 4 steps per round: the spelling
                          ELSE IF i % 4 = 3 THEN Step("drop", 3, 0, "", "") ELSE Step("gc", 0, 0, "", "")]                                   \* (step number mod 3) cycles
\* cache pressure far beyond any plausible bound: several hundred distinct specifications (UTM zones north and south by three routes) built,
\* used in a transformer and dropped, one after the other
ZoneCls(i) == "c32" \o (IF (i \div 60) % 2 = 0 THEN "6" ELSE "7") \o (IF (i % 60) + 1 < 10 THEN "0" ELSE "") \o ToString((i % 60) + 1)
LongScenario(a, b, rt, n) ==
  <<Step("make", 1, 0, a, rt), Step("make", 2, 0, b, "int"), Step("transform", 1, 2, a, b), Step("drop", 1, 0, "", ""), Step("gc", 0, 0, "", "")>> \o
  [i \in 1..(3 * n) |-> LET j == (i - 1) \div 3 IN
     IF i % 3 = 1 THEN Step("make", 3, 0, ZoneCls(j), <<"int", "wkt", "obj_epsg">>[((j \div 120) % 3) + 1]) ELSE IF i % 3 = 2 THEN Step("transform", 3, 2, ZoneCls(j), "?") ELSE Step("drop", 3, 0, "", "")]
VARIABLE c
Init == c \in {[op |-> "chunk", a |-> a, b |-> b] : a \in Classes, b \in Classes} \cup {[op |-> "auth", a |-> a, b |-> b] : a \in {"e54009", "e54030"}, b \in {"c4326", "c3857"}}
             \cup {[op |-> "long", a |-> a, b |-> "c4326"] : a \in {"c3577", "c32601"}}
Next == \/ c.op = "auth" /\ \E n \in {4, 9} : c' = [hist |-> AuthScenario(c.a, c.b, n), whatif |-> TRUE, op |-> "scenario", mode |-> "auth", rt |-> "authstr"] /\ Emit(c')
        \/ c.op = "long" /\ \E rt \in {"wkt", "obj_epsg", "int"} : c' = [hist |-> LongScenario(c.a, c.b, rt, 400), whatif |-> TRUE, op |-> "scenario", mode |-> "long", rt |-> rt] /\ Emit(c')
        \/ c.op = "chunk" /\ \E rt \in {"wkt", "obj_epsg", "dict", "obj_dict", "jsonstr", "projdict"}, n \in Ns, mode \in {"cycle", "same"} :
           (rt = "projdict" => c.a \in PClasses) /\
           c' = [hist |-> Scenario(c.a, c.b, rt, n, mode), whatif |-> TRUE, op |-> "scenario", mode |-> mode, rt |-> rt] /\ Emit(c')
Spec == Init /\ [][Next]_c
\* well-formedness of the generated histories: a reference is dropped only when held, made only when free
WellFormed == c.op = "scenario" =>
   \A k \in DOMAIN c.hist : c.hist[k].op = "transform" => c.hist[k].src = 2
=============================================================================
