------------------------------- MODULE CrsChurn -------------------------------
(* C19 - directed histories for the mechanism CrsCache!TransformerMatchesRequest rests on.
   The evicting what-if model (MC_CrsCache_evict) shows HOW a bounded cache would hand out a stale
   transformer: cache a transformer for (X, Y), lose the last reference to X's pyproj object, let a new
   object of another class be allocated at its address, ask for (new, Y).  A scenario does exactly
   that on the real code, with `n` constructions of distinct specifications in between (cache
   pressure); on the real unbounded cache every transformer must still be right.                    *)
EXTENDS Integers, Sequences, FiniteSets, TLC, CaseIO, SequencesExt
CONSTANTS Classes, Ns
Routes == <<"int", "wkt", "jsonstr", "obj_wkt", "dict", "obj_epsg", "epsgstr", "obj_dict">>
ClassSeq == SetToSeq(Classes)
Step(op, r, src, cls, route) == [op |-> op, r |-> r, src |-> src, cls |-> cls, route |-> route, form |-> "", same |-> {}]
\* i-th churn specification: cycles through classes other than `a` and all routes
ChurnCls(a, i) == LET others == SelectSeq(ClassSeq, LAMBDA c : c # a) IN others[((i - 1) % Len(others)) + 1]
ChurnRoute(i) == Routes[(((i - 1) \div (Cardinality(Classes) - 1)) % Len(Routes)) + 1]
RECURSIVE Churn(_, _, _)
Churn(a, i, n) == IF i > n THEN <<>>
                  ELSE <<Step("make", 3, 0, ChurnCls(a, i), ChurnRoute(i)), Step("transform", 3, 2, ChurnCls(a, i), "?"),
                         Step("drop", 3, 0, "", "")>> \o Churn(a, i + 1, n)
Scenario(a, b, rt, n) ==
  <<Step("make", 1, 0, a, rt), Step("make", 2, 0, b, "int"), Step("transform", 1, 2, a, b), Step("drop", 1, 0, "", "")>>
  \o Churn(a, 1, n)
VARIABLE c
Init == c \in {[op |-> "chunk", a |-> a, b |-> b] : a \in Classes, b \in Classes}
Next == c.op = "chunk" /\ \E rt \in {"wkt", "obj_epsg", "dict"}, n \in Ns :
           c' = [hist |-> Scenario(c.a, c.b, rt, n), whatif |-> TRUE, op |-> "scenario"] /\ Emit(c')
Spec == Init /\ [][Next]_c
\* well-formedness of the generated histories: a reference is dropped only when held, made only when free
WellFormed == c.op = "scenario" =>
   \A k \in DOMAIN c.hist : c.hist[k].op = "transform" => c.hist[k].src = 2
=============================================================================
