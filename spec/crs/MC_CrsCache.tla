----------------------------- MODULE MC_CrsCache -----------------------------
EXTENDS CrsCache, CaseIO
CONSTANT WhatIf
\* WhatIf: emit the histories that WOULD hand out a stale transformer if the cache evicted (Evict = TRUE);
\* replayed on the real code (where nothing is evicted) they are the directed tests for that mechanism.
MCNext == /\ Next
          /\ IF WhatIf THEN (bad = "ok" /\ bad' = "WrongTransformer") => Emit([hist |-> hist', whatif |-> TRUE])
             ELSE (TrackHist /\ Len(hist') = Depth) => Emit([hist |-> hist', whatif |-> FALSE])
MCSpec == Init /\ [][MCNext]_vars
Bound == Len(hist) < Depth
=============================================================================
