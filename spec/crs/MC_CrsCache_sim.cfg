SPECIFICATION MCSpec
CONSTANTS
  Classes = {"c4326", "c3857"}
  Addrs = {1, 2, 3, 4, 5, 6}
  NRefs = 3
  Evict = FALSE
  TrackHist = TRUE
  TrackStr = FALSE
  AllRoutes = TRUE
  WhatIf = FALSE
  Depth = 8
INVARIANT TransformerMatchesRequest
INVARIANT CacheKeepsAlive
INVARIANT RefsAlive
CONSTRAINT Bound
