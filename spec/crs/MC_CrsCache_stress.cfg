SPECIFICATION MCSpec
CONSTANTS
  Classes = {"c4326", "c3857", "c3577", "c32601", "c32602", "c32603", "c32604", "c32605", "c32606", "c32607", "c32608", "c32609", "c32610"}
  Addrs = {1, 2, 3, 4, 5, 6, 7, 8, 9, 10, 11, 12, 13, 14, 15, 16, 17, 18, 19, 20, 21, 22, 23, 24, 25, 26, 27, 28, 29, 30, 31, 32, 33, 34, 35, 36, 37, 38, 39, 40, 41, 42, 43, 44, 45, 46, 47, 48, 49, 50, 51, 52}
  NRefs = 3
  Evict = FALSE
  TrackHist = TRUE
  TrackStr = FALSE
  AllRoutes = TRUE
  WhatIf = FALSE
  Depth = 18
INVARIANT TransformerMatchesRequest
INVARIANT CacheKeepsAlive
INVARIANT RefsAlive
CONSTRAINT Bound
