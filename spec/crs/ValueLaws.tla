------------------------------ MODULE ValueLaws ------------------------------
(* C19 (value part) - equality / hash / token / pickle laws over families of near-identical values.

   A value is described by a record of fields (a descriptor); a family is a set of descriptors of
   one type: a base value, every one-field perturbation, alternative constructions of the same value.
   The model's notion of equality is field-wise, with CRS fields compared by CRS class (a CRS tag is
   <<class, spelling>>; <<"none", "">> is the absent CRS).  The harness builds the real objects and
   records, per ordered pair, ==, hash equality, token equality, and per object reflexivity, pickle and
   copy behaviour; TLC evaluates the laws on those observations.                                     *)
EXTENDS Integers, Sequences, FiniteSets, TLC

CrsFields == {"crs"}
\* rsign (grid specifications): the sign pattern of the resolution.  As the code stands GridSpec equality looks at tile shape, bin sizes (tile size times
\* the ABSOLUTE pixel size), origin, flips and CRS - not at the sign of the resolution (a named deviation of the model from "field-wise": two grids
\* whose tiles have other orientations compare equal).  No law of the property is broken by that alone; an equal pair must still hash equal.
FieldEq(f, a, b) == IF f \in CrsFields THEN a[1] = b[1] ELSE IF f = "rsign" THEN TRUE ELSE a = b
ExpectedEq(d1, d2) == /\ DOMAIN d1 = DOMAIN d2
                      /\ \A f \in DOMAIN d1 : FieldEq(f, d1[f], d2[f])

NoCrs == <<"none", "">>
CrsA == <<"A", "epsg">>  CrsA2 == <<"A", "wkt">>  CrsA3 == <<"A", "int">>  CrsB == <<"B", "epsg">>
CrsTags == {NoCrs, CrsA, CrsA2, CrsB}

Families ==
  [ crs |-> {[t |-> "crs", crs |-> <<c, sp>>] : c \in {"A", "B", "C"}, sp \in {"int", "epsg", "epsgup", "wkt", "dict", "pyproj", "crsobj", "pickle"}},
    \* D, E, F: three different systems WITHOUT an EPSG code (two equal-area azimuthal projections with other centres, one sinusoidal), five spellings each
    crscustom |-> {[t |-> "crs", crs |-> <<c, sp>>] : c \in {"D", "E", "F"}, sp \in {"proj", "pyproj", "wkt", "crsobj", "pickle"}}
                  \cup {[t |-> "crs", crs |-> <<"A", sp>>] : sp \in {"epsg", "wkt"}},
    \* nudge = index of the coordinate moved by 1e-7 (0: none)
    bbox |-> {[t |-> "bbox", box |-> b, crs |-> c, nudge |-> 0] : b \in {<<0, 0, 4, 4>>, <<1, 0, 4, 4>>, <<0, 1, 4, 4>>, <<0, 0, 5, 4>>, <<0, 0, 4, 5>>}, c \in CrsTags}
            \cup {[t |-> "bbox", box |-> <<0, 0, 4, 4>>, crs |-> c, nudge |-> n] : n \in {1, 4}, c \in {CrsA, CrsA2}},
    geobox |-> {[t |-> "geobox", shape |-> s, aff |-> a, crs |-> c] :
                  s \in {<<3, 4>>, <<4, 3>>, <<3, 5>>}, a \in {"northup", "shifted", "scaled", "rotated", "flipped"}, c \in {NoCrs, CrsA, CrsA2, CrsB}}
              \* the finest one-field perturbations: each affine coefficient changed by less than a hundredth (of a metre / of a pixel),
              \* and two fine lon/lat grids whose coefficients agree to 4 decimals
              \cup {[t |-> "geobox", shape |-> <<3, 4>>, aff |-> a, crs |-> c] :
                  a \in {"tiny_a", "tiny_b", "tiny_c", "tiny_d", "tiny_e", "tiny_f", "deg_fine", "deg_fine2", "deg_fine_shift",
                        \* a chain of origins 6e-6 apart (below any "almost equal" threshold taken pairwise, above it end to end)
                        "eps_c1", "eps_c2", "eps_c3"}, c \in {CrsA, CrsA2}},
    geom |-> {[t |-> "geom", kind |-> k, v |-> v, crs |-> c] :
                k \in {"point", "line", "polygon", "polyhole", "multipoint", "multipolygon", "collection"}, v \in {0, 1}, c \in {NoCrs, CrsA, CrsA2, CrsB}},
    tiles |-> {[t |-> "tiles", base |-> b, tile |-> s] : b \in {<<10, 10>>, <<11, 10>>, <<10, 11>>, <<12, 12>>, <<8, 8>>}, s \in {<<4, 4>>, <<4, 5>>, <<5, 4>>, <<12, 12>>}},
    vtiles |-> {[t |-> "vtiles", cy |-> cy, cx |-> cx] : cy \in {<<4, 4, 2>>, <<4, 4, 3>>, <<4, 6>>, <<10>>, <<2, 4, 4>>}, cx \in {<<5, 5>>, <<5, 6>>, <<10>>}},
    \* chunk tuples whose concatenation (rows then columns) is one sequence cut at different places; zero-sized chunks (legal in dask arrays) at the cut:
    \* a token / hash / pickle built from a FLATTENED form cannot tell them apart
    vtiles2 |-> {[t |-> "vtiles", cy |-> cy, cx |-> cx] : cy \in {<<1, 2>>, <<1>>, <<1, 2, 3>>, <<3>>, <<6>>, <<6, 0>>}, cx \in {<<3>>, <<2, 3>>, <<1, 2, 3>>, <<0, 6>>, <<6>>}},
    gbvtiles |-> {[t |-> "gbvtiles", aff |-> a, crs |-> CrsA, cy |-> cy, cx |-> cx] :
                   a \in {"northup", "shifted"}, cy \in {<<6>>, <<2, 4>>, <<4, 2>>, <<6, 0>>, <<0, 6>>}, cx \in {<<6>>, <<0, 6>>, <<6, 0>>, <<3, 3>>}},
    gbtiles |-> {[t |-> "gbtiles", shape |-> s, aff |-> a, crs |-> c, tile |-> ts] :
                  s \in {<<8, 8>>, <<9, 8>>}, a \in {"northup", "shifted", "tiny_c", "tiny_e"}, c \in {CrsA, CrsA2, CrsB}, ts \in {<<4, 4>>, <<4, 3>>}},
    xy |-> {[t |-> k, x |-> x, y |-> y] : k \in {"xy"}, x \in {0, 1, 2}, y \in {0, 1, 2}},
    ixy |-> {[t |-> k, x |-> x, y |-> y] : k \in {"index2d"}, x \in {0, 1, 2}, y \in {0, 1, 2}},
    shape2d |-> {[t |-> k, x |-> x, y |-> y] : k \in {"shape2d"}, x \in {1, 2, 3}, y \in {1, 2, 3}},
    res |-> {[t |-> k, x |-> x, y |-> y] : k \in {"resolution"}, x \in {1, 2, -1}, y \in {1, -1, -2}},
    gridspec |-> {[t |-> "gridspec", crs |-> c, tile |-> ts, res |-> r, origin |-> o, flip |-> f, rsign |-> "default"] :
                   c \in {CrsA, CrsA2, CrsB}, ts \in {<<2, 2>>, <<2, 3>>}, r \in {1, 2}, o \in {<<0, 0>>, <<1, 0>>}, f \in {<<FALSE, FALSE>>, <<TRUE, FALSE>>}}
                 \cup {[t |-> "gridspec", crs |-> CrsA, tile |-> <<2, 3>>, res |-> r, origin |-> <<0, 0>>, flip |-> <<FALSE, FALSE>>, rsign |-> sg] :
                   r \in {1, 2}, sg \in {"x+y+", "x-y-", "x-y+"}},
    gcp |-> {[t |-> "gcp", shape |-> s, pts |-> p, aff |-> a, crs |-> c] :
               s \in {<<4, 4>>, <<4, 5>>}, p \in {"m1", "m2"}, a \in {"id", "shift"}, c \in {CrsA, CrsB}} ]

FamilyNames == DOMAIN Families
\* design-level check: the model's equality is an equivalence relation on every family
ModelEqIsEquivalence(F) ==
  /\ \A a \in F : ExpectedEq(a, a)
  /\ \A a, b \in F : ExpectedEq(a, b) => ExpectedEq(b, a)
  /\ \A a, b, c \in F : (ExpectedEq(a, b) /\ ExpectedEq(b, c)) => ExpectedEq(a, c)
=============================================================================
