SPECIFICATION Spec
INVARIANT ModelOK
