SPECIFICATION MCSpec
CONSTANTS
  Classes = {"c4326", "c3857"}
  Addrs = {1, 2, 3}
  NRefs = 2
  Evict = TRUE
  TrackHist = FALSE
  TrackStr = FALSE
  AllRoutes = FALSE
  WhatIf = FALSE
  Depth = 0
INVARIANT TransformerMatchesRequest
