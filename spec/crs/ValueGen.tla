------------------------------- MODULE ValueGen -------------------------------
EXTENDS ValueLaws, CaseIO, SequencesExt
VARIABLE c
Init == c \in {[op |-> "chunk", fam |-> f] : f \in FamilyNames}
Next == c.op = "chunk" /\ c' = [op |-> "family", fam |-> c.fam, objs |-> SetToSeq(Families[c.fam])] /\ Emit(c')
Spec == Init /\ [][Next]_c
ModelOK == c.op = "chunk" => ModelEqIsEquivalence(Families[c.fam])
=============================================================================
