-------------------------------- MODULE XrGeoOps --------------------------------
(* C09 - geo-registration carried by xarray objects (odc/geo/_xr_interop.py).

   History model at the level of the mechanism: an array wrapped with the original GeoBox (integer affine A0, shape)
   is positionally sliced along y / x any number of times and passed through value-only operations (arithmetic,
   astype, pickle); what survives is, per spatial axis, the selection  index_k = start + k * step,  k < n  into the
   ORIGINAL axis.  The registration is carried by axis labels (axis-aligned boxes), by pixel-space labels plus the
   encoded transform (rotated / sheared boxes) or by pixel-space labels plus GCPs.
   Contract: the GeoBox recovered through .odc maps the centre of every remaining pixel to the world location that
   pixel had in the original (and, for unit steps, its whole footprint), and agrees with the coordinate labels.   *)
EXTENDS PySlice, TLC

\* selection on one axis
Sel0(n) == [start |-> 0, step |-> 1, n |-> n]
\* positional slice s (PySlice record) applied to a selection
ISel(sel, s) == LET ix == Indices(s, sel.n) IN
  IF ix = <<>> THEN [start |-> sel.start, step |-> sel.step, n |-> 0]
  ELSE [start |-> sel.start + ix[1] * sel.step, step |-> sel.step * StepOf(s), n |-> Len(ix)]
\* named slices relative to the current length
NamedSlice(name, n) == CASE name = "head" -> Sl(<<0>>, <<n - 1>>, <<>>) [] name = "tail" -> Sl(<<1>>, <<>>, <<>>) [] name = "mid" -> Sl(<<1>>, <<-1>>, <<>>)
                         [] name = "stride2" -> Sl(<<>>, <<>>, <<2>>) [] name = "rev" -> Sl(<<>>, <<>>, <<-1>>) [] name = "revstride" -> Sl(<<>>, <<>>, <<-2>>)
                         [] name = "one" -> Sl(<<n \div 2>>, <<n \div 2 + 1>>, <<>>) [] name = "last" -> Sl(<<-1>>, <<>>, <<>>) [] name = "neg3" -> Sl(<<-3>>, <<-1>>, <<>>)
SliceNames == {"head", "tail", "mid", "stride2", "rev", "revstride", "one", "last", "neg3"}

(* ---- expected location of pixels of the derived array, times 2 (half pixels), in the ORIGINAL pixel plane ---- *)
\* centre of derived pixel k along an axis: original index start + k*step, centre at +1/2
Centre2(sel, k) == 2 * (sel.start + k * sel.step) + 1
\* world position (numerators over 2) of original pixel-plane point (x2/2, y2/2) under the integer affine A
World2(A, x2, y2) == <<A[1] * x2 + A[2] * y2 + 2 * A[3], A[4] * x2 + A[5] * y2 + 2 * A[6]>>
\* corners (times 2) of the original pixel that derived pixel (kx, ky) shows
PixCorners2(sx, sy, kx, ky) == LET x == 2 * (sx.start + kx * sx.step) y == 2 * (sy.start + ky * sy.step) IN {<<x, y>>, <<x + 2, y>>, <<x + 2, y + 2>>, <<x, y + 2>>}

=============================================================================
