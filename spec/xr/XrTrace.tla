--------------------------------- MODULE XrTrace ---------------------------------
(* C09 - verdicts on what the .odc accessor recovers after a TLC history was replayed with real xarray. *)
EXTENDS XrGeoOps, TraceIO
OnlyValueOps(h) == \A i \in DOMAIN h : h[i][1] \notin {"isel_y", "isel_x"}
HistV(e) ==
  LET c == e.c A == c.base.A IN
  IF e.outcome # "ok" THEN "raised_" \o e.outcome
  ELSE IF ~e.has_geobox THEN "geobox_not_recovered"
  ELSE IF ~e.crs_ok THEN "recovered_crs_is_not_the_original"
  ELSE IF e.shape # <<c.sy.n, c.sx.n>> THEN "recovered_shape_is_not_the_array_shape"
  ELSE IF OnlyValueOps(c.hist) /\ ~e.roundtrip_eq THEN "round_trip_geobox_not_equal"
  ELSE IF \E i \in DOMAIN e.centres : e.centres[i].w # World2(A, Centre2(c.sx, e.centres[i].k[1]), Centre2(c.sy, e.centres[i].k[2])) THEN "pixel_centre_moved"
  ELSE IF Abs(c.sx.step) = 1 /\ Abs(c.sy.step) = 1 /\ \E i \in DOMAIN e.corners :
            {e.corners[i].pts[j] : j \in DOMAIN e.corners[i].pts} # {World2(A, p[1], p[2]) : p \in PixCorners2(c.sx, c.sy, e.corners[i].k[1], e.corners[i].k[2])} THEN "pixel_footprint_changed"
  ELSE IF e.labels # <<>> /\ (\/ e.labels[1] # World2(A, Centre2(c.sx, 0), 0)[1] \/ e.labels[2] # World2(A, Centre2(c.sx, c.sx.n - 1), 0)[1]
                              \/ e.labels[3] # World2(A, 0, Centre2(c.sy, 0))[2] \/ e.labels[4] # World2(A, 0, Centre2(c.sy, c.sy.n - 1))[2]) THEN "coordinate_labels_disagree_with_original_locations"
  ELSE "ok"
\* reprojection outputs: booleans decided by the harness from the real objects (recovered geobox == requested, CRS included; no stale attributes)
ReprV(e) == IF e.outcome # "ok" THEN "raised_" \o e.outcome
            ELSE IF ~e.geobox_eq THEN "recovered_geobox_is_not_the_requested_destination"
            ELSE IF ~e.crs_eq THEN "recovered_crs_is_not_the_destination_crs"
            ELSE IF ~e.no_stale THEN "stale_spatial_attributes_kept"
            ELSE IF ~e.vars_ok THEN "dataset_variable_not_reprojected_consistently"
            ELSE "ok"
Verdict(e) == LET v == IF e.kind = "hist" THEN HistV(e) ELSE ReprV(e) IN IF v = "ok" THEN "ok" ELSE "reject:" \o v
VARIABLE l
TInit == l = 1
TNext == l <= NEvents /\ PrintT(<<"V", l, Verdict(Events[l])>>) /\ l' = l + 1
TSpec == TInit /\ [][TNext]_l
=============================================================================
