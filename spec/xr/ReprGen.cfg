SPECIFICATION Spec
