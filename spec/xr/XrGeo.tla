--------------------------------- MODULE XrGeo ---------------------------------
(* C09 - the history state machine over XrGeoOps (see there). *)
EXTENDS XrGeoOps

(* ---- the state machine ---- *)
CONSTANTS MaxOps
VARIABLES sx, sy, nops, hist, shape0
vars == <<sx, sy, nops, hist, shape0>>
Shapes == {<<1, 4>>, <<3, 1>>, <<4, 5>>, <<2, 2>>}
Init == \E s \in Shapes : sy = Sel0(s[1]) /\ sx = Sel0(s[2]) /\ nops = 0 /\ hist = <<>> /\ shape0 = s
SliceY(name) == /\ ISel(sy, NamedSlice(name, sy.n)).n >= 1 /\ sy' = ISel(sy, NamedSlice(name, sy.n)) /\ UNCHANGED sx /\ hist' = Append(hist, <<"isel_y", name>>)
SliceX(name) == /\ ISel(sx, NamedSlice(name, sx.n)).n >= 1 /\ sx' = ISel(sx, NamedSlice(name, sx.n)) /\ UNCHANGED sy /\ hist' = Append(hist, <<"isel_x", name>>)
ValueOp(name) == UNCHANGED <<sx, sy>> /\ hist' = Append(hist, <<name, "">>)
Next == /\ nops < MaxOps /\ nops' = nops + 1 /\ UNCHANGED shape0
        /\ \/ \E nm \in SliceNames : SliceY(nm) \/ SliceX(nm)
           \/ \E v \in {"wrap", "arith", "astype", "pickle"} : ValueOp(v)
Spec == Init /\ [][Next]_vars
\* invariants of the selection algebra: the selection always denotes indices inside the original axis, in order
InRange == /\ sx.n >= 1 /\ sy.n >= 1 /\ sx.step # 0 /\ sy.step # 0
           /\ \A k \in {0, sx.n - 1} : 0 <= sx.start + k * sx.step
           /\ \A k \in {0, sy.n - 1} : 0 <= sy.start + k * sy.step
=============================================================================
