-------------------------------- MODULE MC_XrGeo --------------------------------
(* C09 - bounded exploration of slicing / value-operation histories; every reached history is emitted together with the
   variant (base grid, what carries the registration, container, backend, dimension order) it is to be replayed with. *)
EXTENDS XrGeo, CaseIO
Bases == << [name |-> "northup", A |-> <<10, 0, 100, 0, -10, 200>>, carrier |-> "labels"], [name |-> "mirrored", A |-> <<-10, 0, 100, 0, 20, 200>>, carrier |-> "labels"],
            [name |-> "nonsquare_geo", A |-> <<2, 0, 10, 0, -1, 50>>, carrier |-> "labels"],
            [name |-> "rot90", A |-> <<0, 10, 100, 10, 0, 200>>, carrier |-> "transform"], [name |-> "pythag", A |-> <<6, -8, 100, 8, 6, 200>>, carrier |-> "transform"],
            [name |-> "sheared", A |-> <<10, 5, 100, 0, -10, 200>>, carrier |-> "transform"], [name |-> "gcp_affine", A |-> <<6, -8, 100, 8, 6, 200>>, carrier |-> "gcp"],
            \* the same registration written the other ways the recovery understands: CF (crs_wkt on the CRS coordinate), CRS in the array's attributes
            \* and no CRS coordinate at all, two CRS coordinates naming the same CRS
            [name |-> "northup_cf", A |-> <<10, 0, 100, 0, -10, 200>>, carrier |-> "labels"], [name |-> "mirrored_attrs", A |-> <<-10, 0, 100, 0, 20, 200>>, carrier |-> "labels"],
            [name |-> "northup_two_crs_coords", A |-> <<10, 0, 100, 0, -10, 200>>, carrier |-> "labels"],
            \* the same registration carried by a GCP box that is itself a view (cropped / zoomed: non-identity pixel affine) of its control points
            [name |-> "gcp_view_cropped", A |-> <<6, -8, 100, 8, 6, 200>>, carrier |-> "gcp"], [name |-> "gcp_view_zoomed", A |-> <<6, -8, 100, 8, 6, 200>>, carrier |-> "gcp"],
            \* control points at pixel centres / quarter positions (not on integer pixel corners)
            [name |-> "gcp_subpixel", A |-> <<6, -8, 100, 8, 6, 200>>, carrier |-> "gcp"] >>
Containers == << [container |-> "DataArray", backend |-> "numpy", dims |-> "yx"], [container |-> "DataArray", backend |-> "dask", dims |-> "tyx"],
                 [container |-> "Dataset", backend |-> "numpy", dims |-> "yx"], [container |-> "DataArray", backend |-> "numpy", dims |-> "yxb"],
                 [container |-> "Dataset", backend |-> "dask", dims |-> "tyx"],
                 \* a single time step (a non-spatial dimension of length 1)
                 [container |-> "DataArray", backend |-> "numpy", dims |-> "t1yx"] >>
Code(h) == IF h = <<>> THEN 0 ELSE LET e == h[Len(h)] IN Len(h) * 7 + (IF e[1] = "isel_y" THEN 1 ELSE IF e[1] = "isel_x" THEN 2 ELSE 3) + (CHOOSE k \in 1..9 : \/ e[2] = "" \/ e[2] = <<"head", "tail", "mid", "stride2", "rev", "revstride", "one", "last", "neg3">>[k])
MCNext == /\ Next
          /\ \A b \in DOMAIN Bases : Emit([shape |-> shape0, hist |-> hist', sx |-> sx', sy |-> sy', base |-> Bases[b],
                                            cont |-> Containers[((Code(hist') + b + sx'.start + sy'.n) % Len(Containers)) + 1]])
MCSpec == Init /\ [][MCNext]_vars
\* also the plain wrap (no operation): emitted from the initial states through a no-op history
=============================================================================
