SPECIFICATION MCSpec
CONSTANT MaxOps = 2
INVARIANT InRange
