SPECIFICATION MCSpec
CONSTANT MaxOps = 3
INVARIANT InRange
