-------------------------------- MODULE ReprGen --------------------------------
(* C09 - reprojection cases: what the source object looks like (CRS route, container, backend, rotation, NAME of its CRS
   coordinate), how the destination is given, and what happens to the result before its GeoBox is recovered
   (arithmetic / astype drop xarray's encoding, so recovery falls back from encoding["grid_mapping"] to the coordinates
   themselves: a stale source CRS coordinate left on the result would then win).                                     *)
EXTENDS CaseIO, TLC
Srcs == {"4326", "3857", "32633"}
Dsts == {"4326", "3857", "32633", "3035"}
CoordNames == {"spatial_ref", "crs", "albers_conical_equal_area"}
Posts == {"none", "arith", "astype"}
Cases(s) == {x \in {[src |-> s, dst |-> d, container |-> k, backend |-> b, how |-> h, rot |-> r, coord |-> n, post |-> p] :
               d \in Dsts, k \in {"DataArray", "Dataset"}, b \in {"numpy", "dask"}, h \in {"geobox", "crs", "crs+resolution", "crs+tight_anchor"}, r \in BOOLEAN, n \in CoordNames, p \in Posts} :
               ~(x.rot /\ x.backend = "dask" /\ x.how # "geobox")}
VARIABLE c
Init == c \in {[k |-> s] : s \in Srcs}
Next == "k" \in DOMAIN c /\ c' \in Cases(c.k) /\ Emit(c')
Spec == Init /\ [][Next]_c
=============================================================================
