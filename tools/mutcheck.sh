#!/bin/sh
# usage: tools/mutcheck.sh <patch.diff> <ID> [<ID> ...]
# Applies a patch to a private scratch worktree of /repo (never to /repo itself), runs the quick checks against it
# (PYTHONPATH makes the checks import odc.geo from the worktree), reverts the worktree.
WT=${VH_WT:-/tmp/wt/mine}
[ -d "$WT" ] || git -C /repo worktree add -q "$WT" HEAD
git -C "$WT" checkout -q -- . && git -C "$WT" reset -q --hard $(git -C /repo rev-parse HEAD)
P=$(realpath "$1"); shift
git -C "$WT" apply "$P" || { echo "patch does not apply"; exit 2; }
cd ${VH_VERIF:-/verif}
for id in "$@"; do VH_OUT=${VH_OUT:-/tmp/vh_out} PYTHONPATH="$WT" ./check "$id" 2>&1 | grep -v "^KNOWN" | cut -c1-220 | tail -6; done
git -C "$WT" checkout -q -- .
