#!/bin/sh
# Offline setup: nothing to build. Verify the tools the checks need are present.
set -e
cd /verif
command -v java >/dev/null
test -f /opt/veriftools/tla/tla2tools.jar
/venv/bin/python -c "import odc.geo, numpy, sys; sys.path.insert(0, 'harness'); import vh.core"
echo "setup ok"
