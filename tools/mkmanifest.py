#!/usr/bin/env python3
"""Regenerate /verif/MANIFEST.json from the table below (kept valid at all times)."""
import json, os
HERE = os.path.dirname(os.path.dirname(os.path.abspath(__file__)))
props = [json.loads(l) for l in open(os.path.join(HERE, "properties.jsonl"))]

TB = ("TLC 1.8 and the TLA+ semantics; the exactness of the lattice family (values exactly representable as doubles); "
      "the harness encoders in harness/vh/drivers; ")

CHECKS = {
 "C17": dict(
   technique="TLA+ model (RoiOps/PySlice) checked by TLC over the whole case domain + TLC trace validation of the real functions on TLC-emitted cases",
   text="TLC proves the transcription of every ROI helper meets a first-principles contract on Python index sets for every case of a "
        "bounded domain (all slices with None/negative/positive offsets up to K, ints, all pairs, pads, scales, 1-3 axes, point sets with "
        "NaN/inf/huge outliers), emits those cases, the real odc.geo.roi functions are executed on them and TLC judges the recorded outputs "
        "with the same contract (reject) and compares them with the transcription (drift). Bounded-exhaustive, which is where off-by-one, "
        "sign and clamping errors live.",
   ref="5/C17", note=TB + "numpy slicing semantics as specified in spec/lib/PySlice.tla"),
 "C06": dict(
   technique="TLA+ protocol model of _mpu.py (MPUOps/MPU) model-checked by TLC over all append/merge/finalise interleavings; TLC behaviours replayed on real MPUChunk ops and real mpu_write graphs run under TLC-chosen task orders; traces validated by TLC (MPUProp)",
   text="TLC explores every interleaving of appends, adjacent merges (any bracketing - a superset of all dask fold/collate shapes and execution orders) and finalise "
        "for a bounded configuration space (partition shapes up to 5 partitions, chunk sizes 0..3.3x the minimum part, spill, writes-per-chunk, header/footer, min_part) and checks the "
        "property invariants in every state; one complete behaviour per distinct terminal state is replayed on the real MPUChunk objects through the module's own dask ops, and the real "
        "mpu_write(...) graph is executed under schedules TLC draws from the exported task graph (TaskGraph.tla) plus a thread pool. TLC then judges the recorded writer calls with the "
        "property-level spec MPUProp (reject) and compares per-step states and writer calls with the model (drift). The as-found code is refuted by three dedicated configurations.",
   ref="5/C06", note=TB + "a recording PartsWriter stands for the storage; dask graph semantics = run each task once after its dependencies"),
 "C18": dict(
   technique="TLA+ interleaving model of the lazy S3 initiation (S3Init) model-checked by TLC incl. liveness; TLC schedules replayed on real threads by a baton scheduler through seams; file sink / limits model (Sink) + trace validation",
   text="S3Init has one label per shared read/write, lock operation and client call of _ensure_init / initiate / write_part / finalise, for the in-process path and the "
        "distributed Variable+Lock path (separate copies, or two threads sharing a copy). TLC checks exactly-once initiation, one upload id for all parts, no failing writer, "
        "lock freedom and termination under weak fairness over all interleavings of 2 writers + finaliser and the whole state space for 3 writers. Every maximal 2-writer schedule of the local path, "
        "and seeded samples of the distributed and 3-writer schedules, are replayed on the REAL DelayedS3Writer/MultiPartUpload with real threads that only run between seams; TLC "
        "validates the recorded client calls and outcomes (reject) and that the threads performed exactly the model's operation sequence (drift). The as-found code (no re-check under the lock) is refuted. "
        "The sequential sink/limits clauses are model-checked over all part orders/sizes/keyword subsets and validated on the real MPUFileSink in a scratch directory. "
        "The model includes the process-local lock table (_mpu_local_lock: get, atomic setdefault; first use vs lock already stored; invariant OneLocalLock). In the other direction (S3Real) a seeded "
        "explorer lets the REAL threads choose the interleaving (uniform / sticky / switchy, 6 configurations) and TLC steps S3Init along each recorded schedule: every operation kind and blocking guard "
        "must be the model's, the final service state must match; the property predicates are evaluated on the observed client calls. Beyond the listed clauses, UploadLife models the life cycle "
        "of one MultiPartUpload object (initiate / write_part / finalise / cancel own, other, all / list_active, foreign and sibling-key uploads in the service) with its design invariants; every "
        "5-call behaviour is replayed on the real class against a stateful service stand-in (conformance only: differences are drift, never a violation).",
   ref="5/C18", note=TB + "fake boto3 client; the exhaustive interleavings use stand-ins for distributed.Variable/Lock with their documented semantics, a real in-process cluster runs the same protocol under its own scheduling; seams are placed on a harness subclass of MultiPartUpload, a traced stand-in for the module's _state dict and the Lock factory, not in the repository"),
 "C19": dict(
   technique="TLA+ history model of the CRS / transformer caches (CrsCache) model-checked by TLC; TLC-generated histories replayed in fresh interpreters and validated by TLC; equality/hash/token/pickle laws (ValueLaws) evaluated by TLC on observations of families of real objects",
   text="CrsCache models the construction cache (key rule, string form of the first creator), object lifetimes and the identity-keyed transformer cache; TLC checks on the whole bounded "
        "state space that a transformer always matches the requested pair and that cached objects stay alive, shows that a bounded cache WOULD break this (expected counterexample) and "
        "reproduces the known history dependence of the string form (expected counterexample). Simulated histories, long cache-pressure histories and directed churn scenarios derived from "
        "the eviction counterexample are replayed on the real odc.geo.crs in fresh interpreters; TLC judges every step (string/hash/token stability, equality of equivalent specs, transformer "
        "against a fresh pyproj one) and compares string forms and object sharing with the model. For 13 families of near-identical values of all listed types TLC checks reflexivity, "
        "symmetry, transitivity, eq=>hash, unequal=>different token, pickle/copy clauses on the observed matrices and compares == with the field-wise model.",
   ref="5/C19", note=TB + "pyproj's hash/eq of key objects is tabulated as an environment table; cache clearing stands for a fresh interpreter; transformer correctness judged on one probe point per class against pyproj"),
 "C04": dict(
   technique="TLA+ tiling / block-mosaic model (Tiling, Blocks) checked by TLC, regular 1-d tiling rule proved for unbounded sizes by an Apalache inductive invariant (TilingInd); complete answer tables of the real tiling objects and assembled windows validated by TLC against partition predicates and the mosaic model",
   text="TLC checks that the 1-d tiling model (regular: ceil-division with clamped last tile; variable: cumulative offsets; crop = chunk slicing) is an exact partition with inverse lookup "
        "for all small axes, chunk tuples and crops, and emits tilings x crops x parent grids; every answer of the real Tiles / VariableSizedTiles / GeoboxTiles (each tile region, negative "
        "indices, tile shapes, chunks, lookup of every pixel, every tile-index slice, crop()/clip() to depth 2, tile GeoBoxes) is logged and TLC evaluates disjointness, exact cover, "
        "shape/chunk agreement, lookup inverse, re-based crops and parent-crop equality on the logged tables. For block assembly TLC enumerates layouts x ALL subsets of present blocks x ALL windows "
        "(dtype / axis / fill variants) and compares the array returned by the real BlockAssembler with Extract of a mosaic of unique pixel ids.",
   ref="5/C04", note=TB + "empty rectangles (a zero dimension) are outside the statement and not generated; bool blocks carry id parity only"),
 "C16": dict(
   technique="TLA+ rectangle-algebra model (GridAlgebra) with set-theoretic laws checked by TLC over all pairs/triples; results of the real GeoBox / BoundingBox operations validated by TLC on the integer lattice",
   text="GeoBoxes on a common grid are pixel rectangles; TLC checks commutativity, associativity, minimal cover, intersection = pixel-set intersection and overlap-roi index semantics "
        "for the model over all pairs and triples of a window, and emits the cases. The real |, &, overlap_roi, union/intersection_conservative, snap_to and enclosing are run on six base grids "
        "(north-up, mirrored, flipped, 90 degrees, Pythagorean-rotated, non-square pixels) and TLC judges the logged (shape, affine) against first-principles pixel-set predicates; incompatible "
        "grids (sub-pixel offsets, pixel size, orientation, CRS) must be rejected with ValueError; snap perturbations straddle half a pixel; enclosing regions lie on the quarter-pixel lattice in the "
        "same and in an exact-translation CRS; BoundingBox lattice laws are evaluated on logged results for all triples of a window.",
   ref="5/C16", note=TB + "enclosing regions whose edges coincide with pixel edges are not generated (floating-point floor/ceil there is not constrained by the statement); exact tmerc CRS family for the cross-CRS part"),
 "C14": dict(
   technique="TLA+ model of 1-d binning / tile placement (GridSpec) checked by TLC; complete tile tables, point lookups, box/polygon queries, sample-tile reconstruction and web tiles of the real GridSpec validated by TLC (exact separating-axis overlap for polygons)",
   text="TLC checks that the binning model tiles the plane (disjoint interiors, shared edges, half-open point lookup, geobox footprint = bin rectangle) for every grid spec of the family and emits "
        "specs, queries and sample-tile cases. The real GridSpec is queried completely over an index window (both lookup routes), with dense point lookups, bounding-box queries at half-tile positions "
        "with quarter-unit jitter on both sides of tile edges, convex lattice polygons in the same and an exact-translation CRS, reconstruction from sample tiles and web tiles z<=5; TLC evaluates the "
        "partition / lookup / exact-query / reconstruction predicates on the logged footprints (integer quarter-unit lattice, exact) and compares tables with the model.",
   ref="5/C14", note=TB + "zero-area contacts between a polygon query and a tile are neither required nor forbidden; cross-CRS queries use the exact tmerc family"),
 "C20": dict(
   technique="TLA+ exact-rational transcriptions and contracts of the numeric helpers (MathHelpers) checked by TLC; real return values validated by TLC on exact lattices",
   text="Each helper has a transcription in exact rational arithmetic and a contract written from its documentation; TLC checks transcription => contract on the whole domain and emits "
        "the cases; the real functions are executed on the same exactly representable inputs (values on both sides of every tolerance, never on it) and TLC judges the logged results: "
        "split_float, maybe_int / is_almost_int agreement, snap_scale, align_* and pow2 variants, snap_grid (cover / minimal / aligned), snap_affine (exact snapping, idempotent, rotated untouched), "
        "decompose_rws (factors multiplied back exactly by TLC, proper rotation, unit shear, diagonal scale), resolution_from_affine, affine_from_pts, affine_from_axis, Bin1D and Poly2d "
        "fit / evaluation / input-transform composition against exact polynomial evaluation in TLA+.",
   ref="5/C20", note=TB + "floats off the lattices (1-ulp effects, values exactly at a tolerance) are outside the family; least-squares results are accepted within 1e-5 of the exact lattice value"),
 "C08": dict(
   technique="TLA+ exact-rational model of from_bbox on top of the snap_grid transcription (FromBBox) checked by TLC against the cover/minimal/aligned contract; real GeoBox.from_bbox / from_geopolygon / zoom_to results validated by TLC",
   text="TLC checks that the model of the resolution- and shape-driven branches (anchor normalisation, tight, per-axis snapping with negative resolutions) satisfies: exact pixel size and "
        "orientation, cover up to tol, less than 1+tol pixel excess per side, pixel edges offset from the origin by exactly the anchor fraction unless floating/tight; exact shape, pixel size = "
        "span/shape and sub-pixel displacement (none when snapping is off) - on ~1.4e5 (quick) cases, and emits them. The real constructors are run through five routes (BoundingBox, tuple+crs, polygon, "
        "polygon in an exact-translation CRS, zoom_to(resolution=)) including whole-pixel shifts of 2^20 pixels, and TLC judges the logged (shape, affine) with the same contract and compares with the model.",
   ref="5/C08", note=TB + "spans of millions of pixels are represented by the 2^20-pixel shift family only (TLC integers are 32 bit)"),
 "C02": dict(
   technique="TLA+ state machine of GeoBox view-changing operations in exact rational arithmetic (GeoBoxViews) model-checked by TLC; every transition replayed on a real GeoBox / GCPGeoBox and all views validated by TLC",
   text="The model gives every operation its documented meaning (A' = A o T on the pixel side or M o A on the world side, a shape rule, same CRS) in exact rationals; TLC explores all operation sequences "
        "to depth 2 (quick) / 3 (thorough) from 7 base grids x 4 shapes x CRS none/A, checks invertibility, positive shapes, coverers-cover and centre-fixed-under-rotation as action properties, and emits "
        "every transition. Each is executed on a real GeoBox built from the model state; TLC checks on the logged result the operation contract (shape, all six affine terms on the 1/1200 lattice, CRS) "
        "and the coherence of all views with that affine: pix2wld at the corners, wld2pix inverse, footprint = image of the pixel rectangle, bounding box, axis labels = pixel centres, resolution. The "
        "same transitions (supported operations) are run on GCPGeoBoxes whose control points are generated by the exact affine.",
   ref="5/C02", note=TB + "GCP boxes with control points that are not affinely related are not covered (fit accuracy); resolution of rotated boxes is covered in C20 (decompose_rws)"),
 "C03": dict(
   technique="TLA+ exact-rational model of reprojection planning (ReprojPlan) with a first-principles needed-pixel set, checked by TLC; real compute_reproject_roi / compute_axis_overlap outputs validated by TLC; cross-CRS plans validated against a pyproj-tabulated transform (CrossPlan)",
   text="The needed set is defined from first principles (destination pixel centres mapping inside the source image, exact rationals over 960); TLC checks that the transcribed exact-paste plan and the "
        "sampled-path source region contain it for every case of the domain (11 scales incl. fractional and mirrored, shifts with residues on both sides of the tolerance, rotations, placements from contained "
        "to disjoint, padding/align options) and emits the cases. The real planner runs on GeoBox pairs realising exactly those rational maps; TLC evaluates on the returned ReprojectInfo: regions in bounds "
        "(source up to the next multiple of read-shrink), every needed pixel in the destination region and its source location in the source region, separated rasters give empty regions, scale = min pixel-size "
        "ratio, read-shrink bound - and compares with the model (dyadic cases). compute_axis_overlap is also driven directly with arbitrary scale/translation. For 7 pairs of different CRSs TLC checks the plan "
        "against a table of destination-centre -> source position computed with a fresh pyproj transformer; a high-curvature family (polar LAEA <-> lon/lat over tens of degrees, 90x90 / 70x120 "
        "sources, shifted destinations, three padding/align settings) probes the boundary-sampling path: there the 5-points-per-side envelope misses arc extrema (known findings C03-K1 / C03-K2, "
        "identified by environment tags computed from fresh pyproj; untagged cases still alarm).",
   ref="5/C03", note=TB + "cross-CRS: PROJ is an environment table; separation margin is padding+1 (+align) pixels; known findings C03-K1/K2 (curved edges between boundary samples) and C03-K3/K4 (a pole of the lon/lat source inside the destination)"),
 "C10": dict(
   technique="TLA+ model of paste eligibility and of paste / nearest-neighbour images (ReprojPlan) checked by TLC; TLC performs the paste from the real plan and compares it with the GDAL nearest-neighbour image logged from rio_reproject",
   text="For every same-CRS pair of the C03 domain TLC checks on the real ReprojectInfo that paste-ability is reported only for scale+translation maps with an integer scale equal on both axes and a "
        "whole-pixel shift within the tolerance (never with padding/align, rotation, fractional scale), and that for read-shrink > 1 the source region is the destination region times the factor. Where paste is "
        "reported with shrink 1, the harness warps an image of unique ids with GDAL (nearest) in one of 8 dtypes incl. int8/bool, and TLC itself performs the paste from the logged plan (mirroring included) and "
        "requires pixel identity with the GDAL image, and checks GDAL against the first-principles nearest-neighbour model.",
   ref="5/C10", note=TB + "GDAL nearest-neighbour is the oracle named by the property; exact half-pixel ties are skipped (GDAL-defined)"),
 "C12": dict(
   technique="TLA+ model of tile footprints, exact separating-axis overlap and first-principles tile dependency need (TileQuery), linear-path transcription checked complete by TLC; real tiles()/range_from_bbox()/grid_intersect() results validated by TLC",
   text="Tile footprints are integer quadrilaterals; TLC decides overlap with lattice query polygons exactly (separating axes) and defines Needs(d, s) from pixel centres in exact rationals. TLC checks that the "
        "transcription of the linear dependency path (outward rounding, clamp, tile lookup) lists every needed source tile for all scale+translation pairs of the domain, and emits query and pair cases. The real "
        "GeoboxTiles is queried with geometries (same and exact-translation CRS), bounding boxes and range_from_bbox on 5 base grids x 4 tilings; the real grid_intersect is run on tiled pairs through the linear "
        "and the general (footprint) path, same CRS and cross CRS; TLC requires every intersecting tile returned, no strictly disjoint tile for geometry queries, every needed source tile listed, no error and "
        "no dependency at all for rasters that do not overlap.",
   ref="5/C12", note=TB + "zero-area contacts are free; shapely predicates are never used as an oracle; cross-CRS through the exact tmerc family"),
 "C13": dict(
   technique="TLA+ composition of tiling, dependency-graph and nearest-neighbour models (ChunkedWarp) checked by TLC; real dask graphs executed under TLC-chosen task orders (TaskGraph) and compared with the in-memory result by TLC",
   text="TLC proves on the bounded family that dependency lists containing every exactly needed source tile (in particular the transcribed linear path) make the assembled chunk-local warps equal "
        "the whole-array nearest-neighbour warp at every destination pixel, and conversely that dropping a needed tile leaves a hole (which ties C12 to C13). The real xr_reproject is run on numpy-backed and "
        "dask-backed arrays for same-CRS pairs (shifts, scales, mirroring, rotation, overlapping to disjoint) and across the exact-translation CRS, 3 chunkings incl. 1-pixel chunks, 7 dtype / nodata / time-axis "
        "configurations, under dask's default order, TLC-chosen orders of the exported task graph and a thread pool; TLC requires pixel identity, the fill rule on every uncovered pixel (uniform across chunks), no "
        "error for disjoint rasters, and compares the in-memory result with the first-principles nearest-neighbour model.",
   ref="5/C13", note=TB + "ties (centre on a source pixel boundary) are not generated; cross-CRS through the exact tmerc family; GDAL in-memory warp is the reference named by the property"),
 "C01": dict(
   technique="TLA+ CRS-class algebra and pool state machine (CrsAlgebra/CrsPool) model-checked by TLC; every combining operation (spec classification table joined with introspection of the code) executed over TLC-enumerated tag/kind tuples and chains, outcomes validated by TLC",
   text="The pool state machine feeds results of combining operations into further operations and TLC checks NoMixedLineage (and shows the counterexample for a hypothetical unchecked operation). "
        "TLC enumerates, for every operation of the classification table that exists in the code (plus any newly introspected one, under the generic rule), all ordered tag tuples over {none, geographic, "
        "geographic as WKT, projected, projected as WKT} x geometry kinds, n-ary operations, bounding-box and GeoBox operations, and depth-2 chains; the real operations are executed and TLC requires: "
        "differing classes (incl. exactly one none) => a ValueError and no result; equal classes (incl. another spelling) => the same outcome and value as shapely on the raw shapes, tagged with the operands' CRS.",
   ref="5/C01", note=TB + "shapely on the raw shapes is the oracle the property names; kind pairs shapely itself refuses are skipped in the mismatch clause"),
 "C07": dict(
   technique="TLA+ densification model and contract in exact integer arithmetic on lattice geometries (Densify) checked by TLC; real segmented()/to_crs() results validated by TLC (structure, retained/added vertices, edge lengths); real EPSG pairs against a pyproj oracle table",
   text="Geometries of all kinds are built from edges of integer length (axes, 3-4-5, 5-12-13) so every interpolated vertex is on the 1/65 lattice; TLC checks that the densification model meets "
        "the contract (original vertices retained in order, added vertices strictly on their edge in order, no edge longer than the resolution) for every path of every geometry x position x resolution, and emits the cases. "
        "The real Geometry.segmented and to_crs (exact-translation CRS family with and without densification, same CRS in another spelling => identical object, no CRS => ValueError) are executed and TLC "
        "evaluates the same contract plus unchanged type / ring and part structure on the logged coordinates, exactly. For 6 real EPSG pairs TLC decides the structure, vertex images and the there-and-back "
        "clause rest on a logged pyproj oracle.",
   ref="5/C07", note=TB + "pyproj is the oracle for real projections (the statement names the projection library); accuracy off the lattice is not covered"),
 "C09": dict(
   technique="TLA+ history model of xarray geo-registration (XrGeo: selection algebra over positional slicing + value operations) model-checked by TLC; every TLC history replayed with real xarray and the recovered GeoBox validated by TLC; reprojection outputs validated through logged object-level comparisons",
   text="The model reduces any history of positional slicing (head, tail, middle, strided, reversed, reversed-strided, to length 1, negative offsets), arithmetic, astype and pickling to a per-axis selection "
        "index_k = start + k*step into the original axis; TLC explores all histories to depth 2 (quick) / 3 (thorough) from shapes incl. single row / column and emits them with 7 base grids (axis labels, "
        "pixel labels + encoded transform for rotated / sheared grids, GCPs) and 5 container / backend / dimension-order variants. Each is replayed with real xarray; TLC checks on the GeoBox recovered through "
        ".odc: present, original CRS, array shape, equal to the original after value-only histories, the centre of every corner pixel at the world location the model prescribes, whole pixel footprints for unit "
        "steps, and agreement with the coordinate labels (exact, half-pixel lattice). Reprojection: 3x4 CRS pairs x DataArray/Dataset x numpy/dask x geobox/crs targets x rotated sources - recovered GeoBox = requested, CRS, no stale attributes.",
   ref="5/C09", note=TB + "reprojection clauses are booleans computed from the real objects (GeoBox comparison up to 1e-9 pixel, CRS ==, attribute inspection); non-affine GCPs not covered"),
 "C11": dict(
   technique="TLA+ decision model of compute_output_geobox options and contract relative to an environment table (OutputGeobox) checked by TLC; real compute_output_geobox / GeoBox.to_crs / .odc.output_geobox results validated by TLC against pyproj-tabulated corner positions",
   text="The decision model says which clause applies to an option set (identity short cut, source resolution for equal units, fitted square pixels, explicit resolution, shape / longest side, alignment by anchor, "
        "tight) and TLC checks its consistency and emits sources x targets x options. The real functions are run (three entry points) for metre- and degree-based tiles, a rotated tile, continental extents, "
        "southern-hemisphere and equator-straddling tiles into 9 targets incl. utm / utm-n / utm-s; the harness tabulates with a fresh pyproj transformer where every boundary pixel corner and an interior sample of "
        "the source falls in output pixel coordinates (1/1024 px) and TLC decides: axis-aligned in the requested CRS, every position inside the grid up to tol, pixel edges at the requested anchor fraction, source "
        "resolution for equal units, square fitted pixels, explicit resolution, requested shape with sub-pixel displacement, identity for the own CRS with default options, and the UTM hemisphere / zone rules.",
   ref="5/C11", note=TB + "PROJ is an environment table; UTM area of use comes from the pyproj database; the source's own CRS with non-default options is not constrained by the statement (skipped)"),
 "C05": dict(
   technique="TLA+ model of the COG layout rule and tile-table contract (CogLayout) checked by TLC; real save_cog_with_dask graphs executed under TLC-chosen task orders (TaskGraph) and the written files' tile tables validated by TLC; decode fidelity through GDAL/tifffile oracle booleans",
   text="TLC checks the transcribed layout rule (tile rounding to 16, overview count by halving, padding to 2^n, exact halving per level, bijective flat tile index) for all shapes up to 70^2 (quick) / 150^2 x 7 "
        "blocksize lists, and draws write configurations: image shapes incl. narrower than a tile and single row / column, YX / YXS / SYX, 1-4 samples, 7 dtypes, 4 compressions, nodata, source chunking, spill "
        "threshold and writes-per-chunk. The real writer runs to a file sink under dask's default order, TLC-chosen linear extensions of the exported task graph and a thread pool; the harness reads every IFD with "
        "tifffile and TLC decides on the logged tables: full resolution first then reduced-resolution pages, padding rule, exact halving, tile sizes multiples of 16, table sizes, every entry inside the data area, "
        "no overlap, no gap from the end of the header to EOF, all overview tile data before full-resolution data; decode fidelity (rasterio and tifffile pixels, overviews, transform, CRS, nodata) enters as booleans.",
   ref="5/C05", note=TB + "codec fidelity is an oracle (GDAL, tifffile), not modelled; compression='none' is not exercised: it never returns (tifffile loops on the empty placeholder tiles of an uncompressed image) - see DESIGN.md"),
 "C15": dict(
   technique="TLA+ decision model of the GDAL COG writer options and overwrite-guard state machine (RioCog) checked by TLC; real write_cog / to_cog / write_cog_layers outputs read back and validated by TLC, with read-back fidelity as GDAL oracle booleans",
   text="The overwrite guard is a two-state machine checked by TLC (an existing file is never touched by a write that did not request overwriting; the error is raised exactly then); the option table (band layout "
        "normalisation, default overview levels under / over 512 px, block size rule, externally supplied overviews) is enumerated by TLC. Every configuration is written for real (file and memory, three "
        "entry points, windowed writes, intermediate compression, rotated transforms, 7 dtype / layout / nodata variants, pre-existing destination x overwrite) and read back with rasterio and tifffile; TLC "
        "decides: guard outcome and content hash class, band count, internal tiling, block sizes multiples of 16, exactly the requested overview levels by their shapes; pixel / band order / dtype / transform / CRS / "
        "nodata equality enter as oracle booleans. This is the property where the model contributes least; it is claimed for its configuration logic and guard.",
   ref="5/C15", note=TB + "read-back fidelity rests on GDAL as the independent reader named by the property"),
}


# what the case domains gained after the seeded rounds / the mutation score (appended to the level text)
GROWTH = {
 "C01": " Round 5: collection operations with a single operand (overlapping parts, crossing lines); the same numeric code under two authorities (EPSG / ESRI 4812, IAU / EPSG 30165) in both construction orders.",
 "C08": " Round 5: self-crossing rings as regions given in another CRS. Round 6: regions whose extent in the target CRS has edges a few thousandths of a unit from whole numbers, on sub-unit pixels.",
 "C09": " Round 5: Dataset-level spatial attributes on reprojection; control points off the integer pixel corners. Round 6: a non-spatial dimension of length 1.",
 "C02": " Operation parameters take values on both sides of every default (zero / asymmetric pads, buffers in tenths of a pixel, zoom factors 1/2, 1, 2, 3), every crop spelling, crops by region "
        "(pixel / world geometry, bounding box, another GeoBox); an Observe action marks boxes whose views were READ before the operation (caches), and every operation runs under each call spelling "
        "(method / module-level function / defaulted argument).",
 "C03": " Added: rasters of thousands of pixels related by sub-tolerance rotations / shears (exact ring probing with a per-case denominator), near-tolerance residues between rasters tens of thousands "
        "of pixels apart, lon/lat sources reaching the poles under kilometre tiles of polar projections. Round 5: polar rasters CONTAINING the pole against lon/lat windows next to it, both directions (the reverse direction exposes known findings C03-K3 / K4). Round 6: shears in either off-diagonal term alone (shared with C10).",
 "C04": " Block assembly is also run after an extract-and-overwrite history (results must not alias the blocks or the caller's inputs). Round 5: blocks of tiles spelled with a negative start reaching beyond the first tile.",
 "C05": " Added: flat / thin images padded by whole tiles, irregular source chunking, destinations holding an earlier file, pixel patterns that decide the compressed tile sizes (constant / noise). Round 5: GDAL-style effort / tolerance options together with the compressions they belong to (LERC with a second codec). Round 6: float pixels at the far end of the type's range; the library's default for band statistics.",
 "C06": " Configurations now include three write credits with a three-chunk middle partition, several sub-minimum partitions in front of a writer and partitions without any chunk (leading, trailing, "
        "adjacent, all); the dask phase runs ~3000 configurations in parallel. Round 6: a write refused while the graph is built is an outcome of the write.",
 "C07": " Added: collections of one member type / of one member / nested, the dateline option on geometries away from the dateline combined with densification. Round 5: edges more than 10 000 times the densification step (measured per path, vertex count compared with the model); geographic-to-geographic reprojection with a step.",
 "C11": " Added: a shape together with a numeric resolution, output pixels hundreds of source pixels wide with tolerances stricter than the default on sources whose edge lies just past a coarse grid line. Round 5: tight mode must give the same grid whichever anchor is named; requests issued after the process has met 120 CRSs. Round 6: sources registered by control points and rescaled (their resolution measured through pix2wld).",
 "C12": " Added: one grid tiled twice (every pair of 7 tilings, regular tile specs), sources wrapping the globe under regional rasters. Round 5: queries without area (segments). Round 6: destination tiles tens of degrees wide over small polar-projection source tiles along their curved edge.",
 "C13": " Added: sibling reprojections with other fill parameters evaluated as ONE graph (dask.compute(a, b, c)). Round 5: a larger last chunk; the same rasters lazily reprojected earlier with rotated chunk boundaries.",
 "C14": " Added: one geobox cache shared by a box query and repeated polygon queries. Round 5: multi-part queries with one part in the empty corner of the other part's bounding box. Round 6: polygons far smaller than a pixel.",
 "C15": " Added: pixel patterns with whole uniform blocks (valid zeros, nodata, a constant). Round 6: an earlier write of another image with the same creation-options dict.",
 "C16": " Added: sub-pixel offsets between boxes hundreds to tens of thousands of pixels apart.",
 "C17": " Emptiness is specified for regions reversed on any number of axes; index-typed results must BE integers (a float bound is an outcome, not rounded).",
 "C18": " Added: S3Prep (attempts to write one object in sequence, some abandoned: prep_client must reset the shared Variable unconditionally - the conditional variant yields the expected counterexample) "
        "and replays on a cluster where an abandoned attempt left its upload id behind; sink finalisation over an existing destination; 40 rounds on a REAL in-process dask.distributed cluster "
        "(Client(processes=False): real Variable / Lock, the scheduler's own interleavings) validated by the same predicates. Round 5: the same object uploaded again on the same real cluster.",
 "C19": " Added: tilings whose flattened chunk lists coincide (other cut, zero-sized chunks); every object law (equality, token, hash, pickle) is evaluated once more AFTER USE (all views read, caches filled). Round 5: systems without an EPSG code in five spellings; the PAIR matrix (equality, hashes) observed again after every object was used.",
 "C20": " Added: a magnitude dimension (world side x 2^mag) for fits and decompositions; values a power of two away from an integer on either side of the DOCUMENTED DEFAULT tolerances of snap_scale / snap_affine "
        "with the tolerances defaulted or explicit; defaults of Bin1D; align_up_pow2 of non-positive numbers.",
}

NOT_YET = "check not built yet (work in progress); see DESIGN.md"
checks, na = [], []
for p in props:
    pid = p["id"]
    c = CHECKS.get(pid)
    if c is None:
        na.append({"property_id": pid, "reason": NOT_YET})
        continue
    checks.append({
        "property_id": pid,
        "quick_cmd": f"./check {pid} --tier quick",
        "thorough_cmd": f"./check {pid} --tier thorough",
        "evidence_file": f"/verif/evidence/{pid}.json",
        "replay_cmd_template": f"./check {pid} --replay {{path}}",
        "engine": "tlc+trace-validation",
        "level_claimed": {"category": "model_checking", "text": c["text"] + GROWTH.get(pid, ""), "design_ref": c["ref"]},
        "level_note": c["note"],
        "technique": c["technique"],
    })
man = {
 "version": 1,
 "setup_cmd": "cd /verif && ./tools/setup.sh",
 "hooks": {
  "guard": "ODC_GEO_VERIF",
  "enable": "no source hooks: checks import odc-geo from /repo's working tree (editable install) and observe it through its public API and injectable seams (DESIGN.md 2.6)",
  "baseline_off_cmd": "/verif/tools/baseline.py",
  "source_commits": [],
  "add_only": True,
 },
 "engines": [
  {"name": "tlc+trace-validation", "path": "/verif/check", "serves_properties": [c["property_id"] for c in checks],
   "kind_free_text": "explicit TLA+ specifications under /verif/spec checked with TLC (model checking of the implementation-shaped model against the property-level contract), cases/behaviours emitted by TLC executed on the real code by /verif/harness, recorded traces validated by TLC"},
 ],
 "checks": checks,
 "notes": "All verdicts (VIOLATION) come from property-level TLA+ predicates evaluated by TLC on values observed from the real code; disagreement with the implementation-shaped model is reported as MODEL-DRIFT only. Exit 2 = machinery failure.",
 "not_applicable": na,
}
json.dump(man, open(os.path.join(HERE, "MANIFEST.json"), "w"), indent=1)
print(f"{len(checks)} checks, {len(na)} not claimed")
