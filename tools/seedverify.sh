#!/bin/sh
# usage: tools/seedverify.sh <dir with patch.diff + demo.py> <ID> [<ID> ...]
# Confirms a seeded change in a private scratch worktree of /repo (never /repo itself):
#   demo passes without it, fails with it, the pinned test suite still passes with it; then runs the quick checks on it.
WT=${VH_WT:-/tmp/wt/mine}
D=$(realpath "$1"); shift
[ -d "$WT" ] || git -C /repo worktree add -q "$WT" HEAD
git -C "$WT" checkout -q -- . && git -C "$WT" reset -q --hard $(git -C /repo rev-parse HEAD) && git -C "$WT" clean -qfd
(cd "$D" && ODC_SRC="$WT" PYTHONPATH="$WT" timeout 900 /venv/bin/python demo.py >/dev/null 2>&1); echo "demo-without-change rc=$?"
git -C "$WT" apply "$D/patch.diff" || { echo "patch does not apply"; exit 2; }
(cd "$D" && ODC_SRC="$WT" PYTHONPATH="$WT" timeout 900 /venv/bin/python demo.py >/dev/null 2>&1); echo "demo-with-change rc=$?"
/verif/tools/baseline.py "$WT" | head -5
cd ${VH_VERIF:-/verif}
for id in "$@"; do VH_OUT=${VH_OUT:-/tmp/vh_out} PYTHONPATH="$WT" ./check "$id" 2>&1 | grep -v "^KNOWN" | cut -c1-260 | tail -4; done
git -C "$WT" checkout -q -- . ; git -C "$WT" clean -qfd
