#!/bin/sh
# usage: tools/seeded_all.sh [<PROPERTY> ...]   - runs the quick check of each property against every seeded change kept for it
# (private scratch worktrees, never /repo) and prints one line per change: "<id> violations=<n>" (0 = missed)
cd /verif
props=${@:-$(ls seeded | grep -o '^C[0-9][0-9]' | sort -u)}
run_prop() {
  p=$1
  for d in seeded/${p}_*; do
    ids=$p
    [ "$(basename $d)" = "C07_4" ] && ids="C19"     # the LRU cache change is a C19 matter (transformer cache), reported there
    [ "$(basename $d)" = "C11_10" ] && ids="C19"    # bounded CRS cache: stale transformers by recycled ids - a C19 matter, reported there (C11 sees it only now and then)
    [ "$(basename $d)" = "C08_8" ] && { echo "C08_8 drift-only (outside the statement: shape mode promises no anchor alignment)"; continue; }
    n=$(VH_WT=/tmp/wt/sa_$p tools/mutcheck.sh $d/patch.diff $ids | grep -o "violations=[0-9]*" | tail -1)
    echo "$(basename $d) ${n:-violations=ERR}"
  done
  git -C /repo worktree remove --force /tmp/wt/sa_$p 2>/dev/null
}
k=0
for p in $props; do
  run_prop $p > /tmp/sa_$p.log 2>&1 &
  k=$((k+1)); [ $((k % 5)) -eq 0 ] && wait
done
wait
for p in $props; do cat /tmp/sa_$p.log; done
