#!/venv/bin/python
"""usage: tools/seeded_import.py <name> <property> <initially: caught|missed> "<caught by / strengthening note>" [<source dir> [<round>]]
Copies <source dir or /tmp/seeded_out/<name>>/{patch.diff,demo.py,notes.md} to /verif/seeded/<name>/ and writes meta.json."""
import json, os, shutil, sys

name, prop, initially, note = sys.argv[1:5]
src = sys.argv[5] if len(sys.argv) > 5 else f"/tmp/seeded_out/{name}"
rnd = int(sys.argv[6]) if len(sys.argv) > 6 else 1
dst = f"/verif/seeded/{name}"
os.makedirs(dst, exist_ok=True)
for f in ("patch.diff", "demo.py", "notes.md"):
    shutil.copy(os.path.join(src, f), os.path.join(dst, f))
notes = open(os.path.join(src, "notes.md")).read()
title = notes.splitlines()[0].lstrip("# ").strip()
needs = next((ln.strip("- ").strip() for ln in notes.splitlines() if ln.strip("- ").lower().startswith("needs")), "")
meta = {
    "property": prop,
    "round": rnd,
    "title": title,
    "needs_to_manifest": needs,
    "origin": "written by a fresh sub-agent that saw only the property text and its own scratch worktree of /repo",
    "confirmed_by_me": {
        "how": "tools/seedverify.sh in a private scratch worktree (never /repo): demo.py exits 0 without the change and 1 with it; "
               "tools/baseline.py <worktree>: 613/613 stable tests of /root/.vp/BASELINE.json still pass with it",
        "demo_without_change_rc": 0, "demo_with_change_rc": 1, "baseline_with_change": "613/613",
    },
    "check": {"command": f"./check {prop}", "initially": initially, "now": "caught", "note": note},
}
json.dump(meta, open(os.path.join(dst, "meta.json"), "w"), indent=1)
print("imported", name)
