#!/venv/bin/python
"""Run the repository's pinned baseline (guard OFF) and compare with /root/.vp/BASELINE.json.
Exit 0 iff every stable_pass test still passes."""
import json, os, subprocess, sys, tempfile, xml.etree.ElementTree as ET

def main():
    base = json.load(open("/root/.vp/BASELINE.json"))
    want = set(base["stable_pass"])
    env = dict(os.environ)
    env.pop("ODC_GEO_VERIF", None)
    src = sys.argv[1] if len(sys.argv) > 1 else "/repo"  # optional: a scratch worktree of /repo
    env["PYTHONPATH"] = src
    with tempfile.TemporaryDirectory() as td:
        jx = os.path.join(td, "r.xml")
        cmd = ["/venv/bin/python", "-m", "pytest", "-q", "-p", "no:cacheprovider", "--timeout=900",
               "--continue-on-collection-errors", "-W", "ignore", f"--junitxml={jx}"]
        subprocess.run(cmd, cwd=src, env=env, stdout=subprocess.DEVNULL, stderr=subprocess.DEVNULL)
        root = ET.parse(jx).getroot()
    ok = set()
    bad = set()
    for tc in root.iter("testcase"):
        name = f"{tc.get('classname')}::{tc.get('name')}"
        if any(ch.tag in ("failure", "error", "skipped") for ch in tc):
            bad.add(name)
        else:
            ok.add(name)
    missing = sorted(want - ok)
    print(f"baseline: {len(want & ok)}/{len(want)} stable tests pass; {len(ok)} pass in total, {len(bad)} fail/skip")
    for m in missing[:40]:
        print("  MISSING", m)
    return 1 if missing else 0

if __name__ == "__main__":
    sys.exit(main())
