#!/bin/sh
# usage: tools/sany.sh spec/<dir>/<Module>.tla  -> prints only errors
cd "$(dirname "$1")" && java -DTLA-Library=$(ls -d /verif/spec/*/ | tr '\n' ':') -cp /opt/veriftools/tla/tla2tools.jar:/opt/veriftools/tla/CommunityModules-deps.jar tla2sany.SANY "$(basename "$1")" 2>&1 | grep -v "^Parsing\|^Semantic proc\|^\*\*\*\*\*\* SANY" | grep -B2 -A8 -i "error\|unknown\|expect" | head -${2:-40}
