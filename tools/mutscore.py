#!/venv/bin/python
"""Mutation score of the checks on the code each property is anchored in.

  tools/mutscore.py gen  <PID> [--max N] [--seed S]   enumerate syntactic mutants of the functions named by the property's anchors
  tools/mutscore.py run  <PID> [-j K]                 for every generated mutant: private scratch worktree (never /repo), pinned suite,
                                                      then ./check <PID> (VH_OUT redirects evidence/replays) -> <out>/<PID>/results.jsonl
  tools/mutscore.py show <PID> ...                    table: killed by the suite / reported by the check / survived

Anchors carry line ranges of the PINNED commit; they are resolved to function qualnames there and the same functions are mutated in
the current tree (so fix: commits do not shift the target).  This is a tool for hunting pinned dimensions of the case domains, it is
not part of any check.  Scratch: $VH_MUT (default /tmp/mut)."""
import argparse, ast, copy, json, os, random, re, subprocess, sys, time
from concurrent.futures import ThreadPoolExecutor

REPO = "/repo"
VERIF = "/verif"
MUT = os.environ.get("VH_MUT", "/tmp/mut")
PINNED = subprocess.run(["git", "-C", REPO, "rev-list", "--max-parents=0", "HEAD"], capture_output=True, text=True).stdout.split()[0]

SWAPS = [("x", "y"), ("nx", "ny"), ("sx", "sy"), ("tx", "ty"), ("rx", "ry"), ("width", "height"), ("left", "right"), ("top", "bottom"),
         ("src", "dst"), ("start", "stop"), ("min", "max"), ("floor", "ceil"), ("any", "all"), ("x0", "x1"), ("y0", "y1"),
         ("W", "H"), ("w", "h"), ("ix", "iy"), ("lon", "lat"), ("lhs", "rhs"), ("a", "b"), ("nrows", "ncols"), ("row", "col"),
         ("flipx", "flipy"), ("xx", "yy"), ("minx", "maxx"), ("miny", "maxy"), ("align_up", "align_down"), ("is_final", "started")]
SWAP = {}
for a, b in SWAPS:
    SWAP[a] = b
    SWAP[b] = a
CMP = {ast.Lt: ast.LtE, ast.LtE: ast.Lt, ast.Gt: ast.GtE, ast.GtE: ast.Gt, ast.Eq: ast.NotEq, ast.NotEq: ast.Eq,
       ast.Is: ast.IsNot, ast.IsNot: ast.Is, ast.In: ast.NotIn, ast.NotIn: ast.In}
BIN = {ast.Add: ast.Sub, ast.Sub: ast.Add, ast.Mult: ast.Div, ast.Div: ast.Mult, ast.FloorDiv: ast.Div}


def anchors(pid):
    for ln in open(f"{VERIF}/properties.jsonl"):
        p = json.loads(ln)
        if p["id"] == pid:
            out = []
            for m in p["anchors"]["mechanism"] + p["anchors"].get("state", []):
                for part in m["where"].split(";"):
                    mm = re.search(r"(odc/geo/[\w/]+\.py):(.*)", part.strip())
                    if not mm:
                        # "; 192-230" style continuation: reuse the previous file
                        mm2 = re.match(r"\s*([\d\-, ]+)", part)
                        if mm2 and out:
                            f = out[-1][0]
                            spans = mm2.group(1)
                        else:
                            continue
                    else:
                        f, spans = mm.group(1), mm.group(2)
                    for lo, hi in re.findall(r"(\d+)(?:-(\d+))?", spans):
                        out.append((f, int(lo), int(hi or lo)))
            return out
    raise SystemExit(f"unknown property {pid}")


def funcs_with_spans(tree):
    res = []

    def rec(node, prefix):
        for ch in ast.iter_child_nodes(node):
            if isinstance(ch, (ast.FunctionDef, ast.AsyncFunctionDef)):
                q = f"{prefix}{ch.name}"
                res.append((q, ch.lineno, ch.end_lineno, ch))
                rec(ch, q + ".")
            elif isinstance(ch, ast.ClassDef):
                rec(ch, f"{prefix}{ch.name}.")
            else:
                rec(ch, prefix)
    rec(tree, "")
    return res


def targets(pid):
    """{file: set(qualname)} of the innermost functions overlapping the anchored line ranges at the pinned commit"""
    out = {}
    for f, lo, hi in anchors(pid):
        src = subprocess.run(["git", "-C", REPO, "show", f"{PINNED}:{f}"], capture_output=True, text=True).stdout
        fs = funcs_with_spans(ast.parse(src))
        hit = [(q, a, b) for q, a, b, _ in fs if not (b < lo or a > hi)]
        # innermost: drop a function when one of its nested functions is hit too AND covers the overlap
        names = {q for q, _, _ in hit}
        for q, a, b in hit:
            out.setdefault(f, set()).add(q)
    return out


class Point:
    def __init__(self, idx, kind, desc, lineno, func):
        self.idx, self.kind, self.desc, self.lineno, self.func = idx, kind, desc, lineno, func


def enumerate_points(tree, spans):
    """deterministic list of (node index in ast.walk order, variant, kind, description)"""
    pts = []
    nodes = list(ast.walk(tree))
    # doc strings must not count as constants
    docs = set()
    for n in nodes:
        if isinstance(n, (ast.FunctionDef, ast.ClassDef, ast.Module, ast.AsyncFunctionDef)) and n.body and isinstance(n.body[0], ast.Expr) \
                and isinstance(n.body[0].value, ast.Constant) and isinstance(n.body[0].value.value, str):
            docs.add(id(n.body[0].value))
            docs.add(id(n.body[0]))

    def infunc(n):
        ln = getattr(n, "lineno", None)
        if ln is None:
            return None
        best = None
        for q, a, b in spans:
            if a <= ln <= b and (best is None or a >= best[1]):
                best = (q, a, b)
        return best[0] if best else None

    for i, n in enumerate(nodes):
        fn = infunc(n)
        if fn is None or id(n) in docs:
            continue
        ln = n.lineno

        def add(variant, kind, desc):
            pts.append({"node": i, "variant": variant, "kind": kind, "desc": desc, "line": ln, "func": fn})
        if isinstance(n, ast.Compare):
            for k, op in enumerate(n.ops):
                if type(op) in CMP:
                    add(k, "cmp", f"{type(op).__name__}->{CMP[type(op)].__name__}")
        elif isinstance(n, ast.BinOp) and type(n.op) in BIN:
            if not (isinstance(n.op, ast.Mod) or (isinstance(n.left, ast.Constant) and isinstance(n.left.value, str))):
                add(0, "binop", f"{type(n.op).__name__}->{BIN[type(n.op)].__name__}")
        elif isinstance(n, ast.UnaryOp) and isinstance(n.op, (ast.Not, ast.USub)):
            add(0, "unary", f"drop {type(n.op).__name__}")
        elif isinstance(n, ast.BoolOp):
            add(0, "bool", "and<->or")
        elif isinstance(n, ast.Constant):
            v = n.value
            if isinstance(v, bool):
                add(0, "const", f"{v}->{not v}")
            elif isinstance(v, int) and abs(v) <= 1024:
                add(0, "const", f"{v}->{v + 1}")
                add(1, "const", f"{v}->{v - 1}")
            elif isinstance(v, float):
                add(0, "const", f"{v}->{v * 10}")
                add(1, "const", f"{v}->{v / 10}")
        elif isinstance(n, ast.Name) and isinstance(n.ctx, ast.Load) and n.id in SWAP:
            add(0, "name", f"{n.id}->{SWAP[n.id]}")
        elif isinstance(n, ast.Attribute) and isinstance(n.ctx, ast.Load) and n.attr in SWAP:
            add(0, "attr", f".{n.attr}->.{SWAP[n.attr]}")
        elif isinstance(n, (ast.If, ast.IfExp)):
            add(0, "if", "condition->True")
            add(1, "if", "condition->False")
        elif isinstance(n, ast.Call):
            pos = [a for a in n.args if not isinstance(a, ast.Starred)]
            if len(n.args) >= 2 and len(pos) == len(n.args) and not all(isinstance(a, ast.Constant) for a in n.args[:2]) \
                    and ast.dump(n.args[0]) != ast.dump(n.args[1]):
                add(0, "args", "swap first two positional arguments")
        elif isinstance(n, ast.Subscript) and isinstance(n.slice, ast.Constant) and n.slice.value in (0, 1) and isinstance(n.ctx, ast.Load):
            pass  # covered by the constant rule
        elif isinstance(n, ast.AugAssign):
            add(0, "del", "drop augmented assignment")
        elif isinstance(n, ast.Expr) and isinstance(n.value, ast.Call):
            add(0, "del", "drop call statement")
        elif isinstance(n, ast.Return) and n.value is not None and isinstance(n.value, (ast.Name, ast.Attribute, ast.Call, ast.BinOp)):
            pass
    return pts


def apply_point(tree, pt):
    t = copy.deepcopy(tree)
    nodes = list(ast.walk(t))
    n = nodes[pt["node"]]
    k, v = pt["kind"], pt["variant"]
    if k == "cmp":
        n.ops[v] = CMP[type(n.ops[v])]()
    elif k == "binop":
        n.op = BIN[type(n.op)]()
    elif k == "unary":
        _replace(t, n, n.operand)
    elif k == "bool":
        n.op = ast.Or() if isinstance(n.op, ast.And) else ast.And()
    elif k == "const":
        val = n.value
        if isinstance(val, bool):
            n.value = not val
        elif isinstance(val, int):
            n.value = val + 1 if v == 0 else val - 1
        else:
            n.value = val * 10 if v == 0 else val / 10
    elif k == "name":
        n.id = SWAP[n.id]
    elif k == "attr":
        n.attr = SWAP[n.attr]
    elif k == "if":
        n.test = ast.Constant(value=(v == 0))
    elif k == "args":
        n.args[0], n.args[1] = n.args[1], n.args[0]
    elif k == "del":
        _replace(t, n, ast.Pass())
    ast.fix_missing_locations(t)
    return t


def _replace(tree, old, new):
    for parent in ast.walk(tree):
        for field, val in ast.iter_fields(parent):
            if val is old:
                setattr(parent, field, new)
                return
            if isinstance(val, list):
                for i, x in enumerate(val):
                    if x is old:
                        val[i] = new
                        return
    raise RuntimeError("node not found")


def cmd_gen(a):
    pid = a.pid
    out = f"{MUT}/{pid}"
    os.makedirs(out, exist_ok=True)
    tg = targets(pid)
    allm = []
    for f, quals in sorted(tg.items()):
        src = open(f"{REPO}/{f}").read()
        tree = ast.parse(src)
        spans = [(q, lo, hi) for q, lo, hi, _ in funcs_with_spans(tree) if q in quals]
        missing = quals - {q for q, _, _ in spans}
        if missing:
            print(f"  note: {f}: not found in the current tree: {sorted(missing)}")
        pts = enumerate_points(tree, spans)
        for p in pts:
            p["file"] = f
        allm.extend(pts)
    rng = random.Random(a.seed)
    # stratified: round-robin over (file, func) groups so every anchored function gets mutants
    groups = {}
    for p in allm:
        groups.setdefault((p["file"], p["func"]), []).append(p)
    for g in groups.values():
        rng.shuffle(g)
    pick = []
    keys = sorted(groups)
    rng.shuffle(keys)
    while len(pick) < a.max and any(groups[k] for k in keys):
        for k in keys:
            if groups[k] and len(pick) < a.max:
                pick.append(groups[k].pop())
    trees = {}
    n = 0
    done = []
    for p in pick:
        f = p["file"]
        if f not in trees:
            trees[f] = ast.parse(open(f"{REPO}/{f}").read())
        try:
            t = apply_point(trees[f], p)
            code = ast.unparse(t) + "\n"
            compile(code, f, "exec")
        except Exception as ex:  # noqa: BLE001
            continue
        n += 1
        p["id"] = f"{pid}_m{n:03d}"
        open(f"{out}/{p['id']}.py", "w").write(code)
        done.append(p)
    json.dump(done, open(f"{out}/mutants.json", "w"), indent=1)
    print(f"{pid}: {len(allm)} mutation points in {len(groups)} anchored functions of {len(tg)} files; generated {len(done)}")


def run_one(pid, p, wt, props):
    out = f"{MUT}/{pid}"
    dst = f"{wt}/{p['file']}"
    orig = open(dst).read()
    res = dict(p)
    try:
        open(dst, "w").write(open(f"{out}/{p['id']}.py").read())
        t0 = time.time()
        r = subprocess.run(["timeout", "-k", "5", "300", f"{VERIF}/tools/baseline.py", wt], capture_output=True, text=True)
        res["suite"] = "pass" if r.returncode == 0 else "fail"
        res["suite_s"] = round(time.time() - t0)
        if r.returncode == 0:
            for q in props:
                env = dict(os.environ, PYTHONPATH=wt, VH_OUT=f"{out}/out_{p['id']}", VH_CASE_TIMEOUT="60")
                t0 = time.time()
                try:
                    c = subprocess.run([f"{VERIF}/check", q], capture_output=True, text=True, env=env, cwd=VERIF, timeout=1500)
                    txt = c.stdout + c.stderr
                    m = re.search(r"violations=(\d+)", txt)
                    d = re.search(r"drift=(\d+)", txt)
                    res[f"check_{q}"] = {"rc": c.returncode, "violations": int(m.group(1)) if m else None, "drift": int(d.group(1)) if d else None,
                                         "clauses": sorted(set(re.findall(r"clause=(\S+)", txt)))[:6], "s": round(time.time() - t0),
                                         "tail": txt[-400:] if c.returncode == 2 else ""}
                except subprocess.TimeoutExpired:
                    res[f"check_{q}"] = {"rc": "timeout"}
            subprocess.run(["rm", "-rf", f"{out}/out_{p['id']}"])
    finally:
        open(dst, "w").write(orig)
    return res


def cmd_run(a):
    pid = a.pid
    out = f"{MUT}/{pid}"
    muts = json.load(open(f"{out}/mutants.json"))
    props = a.props.split(",") if a.props else [pid]
    donef = f"{out}/results.jsonl"
    done = set()
    if os.path.exists(donef):
        done = {json.loads(l)["id"] for l in open(donef)}
    todo = [m for m in muts if m["id"] not in done]
    wts = []
    for k in range(a.j):
        wt = f"{MUT}/wt_{pid}_{k}"
        if not os.path.isdir(wt):
            subprocess.run(["git", "-C", REPO, "worktree", "add", "-q", "--detach", wt, "HEAD"], check=True)
        subprocess.run(["git", "-C", wt, "checkout", "-q", "--", "."])
        wts.append(wt)
    import queue
    free = queue.Queue()
    for w in wts:
        free.put(w)

    def job(p):
        w = free.get()
        try:
            r = run_one(pid, p, w, props)
        finally:
            free.put(w)
        with open(donef, "a") as f:
            f.write(json.dumps(r) + "\n")
        ck = r.get(f"check_{props[0]}", {})
        print(f"{r['id']} {r['file']}:{r['line']} {r['func']} [{r['kind']} {r['desc']}] suite={r['suite']} "
              f"check={ck.get('rc')} viol={ck.get('violations')} drift={ck.get('drift')}", flush=True)
    with ThreadPoolExecutor(a.j) as ex:
        list(ex.map(job, todo))
    for w in wts:
        subprocess.run(["git", "-C", REPO, "worktree", "remove", "--force", w])


def cmd_show(a):
    for pid in a.pids:
        f = f"{MUT}/{pid}/results.jsonl"
        if not os.path.exists(f):
            continue
        rs = [json.loads(l) for l in open(f)]
        killed = [r for r in rs if r["suite"] == "fail"]
        surv = [r for r in rs if r["suite"] == "pass"]
        rep = [r for r in surv if any((v.get("violations") or 0) > 0 for k, v in r.items() if k.startswith("check_"))]
        mach = [r for r in surv if r not in rep and any(v.get("rc") in (2, "timeout") for k, v in r.items() if k.startswith("check_"))]
        drift = [r for r in surv if r not in rep and r not in mach and any((v.get("drift") or 0) > 0 for k, v in r.items() if k.startswith("check_"))]
        miss = [r for r in surv if r not in rep and r not in mach and r not in drift]
        print(f"{pid}: {len(rs)} mutants: killed by suite {len(killed)}; pass the suite {len(surv)}: reported {len(rep)}, machinery {len(mach)}, drift only {len(drift)}, silent {len(miss)}")
        if a.v:
            for r in mach + drift + miss:
                tag = "MACH " if r in mach else ("DRIFT" if r in drift else "SILENT")
                print(f"   {tag} {r['id']} {r['file']}:{r['line']} {r['func']} [{r['kind']} {r['desc']}]")


if __name__ == "__main__":
    ap = argparse.ArgumentParser()
    sub = ap.add_subparsers(dest="cmd", required=True)
    g = sub.add_parser("gen"); g.add_argument("pid"); g.add_argument("--max", type=int, default=40); g.add_argument("--seed", type=int, default=1)
    r = sub.add_parser("run"); r.add_argument("pid"); r.add_argument("-j", type=int, default=2); r.add_argument("--props", default="")
    s = sub.add_parser("show"); s.add_argument("pids", nargs="+"); s.add_argument("-v", action="store_true")
    a = ap.parse_args()
    {"gen": cmd_gen, "run": cmd_run, "show": cmd_show}[a.cmd](a)
