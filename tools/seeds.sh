#!/bin/sh
# usage: tools/seeds.sh C03 [C10 ...]   -> runs each quick check with VERIF_SEED=1,2,3 and prints the summary lines
cd /verif
for id in "$@"; do for s in 1 2 3; do VERIF_SEED=$s ./check $id 2>&1 | grep -v "^KNOWN" | tail -3 | cut -c1-260; done; done
